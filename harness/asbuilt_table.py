"""Regenerates section 14 of DESIGN.md (between the markers) from evidence/*.json and MANIFEST.json."""
import json
from pathlib import Path

VERIF = Path(__file__).resolve().parents[1]


def main():
    man = json.load(open(VERIF / "MANIFEST.json"))
    rows = []
    for c in man["checks"]:
        pid = c["property_id"]
        ev = json.load(open(VERIF / c["evidence_file"]))
        cov = ev["coverage"]
        thms = [o["name"][8:] for o in cov.get("obligation_list", []) if o["name"].startswith("theorem:")]
        ax = cov.get("axioms_reported", {})
        nonclosed = sorted({a for v in ax.values() if isinstance(v, list) for a in v})
        gen = sorted(f for f in cov.get("files_checked", []) if f.startswith("gen/"))
        reach = "partial" if c["level_claimed"]["text"].startswith("Partial") else "full"
        rows.append(f"| {pid} | {reach} | {len(thms)} | {'closed' if not nonclosed else ', '.join(a.split('.')[-1] for a in nonclosed)} | "
                    f"{', '.join(g[4:] for g in gen)} | {cov['obligations']} | {cov['evaluations']} / {cov['distinct_nontrivial']} | {ev['wall_s']:.0f} s | "
                    f"{', '.join(ev.get('known_findings', [])) or '-'} |")
    table = ("| id | reach | property theorems | axioms (Print Assumptions) | regenerated files it depends on | obligations (all discharged) | "
             "correspondence cases / distinct non-trivial (quick) | quick wall | known findings |\n|---|---|---|---|---|---|---|---|---|\n"
             + "\n".join(rows) + "\n")
    p = VERIF / "DESIGN.md"
    s = p.read_text()
    a, b = "<!-- ASBUILT-TABLE-BEGIN -->", "<!-- ASBUILT-TABLE-END -->"
    if a in s:
        s = s[:s.index(a) + len(a)] + "\n" + table + s[s.index(b):]
        p.write_text(s)
    return table


if __name__ == "__main__":
    print(main())
