"""Runs ONE C18 scenario against the real tak.self_play.MultiprocessSelfPlayEngine with
real `spawn` worker processes and writes what was observed as JSON.

    python -m harness.c18_driver <scenario.json> <out.json>

must be started with the environment of core.child_env(ext=True, shims=True) (the
spawned workers inherit it; /verif/shims/sitecustomize.py installs the stand-ins).
Everything at module level must be import-safe: the spawned workers re-import this
module as __mp_main__.

A hang is an OBSERVED outcome: play_many / stop run in a thread and are given
`bound` seconds; afterwards every process that is still alive is killed."""
import json
import os
import queue
import signal
import sys
import threading
import time
import traceback


class Trace(list):
    """the parent's queue operations in program order as [op, queue, value, time, repeat];
    consecutive identical operations are collapsed into one entry (a parent spinning on a full
    queue must not produce an unbounded record) and the list is capped"""
    CAP = 4000

    def __init__(self):
        super().__init__()
        self.truncated = 0

    def add(self, op, name, val):
        now = time.monotonic()
        if self and self[-1][0] == op and self[-1][1] == name and self[-1][2] == val and op in ("full",):
            self[-1][4] += 1
            self[-1][3] = now
            return
        if len(self) >= self.CAP:
            self.truncated += 1
            return
        self.append([op, name, val, now, 1])


class Proxy:
    """parent-side view of a multiprocessing.Queue that records every put/get and its result"""

    def __init__(self, real, name, trace):
        self.real, self.name, self.trace = real, name, trace

    def put(self, obj, block=True, timeout=None):
        try:
            self.real.put(obj, block=block, timeout=timeout)
        except queue.Full:
            self.trace.add("full", self.name, None if obj is None else int(obj))
            raise
        self.trace.add("put", self.name, None if obj is None else int(obj))

    def get(self, block=True, timeout=None):
        self.trace.add("get_enter", self.name, None)
        try:
            obj = self.real.get(block=block, timeout=timeout)
        except queue.Empty:
            self.trace.add("timeout", self.name, None)
            raise
        gid = getattr(getattr(obj, "stats", None), "game_id", None)
        self.trace.add("recv", self.name, gid)
        return obj

    def __getattr__(self, k):
        return getattr(self.real, k)


def cpu_ticks(pid):
    """utime+stime of a process (clock ticks); constant for a blocked, dead or reaped process"""
    try:
        with open(f"/proc/{pid}/stat") as f:
            rest = f.read().rsplit(")", 1)[1].split()
        return int(rest[11]) + int(rest[12])
    except Exception:
        return -1


def read_log(path):
    if not os.path.exists(path):
        return []
    out = []
    with open(path) as f:
        for line in f:
            line = line.strip()
            if line:
                try:
                    out.append(json.loads(line))
                except Exception:
                    pass
    return out


def transcript_summary(log, size=3):
    """id tag + a content digest of one returned transcript: lengths of the four per-ply lists, the
    recorded plies, whether the first recorded position is the initial one, one fingerprint per position"""
    import zlib
    out = {"lens": None, "plies_seq": None, "first_initial": None, "fps": None}
    try:
        lens = [len(log.positions), len(log.moves), len(log.probs), len(log.values)]
        n = lens[0]
        complete = (n >= 1 and len(set(lens)) == 1 and all(p is not None for p in log.positions))
        out["lens"] = lens
        out["plies_seq"] = [int(p.ply) for p in log.positions]
        if n >= 1:
            p0 = log.positions[0]
            out["first_initial"] = bool(p0.ply == 0 and p0.size == size and len(p0.board) == size * size
                                        and all(len(sq) == 0 for sq in p0.board))
        out["fps"] = [zlib.crc32(repr((p.ply, p.size, p.board)).encode()) for p in log.positions]
    except Exception as e:  # noqa
        n, complete = -1, False
        out["error"] = repr(e)[:200]
    st = getattr(log, "stats", None)
    out.update({"id": getattr(st, "game_id", None), "worker": getattr(st, "worker", None), "plies": n,
                "complete": bool(complete)})
    return out


def run_with_bound(fn, bound, progress=None, started=None):
    """run fn in a thread; give up when nothing has moved for `bound` seconds (progress() is a
    fingerprint of everything observable: queue events other than timeouts, worker events, exit
    codes).  Process start-up (importing torch) is slow on a loaded machine; a hang is the absence
    of any progress, not slowness."""
    box = {}

    def body():
        try:
            box["value"] = fn()
        except BaseException as e:  # noqa
            box["error"] = e

    th = threading.Thread(target=body, daemon=True)
    th.start()
    t0 = time.monotonic()
    last, t_last = None, t0
    up = started is None
    while th.is_alive():
        th.join(0.1)
        now = time.monotonic()
        fp = progress() if progress is not None else None
        if fp != last:
            last, t_last = fp, now
        if not up:
            # the clock does not run while worker processes are still importing (at most 90 s)
            up = started() or now > t0 + 90
            t_last = now
        if now > t_last + bound:
            break
    return th, box


def main(sc_path, out_path):
    sc = json.load(open(sc_path))
    from tak import self_play
    from harness import c18_factories as F

    self_play.STOP_TIMEOUT = float(sc.get("stop_timeout", 30.0))
    W = int(sc["workers"])
    bound = float(sc.get("bound", 20))
    log_path = out_path + ".wlog"
    if os.path.exists(log_path):
        os.unlink(log_path)
    shared = F.make_shared()
    fac = F.Factory(log_path, sc.get("fault", {"kind": "none"}), shared, sims=int(sc.get("sims", 2)),
                    settle=float(sc.get("settle", 0.3)), hold=sc.get("hold"), payload=int(sc.get("payload", 0)))
    cfg = self_play.SelfPlayConfig(engine_factory=fac, size=3, workers=W, ply_limit=int(sc.get("ply_limit", 6)))
    res = {"scenario": sc, "requests": [], "t0": time.monotonic()}
    engine = self_play.MultiprocessSelfPlayEngine(config=cfg)
    trace = Trace()
    real_cmd, real_games = engine.job.cmd, engine.job.games
    engine.job.cmd = Proxy(real_cmd, "cmd", trace)
    engine.job.games = Proxy(real_games, "games", trace)

    ext = sc.get("ext_kill")
    if ext:
        def controller():
            # wait until one worker is held inside a game and every worker finished its factory
            try:
                t_end = time.monotonic() + 120
                while time.monotonic() < t_end:
                    ev = read_log(log_path)
                    held = [e["w"] for e in ev if e["ev"] == "hold"]
                    ready = [e["w"] for e in ev if e["ev"] == "ready"]
                    idle = [w for w in sorted(set(ready)) if w not in held]
                    if held and len(set(ready)) == W and idle:
                        time.sleep(0.5)      # the idle worker is now blocked in cmd.get(), holding its read lock
                        victim = idle[0]
                        # act right after a timeout of the parent's get, so that the held game arrives
                        # before the next one (the parent inspects exit codes only on a timeout)
                        n0 = sum(1 for t in list(trace) if t[0] == "timeout")
                        t_w = time.monotonic() + 10
                        while time.monotonic() < t_w and sum(1 for t in list(trace) if t[0] == "timeout") == n0:
                            time.sleep(0.002)
                        fac.log_as(victim, "extkill", reading=True, code=-9)
                        os.kill(engine.processes[victim].pid, signal.SIGKILL)
                        engine.processes[victim].join(5)
                        time.sleep(0.2)
                        return
                    if held and len(set(ready)) == W:
                        return
                    time.sleep(0.05)
            finally:
                shared["gate"].set()
        threading.Thread(target=controller, daemon=True).start()

    def progress():
        try:
            size = os.path.getsize(log_path)
        except OSError:
            size = 0
        # worker CPU time counts as progress: on a loaded machine a process that is importing or
        # tearing down slowly is not hung; a blocked or dead worker accumulates none
        # of the parent's own operations only successful puts and delivered games count: a parent
        # that burns CPU (e.g. spinning on queue.Full) without completing a get is not progressing
        return (sum(1 for t in list(trace) if t[0] in ("put", "recv")), size,
                tuple(p.exitcode for p in engine.processes), tuple(cpu_ticks(p.pid) for p in engine.processes))

    def started():
        seen = {e["w"] for e in read_log(log_path) if e.get("ev") == "factory"}
        return all(i in seen or p.exitcode is not None for i, p in enumerate(engine.processes))

    alive_hang = False
    for n in sc["requests"]:
        start = len(trace)
        t_req = time.monotonic()
        th, box = run_with_bound(lambda: engine.play_many(int(n)), bound, progress, started)
        r = {"n": int(n)}
        if th.is_alive():
            last = trace[-1] if trace else None
            stuck = bool(last and last[0] == "get_enter" and time.monotonic() - last[3] > 3.0)
            # where is the parent?  (stack of the thread that runs play_many)
            fr = sys._current_frames().get(th.ident)
            stack = [f"{f.filename.rsplit('/', 1)[-1]}:{f.lineno} {f.name}" for f in traceback.extract_stack(fr)][-8:] if fr else []
            in_get = any(x.endswith(" get") for x in stack)
            spin = bool(last and last[0] == "full" and last[4] > 1000 and not in_get)
            r.update(outcome="hung", stuck_in_get=stuck, dispatch_spin=spin, parent_stack=stack,
                     last_parent_op=[last[0], last[1], last[2], last[4]] if last else None,
                     gets_completed=sum(1 for t in list(trace) if t[0] in ("recv", "timeout")),
                     outstanding=int(n) - sum(1 for t in list(trace)[start:] if t[0] == "recv"))
            for qn, q in (("cmd_qsize", real_cmd), ("games_qsize", real_games)):
                try:
                    r[qn] = q.qsize()
                except Exception:
                    r[qn] = None
            alive_hang = True
        elif "error" in box:
            e = box["error"]
            r.update(outcome="raised", error=type(e).__name__, message=str(e)[:200])
        else:
            logs = box["value"]
            r.update(outcome="returned", transcripts=[transcript_summary(l) for l in logs])
            try:
                r["queues_empty"] = bool(real_cmd.empty() and real_games.empty())
            except Exception as e:  # noqa
                r["queues_empty"] = None
        r["wall"] = round(time.monotonic() - t_req, 2)
        r["trace"] = [[x[0], x[1], x[2], x[4]] for x in trace[start:]]
        r["trace_truncated"] = trace.truncated
        r["codes_after"] = [p.exitcode for p in engine.processes]
        r["wlog_upto"] = len(read_log(log_path))
        res["requests"].append(r)
        if r["outcome"] != "returned":
            break

    stop = {"called": False}
    if not alive_hang:
        start = len(trace)
        t_s = time.monotonic()
        th, box = run_with_bound(engine.stop, bound, progress)
        stop["called"] = True
        if th.is_alive():
            stop["outcome"] = "hung"
        elif "error" in box:
            e = box["error"]
            stop.update(outcome="raised", error=type(e).__name__)
        else:
            stop["outcome"] = "stopped"
        stop["wall"] = round(time.monotonic() - t_s, 2)
        stop["trace"] = [[x[0], x[1], x[2], x[4]] for x in trace[start:]]
    res["stop"] = stop
    if stop["called"] and stop.get("outcome") != "hung":
        # p.kill() is asynchronous: give processes that were killed a moment to die before looking
        t_end = time.monotonic() + 5.0
        for p in engine.processes:
            p.join(max(0.0, t_end - time.monotonic()))
    res["codes"] = [p.exitcode for p in engine.processes]
    res["evals"] = shared["evals"].value
    res["wlog"] = read_log(log_path)
    leftovers = 0
    for p in engine.processes:
        if p.is_alive():
            leftovers += 1
            p.kill()
    res["leftovers_killed"] = leftovers
    json.dump(res, open(out_path, "w"), default=str)
    try:
        os.unlink(log_path)
    except OSError:
        pass
    sys.stdout.flush()
    os._exit(0)     # never wait for feeder threads / hung workers


if __name__ == "__main__":
    main(sys.argv[1], sys.argv[2])
