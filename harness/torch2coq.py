"""torch2coq - a small fail-closed translator (Python `ast`, nothing is executed) for the two torch-plumbing functions of
property C12:

    alphazero/trainer.py : dedup_batch(batch)
    self_play.py         : encode_games(logs)

It emits coq/gen/BatchGen.v: one Gallina function per Python function (plus one `Fixpoint <f>_for<k>` per `for` loop),
written against coq/model/TorchLite.v (torch / dict semantics) and coq/model/PySem.v (outcomes `Ok v | Illegal |
Crash e`, list operations).  coq/proofs/BatchGenEq.v proves the generated functions equal to the hand model
(model/Batch.v).  Any construct outside the fragment below raises `Untranslatable`; the caller then writes a stub, so
every proof about the generated names stops compiling.

Scheme
* every local is a value that is REBOUND by assignment; an in-place torch operation (`t[i] = v`, `t[i] += v`,
  `d[k][i] += v`, `d[k] /= v`) rebinds the variable holding the tensor / the dict.  That is only sound without
  aliasing, so in-place operations are accepted only on objects the function created itself (torch.zeros,
  torch.zeros_like, a dict comprehension of those) and that have not been aliased by `x = t[..]` / `x = t`;
* an expression that can raise is bound (`t <- e ;;`) in Python's evaluation order (assignment: right-hand side, then
  the target's container and index; augmented assignment: container, index, load, right-hand side, operation, store);
* `for v in it` -> `Fixpoint <f>_for<k>` by structural recursion over the iterated list; the loop state is the tuple of
  variables the body assigns that exist before the loop, in order of definition; the other variables the body reads
  are parameters; variables first assigned inside the body are local to one iteration;
* `if c: A else: B` -> both blocks return the tuple of the variables assigned in either (each must exist before the
  `if` or be assigned in both); `return` / `break` / `continue` inside are refused;
* callees of encode_games enter as Section variables (oracles): `tr.logits`, `tr.results`, `encoding.encode_batch`;
  `tr.positions`, `tr.values` are the fields of model/SelfPlay.v's `transcript`.
"""
import ast
import hashlib
from pathlib import Path


class Untranslatable(Exception):
    pass


def _no(node, what):
    raise Untranslatable(f"{what}: line {getattr(node, 'lineno', '?')}")


# ---------------------------------------------------------------------------------------------------------------
# types
# ---------------------------------------------------------------------------------------------------------------
INT, STR, BOOL, TENSOR, TDICT, ZDICT, FLOAT, TRANSCRIPT, POSITION, DTYPE = (
    "int", "str", "bool", "tensor", "tdict", "zdict", "float", "transcript", "position", "dtype")


def FN(a, r):
    """a Python callable a -> r that may raise"""
    return ("fn", a, r)



def LIST(t):
    return ("list", t)


def TUPLE(*ts):
    return ("tuple",) + tuple(ts)


def coq_type(t):
    if t == INT:
        return "Z"
    if t == STR:
        return "string"
    if t == BOOL:
        return "bool"
    if t == FLOAT:
        return "Q"
    if t in (TENSOR, TDICT, ZDICT, TRANSCRIPT, POSITION, DTYPE):
        return t
    if isinstance(t, tuple) and t[0] == "fn":
        return f"({coq_type(t[1])} -> res ({coq_type(t[2])}))"
    if isinstance(t, tuple) and t[0] == "list":
        return f"list ({coq_type(t[1])})" if isinstance(t[1], tuple) else f"list {coq_type(t[1])}"
    if isinstance(t, tuple) and t[0] == "tuple":
        return "(" + " * ".join(coq_type(x) for x in t[1:]) + ")"
    raise Untranslatable(f"type {t!r}")


KEY = LIST(INT)          # tuple(...tolist()) used as a dict key

RESERVED = {"fun", "let", "in", "match", "with", "end", "if", "then", "else", "forall", "exists", "fix", "as",
            "return", "Type", "Prop", "Set", "at", "using", "where", "ret", "bind", "it"}


class Var:
    def __init__(self, name, typ, fresh=False, dt=None):
        self.name, self.typ, self.fresh = name, typ, fresh
        self.dt = dt            # for a tensor: the Coq term of the dtype it was created with, when known statically


class Env:
    """ordered map Python name -> Var (order = order of first definition)"""
    def __init__(self, items=None):
        self.items = dict(items or {})

    def copy(self):
        return Env({k: Var(v.name, v.typ, v.fresh, v.dt) for k, v in self.items.items()})

    def get(self, node, name):
        if name not in self.items:
            _no(node, f"name {name!r} is not a local defined on every path")
        return self.items[name]

    def bind(self, node, name, typ, fresh=False, dt=None):
        if name in RESERVED or (name[:1] == "t" and name[1:].isdigit()):
            _no(node, f"local name {name!r} clashes with the generated text")
        if name in self.items and self.items[name].typ != typ:
            _no(node, f"local {name!r} changes its type ({self.items[name].typ} -> {typ})")
        if name in self.items:
            self.items[name].fresh = fresh
            self.items[name].dt = dt
        else:
            self.items[name] = Var(name, typ, fresh, dt)

    def __contains__(self, name):
        return name in self.items


class Fn:
    """state of the translation of one function"""
    def __init__(self, name, oracles):
        self.name, self.oracles = name, oracles
        self.ntemp, self.nloop = 0, 0
        self.aux = []           # text of the generated loop Fixpoints, in dependency order
        self.last_dt = None     # dtype term of the tensor the last compiled constructor call created
        self.module_defs = {}   # module-level functions a call may refer to: name -> (coq term, parameter types, result type)

    def temp(self):
        self.ntemp += 1
        return f"t{self.ntemp}"


def _str_lit(s):
    if '"' in s or "\\" in s or not s.isascii():
        raise Untranslatable(f"string literal {s!r}")
    return f'"{s}"'


def _zlit(n):
    return str(n) if n >= 0 else f"({n})"


def _names_assigned(stmts):
    """names assigned (rebound) by a statement list, in order of first assignment (base variable of subscript targets)"""
    out = []

    def add(n):
        if n not in out:
            out.append(n)

    def base(t):
        while isinstance(t, ast.Subscript):
            t = t.value
        return t.id if isinstance(t, ast.Name) else None

    def walk(ss):
        for s in ss:
            if isinstance(s, ast.Assign):
                for t in s.targets:
                    if isinstance(t, ast.Tuple):
                        for e in t.elts:
                            b = base(e)
                            if b:
                                add(b)
                    else:
                        b = base(t)
                        if b:
                            add(b)
            elif isinstance(s, ast.AugAssign):
                b = base(s.target)
                if b:
                    add(b)
            elif isinstance(s, ast.For):
                walk(s.body)
                walk(s.orelse)
            elif isinstance(s, ast.If):
                walk(s.body)
                walk(s.orelse)
    walk(stmts)
    return out


def _names_read(stmts):
    return {n.id for s in stmts for n in ast.walk(s) if isinstance(n, ast.Name)}


def _reads_with_dtypes(env, stmts):
    """names read by the statements, plus the variables their statically known dtypes are made of"""
    reads = _names_read(stmts)
    for n in list(reads):
        if n in env.items and env.items[n].dt in env.items:
            reads.add(env.items[n].dt)
    return reads


# ---------------------------------------------------------------------------------------------------------------
# expressions: returns (binds, term, type, fresh) where binds = [(temp, coq computation of type res _)]
# ---------------------------------------------------------------------------------------------------------------
def _is_attr(node, base, attr):
    return (isinstance(node, ast.Attribute) and node.attr == attr and isinstance(node.value, ast.Name)
            and node.value.id == base)


def cexpr(fn, env, node):
    if isinstance(node, ast.Name):
        v = env.get(node, node.id)
        return [], v.name, v.typ, False
    if isinstance(node, ast.Constant):
        if isinstance(node.value, bool) or node.value is None:
            _no(node, "constant")
        if isinstance(node.value, int):
            return [], _zlit(node.value), INT, False
        if isinstance(node.value, str):
            return [], _str_lit(node.value), STR, False
        _no(node, "constant")
    if isinstance(node, ast.UnaryOp) and isinstance(node.op, ast.USub) and isinstance(node.operand, ast.Constant) \
            and isinstance(node.operand.value, int) and not isinstance(node.operand.value, bool):
        return [], _zlit(-node.operand.value), INT, False
    if isinstance(node, ast.Tuple):
        bs, ts = [], []
        for e in node.elts:
            b, t, ty, _ = cexpr(fn, env, e)
            if ty != INT:
                _no(node, "tuple display of non-ints")
            bs += b
            ts.append(t)
        return bs, "[" + "; ".join(ts) + "]", LIST(INT), False
    if isinstance(node, ast.BinOp):
        bl, tl, tyl, _ = cexpr(fn, env, node.left)
        br, tr, tyr, _ = cexpr(fn, env, node.right)
        if isinstance(node.op, (ast.Add, ast.Sub)) and tyl == INT and tyr == INT:
            return bl + br, f"({tl} {'+' if isinstance(node.op, ast.Add) else '-'} {tr})", INT, False
        if isinstance(node.op, ast.Add) and tyl == LIST(INT) and tyr == LIST(INT) and \
                isinstance(node.left, ast.Tuple):
            return bl + br, f"({tl} ++ {tr})", LIST(INT), False
        if isinstance(node.op, ast.Mult) and tyl == LIST(INT) and tyr == INT and isinstance(node.left, ast.Tuple):
            return bl + br, f"(py_tuple_repeat {tl} {tr})", LIST(INT), False
        _no(node, "binary operation")
    if isinstance(node, ast.Compare):
        if len(node.ops) != 1:
            _no(node, "chained comparison")
        op, rhs = node.ops[0], node.comparators[0]
        bl, tl, tyl, _ = cexpr(fn, env, node.left)
        if isinstance(op, (ast.Gt, ast.Lt, ast.GtE, ast.LtE)):
            br, tr, tyr, _ = cexpr(fn, env, rhs)
            if tyl != INT or tyr != INT:
                _no(node, "ordering comparison of non-ints")
            sym = {ast.Gt: ">?", ast.Lt: "<?", ast.GtE: ">=?", ast.LtE: "<=?"}[type(op)]
            return bl + br, f"({tl} {sym} {tr})", BOOL, False
        if isinstance(op, (ast.In, ast.NotIn)):
            if isinstance(rhs, ast.List) and tyl == STR and all(
                    isinstance(e, ast.Constant) and isinstance(e.value, str) for e in rhs.elts):
                t = f"str_in {tl} [" + "; ".join(_str_lit(e.value) for e in rhs.elts) + "]"
            else:
                br, tr, tyr, _ = cexpr(fn, env, rhs)
                if br or tyr != ZDICT or tyl != KEY:
                    _no(node, "`in` on something else than the id dict / a list of string literals")
                t = f"zd_mem {tl} {tr}"
            return bl, (f"({t})" if isinstance(op, ast.In) else f"(negb ({t}))"), BOOL, False
        _no(node, "comparison")
    if isinstance(node, ast.Dict) and not node.keys:
        # the only dict the fragment builds item by item: tuple-of-int keys, int values (anything else is refused
        # where it is used)
        return [], "([] : zdict)", ZDICT, False
    if isinstance(node, ast.Subscript):
        return _csubscript(fn, env, node)
    if isinstance(node, ast.Attribute):
        return _cattr(fn, env, node)
    if isinstance(node, ast.Call):
        return _ccall(fn, env, node)
    if isinstance(node, ast.DictComp):
        return _cdictcomp(fn, env, node)
    if isinstance(node, ast.ListComp):
        return _clistcomp(fn, env, node)
    _no(node, f"expression {type(node).__name__}")


def _bind(fn, binds, comp):
    t = fn.temp()
    binds.append((t, comp))
    return t


def _csubscript(fn, env, node):
    sl = node.slice
    # x.shape[0]
    if isinstance(node.value, ast.Attribute) and node.value.attr == "shape":
        if not (isinstance(sl, ast.Constant) and sl.value == 0 and not isinstance(sl.value, bool)):
            _no(node, ".shape[k] for k other than 0")
        b, t, ty, _ = cexpr(fn, env, node.value.value)
        if ty != TENSOR:
            _no(node, ".shape of a non-tensor")
        return b, _bind(fn, b, f"t_shape0 {t}"), INT, False
    b, t, ty, _ = cexpr(fn, env, node.value)
    if isinstance(sl, ast.Slice):
        if sl.lower is not None or sl.step is not None or sl.upper is None or ty != TENSOR:
            _no(node, "slice other than t[:n]")
        bu, tu, tyu, _ = cexpr(fn, env, sl.upper)
        if tyu != INT:
            _no(node, "slice bound")
        b = b + bu
        return b, _bind(fn, b, f"t_slice_to {t} {tu}"), TENSOR, False
    bi, ti, tyi, _ = cexpr(fn, env, sl)
    b = b + bi
    if ty == TDICT and tyi == STR:
        return b, _bind(fn, b, f"d_get {t} {ti}"), TENSOR, False
    if ty == ZDICT and tyi == KEY:
        return b, _bind(fn, b, f"zd_get {t} {ti}"), INT, False
    if ty == TENSOR and tyi == INT:
        return b, _bind(fn, b, f"t_getrow {t} {ti}"), TENSOR, False
    if ty == TENSOR and tyi == TENSOR:
        return b, _bind(fn, b, f"t_mask_select {t} {ti}"), TENSOR, False
    _no(node, f"subscript of {ty} by {tyi}")


TORCH_DTYPES = {"uint8": "DUint8", "bool": "DBool", "int": "DInt32", "int32": "DInt32", "float": "DFloat",
                "float32": "DFloat"}


def _cattr(fn, env, node):
    if isinstance(node.value, ast.Name) and node.value.id == "torch" and "torch" not in env and node.attr in TORCH_DTYPES:
        return [], TORCH_DTYPES[node.attr], DTYPE, False
    if node.attr == "dtype" and isinstance(node.value, ast.Name) and node.value.id in env:
        v = env.get(node, node.value.id)
        if v.typ == TENSOR and v.dt is not None:
            return [], v.dt, DTYPE, False
        _no(node, f".dtype of {node.value.id!r}, whose dtype is not known statically")
    if isinstance(node.value, ast.Name) and node.value.id in env:
        v = env.get(node, node.value.id)
        if v.typ == TRANSCRIPT:
            if node.attr == "positions":
                return [], f"(t_positions {v.name})", LIST(POSITION), False
            if node.attr == "values":
                return [], f"(t_values {v.name})", LIST(FLOAT), False
            if node.attr in ("logits", "results") and f"tr_{node.attr}" in fn.oracles:
                b = []
                ty = TENSOR if node.attr == "logits" else LIST(FLOAT)
                return b, _bind(fn, b, f"tr_{node.attr} {v.name}"), ty, False
    _no(node, f"attribute .{node.attr}")


def _ccall(fn, env, node):
    f = node.func
    kw = {k.arg: k.value for k in node.keywords}
    if None in kw:
        _no(node, "**kwargs")
    # torch.*
    fn.last_dt = None
    if isinstance(f, ast.Attribute) and isinstance(f.value, ast.Name) and f.value.id == "torch" and "torch" not in env:
        if f.attr in ("zeros", "empty") and len(node.args) == 1 and isinstance(node.args[0], ast.Tuple) and set(kw) == {"dtype"}:
            bd, td, tyd, _ = cexpr(fn, env, kw["dtype"])
            if tyd != DTYPE or bd:
                _no(node, "dtype argument")
            dims, b = [], []
            for e in node.args[0].elts:
                be, te, tye, _ = cexpr(fn, env, e)
                if tye != INT:
                    _no(node, "shape entry that is not an int")
                b += be
                dims.append(te)
            if f.attr == "zeros" and len(dims) == 2:
                t_ = _bind(fn, b, f"t_zeros2 {td} {dims[0]} {dims[1]}")
                fn.last_dt = td
                return b, t_, TENSOR, True
            if f.attr == "empty" and len(dims) == 1 and td == "DInt32" and "uninit" in fn.oracles:
                t_ = _bind(fn, b, f"t_empty_int uninit {dims[0]}")
                fn.last_dt = td
                return b, t_, TENSOR, True
            _no(node, f"torch.{f.attr} with this shape / dtype")
        if f.attr == "zeros_like" and len(node.args) == 1 and set(kw) == {"dtype"}:
            b, t_, ty, _ = cexpr(fn, env, node.args[0])
            bd, td, tyd, _ = cexpr(fn, env, kw["dtype"])
            if ty != TENSOR or tyd != DTYPE or bd:
                _no(node, "zeros_like(t, dtype=d)")
            r = _bind(fn, b, f"t_zeros_like_as {t_} {td}")
            fn.last_dt = td
            return b, r, TENSOR, True
        if f.attr == "tensor" and len(node.args) == 1 and set(kw) == {"dtype"} and not _is_attr(kw["dtype"], "torch", "float32"):
            b, t_, ty, _ = cexpr(fn, env, node.args[0])
            bd, td, tyd, _ = cexpr(fn, env, kw["dtype"])
            if ty != LIST(INT) or tyd != DTYPE or bd:
                _no(node, "torch.tensor(l, dtype=d) of something else than a list of ints")
            r = _bind(fn, b, f"t_tensor_ints {td} {t_}")
            fn.last_dt = td
            return b, r, TENSOR, True
        if f.attr == "zeros_like" and len(node.args) == 1 and not kw:
            b, t, ty, _ = cexpr(fn, env, node.args[0])
            if ty != TENSOR:
                _no(node, "zeros_like of a non-tensor")
            return b, f"(t_zeros_like {t})", TENSOR, True
        if f.attr == "zeros" and len(node.args) == 1 and not kw:
            b, t, ty, _ = cexpr(fn, env, node.args[0])
            if ty != INT:
                _no(node, "torch.zeros of something else than one int")
            return b, _bind(fn, b, f"t_zeros {t}"), TENSOR, True
        if f.attr == "cat" and len(node.args) == 1 and not kw:
            b, t, ty, _ = cexpr(fn, env, node.args[0])
            if ty != LIST(TENSOR):
                _no(node, "torch.cat of something else than a list of tensors")
            return b, _bind(fn, b, f"t_cat {t}"), TENSOR, True
        if f.attr == "tensor" and len(node.args) == 1:
            if kw and not (set(kw) == {"dtype"} and _is_attr(kw["dtype"], "torch", "float32")):
                _no(node, "torch.tensor keyword arguments other than dtype=torch.float32")
            b, t, ty, _ = cexpr(fn, env, node.args[0])
            if ty != LIST(FLOAT):
                _no(node, "torch.tensor of something else than a list of numbers")
            return b, f"(t_tensor {t})", TENSOR, True
        _no(node, f"torch.{f.attr}")
    if isinstance(f, ast.Name) and f.id in env:
        v = env.get(node, f.id)
        if isinstance(v.typ, tuple) and v.typ[0] == "fn" and len(node.args) == 1 and not kw:
            b, t_, ty, _ = cexpr(fn, env, node.args[0])
            if ty != v.typ[1]:
                _no(node, f"argument of {f.id}")
            return b, _bind(fn, b, f"{v.name} {t_}"), v.typ[2], False
        _no(node, f"call of the local {f.id!r}")
    if isinstance(f, ast.Name) and f.id not in env:
        if f.id == "tuple" and len(node.args) == 1 and not kw:
            b, t, ty, _ = cexpr(fn, env, node.args[0])
            if ty != LIST(INT):
                _no(node, "tuple() of something else than a list of ints")
            return b, t, KEY, False
        if f.id == "len" and len(node.args) == 1 and not kw and not (
                isinstance(node.args[0], ast.Attribute) and node.args[0].attr == "shape"):
            b, t_, ty, _ = cexpr(fn, env, node.args[0])
            if not (isinstance(ty, tuple) and ty[0] == "list"):
                _no(node, "len() of something else than a list")
            return b, f"(zlen {t_})", INT, False
        if f.id in fn.module_defs:
            term, ptypes, rtype = fn.module_defs[f.id]
            args = list(node.args)
            names = [pn for pn, _ in ptypes]
            for k_, v_ in kw.items():
                if k_ not in names[len(node.args):]:
                    _no(node, f"keyword argument {k_!r}")
            for pn, _ in ptypes[len(node.args):]:
                if pn not in kw:
                    _no(node, f"call of {f.id} without the argument {pn!r} (defaults are not modelled)")
                args.append(kw[pn])
            if len(args) != len(ptypes):
                _no(node, f"arity of {f.id}")
            b, terms = [], []
            for a_, (pn, pty) in zip(args, ptypes):
                if isinstance(a_, ast.Lambda):
                    terms.append(_clambda(fn, env, a_, pty))
                    continue
                ba, ta, tya, _ = cexpr(fn, env, a_)
                if tya != pty:
                    _no(node, f"argument {pn!r} of {f.id}: {tya} where {pty} is expected")
                b += ba
                terms.append(ta)
            return b, _bind(fn, b, f"{term} " + " ".join(terms)), rtype, False
        if f.id == "len" and len(node.args) == 1 and not kw and isinstance(node.args[0], ast.Attribute) \
                and node.args[0].attr == "shape":
            b, t, ty, _ = cexpr(fn, env, node.args[0].value)
            if ty != TENSOR:
                _no(node, "len(x.shape) of a non-tensor")
            return b, f"(t_ndim {t})", INT, False
        if f.id == "dict" and not node.args and kw:
            b, items = [], []
            for k, v in kw.items():
                bv, tv, tyv, _ = cexpr(fn, env, v)
                if tyv != TENSOR:
                    _no(node, "dict(...) with a non-tensor value")
                b += bv
                items.append(f"({_str_lit(k)}, {tv})")
            return b, "(d_of_list [" + "; ".join(items) + "])", TDICT, False
        _no(node, f"call of {f.id}")
    if isinstance(f, ast.Attribute):
        if f.attr == "size" and len(node.args) == 1 and not kw and isinstance(node.args[0], ast.Constant) \
                and isinstance(node.args[0].value, int) and not isinstance(node.args[0].value, bool):
            b, t_, ty, _ = cexpr(fn, env, f.value)
            if ty != TENSOR:
                _no(node, ".size(k) of a non-tensor")
            return b, _bind(fn, b, f"t_size {t_} {_zlit(node.args[0].value)}"), INT, False
        if f.attr == "tolist" and not node.args and not kw:
            b, t, ty, _ = cexpr(fn, env, f.value)
            if ty != TENSOR:
                _no(node, ".tolist() of a non-tensor")
            return b, _bind(fn, b, f"t_tolist_int {t}"), LIST(INT), False
        if f.attr == "reshape" and len(node.args) == 1 and not kw:
            b, t, ty, _ = cexpr(fn, env, f.value)
            bs, ts, tys, _ = cexpr(fn, env, node.args[0])
            if ty != TENSOR or tys != LIST(INT):
                _no(node, ".reshape")
            b = b + bs
            return b, _bind(fn, b, f"t_reshape {t} {ts}"), TENSOR, False
        if f.attr == "encode_batch" and isinstance(f.value, ast.Name) and f.value.id == "encoding" \
                and "encoding" not in env and "encode_batch" in fn.oracles and len(node.args) == 1 and not kw:
            b, t, ty, _ = cexpr(fn, env, node.args[0])
            if ty != LIST(POSITION):
                _no(node, "encode_batch of something else than a list of positions")
            return b, _bind(fn, b, f"encode_batch {t}"), TUPLE(TENSOR, TENSOR), False
    _no(node, "call")


def _clambda(fn, env, node, pty):
    """lambda x: e  for a parameter of type FN(a, r)"""
    a = node.args
    if not (isinstance(pty, tuple) and pty[0] == "fn") or a.vararg or a.kwarg or a.kwonlyargs or a.defaults \
            or len(a.args) != 1:
        _no(node, "lambda")
    inner = env.copy()
    inner.bind(node, a.args[0].arg, pty[1])
    sub = Fn(fn.name, fn.oracles)
    sub.module_defs = fn.module_defs
    sub.ntemp = fn.ntemp
    b, t_, ty, _ = cexpr(sub, inner, node.body)
    fn.ntemp = sub.ntemp
    if ty != pty[2]:
        _no(node, f"lambda result {ty} where {pty[2]} is expected")
    body = "".join(f"{x} <- {c} ;; " for x, c in b) + f"ret {t_}"
    return f"(fun {a.args[0].arg} => {body})"


def _pure(node, binds, what):
    if binds:
        _no(node, f"{what} that can raise")


def _cdictcomp(fn, env, node):
    """{k: e(k, v) for (k, v) in d.items()}"""
    if len(node.generators) != 1:
        _no(node, "dict comprehension with several generators")
    g = node.generators[0]
    it = g.iter
    if g.ifs or g.is_async or not (isinstance(it, ast.Call) and isinstance(it.func, ast.Attribute)
                                   and it.func.attr == "items" and not it.args and not it.keywords):
        _no(node, "dict comprehension over something else than d.items()")
    bd, td, tyd, _ = cexpr(fn, env, it.func.value)
    if tyd != TDICT or not (isinstance(g.target, ast.Tuple) and len(g.target.elts) == 2
                            and all(isinstance(e, ast.Name) for e in g.target.elts)):
        _no(node, "dict comprehension target")
    kn, vn = g.target.elts[0].id, g.target.elts[1].id
    if not (isinstance(node.key, ast.Name) and node.key.id == kn):
        _no(node, "dict comprehension that changes the keys")
    inner = env.copy()
    inner.bind(node, kn, STR)
    inner.bind(node, vn, TENSOR)
    sub = Fn(fn.name, fn.oracles)
    sub.ntemp = fn.ntemp
    bv, tv, tyv, fresh = cexpr(sub, inner, node.value)
    fn.ntemp = sub.ntemp
    if tyv != TENSOR:
        _no(node, "dict comprehension with a non-tensor value")
    body = "".join(f"{t} <- {c} ;; " for t, c in bv) + f"ret {tv}"
    b = list(bd)
    return b, _bind(fn, b, f"d_mapM (fun {kn} {vn} => {body}) {td}"), TDICT, fresh


def _clistcomp(fn, env, node):
    gens = node.generators
    if any(g.is_async for g in gens) or not all(isinstance(g.target, ast.Name) for g in gens):
        _no(node, "list comprehension target")
    if len(gens) == 1:
        g = gens[0]
        bi, ti, tyi, _ = cexpr(fn, env, g.iter)
        var = g.target.id
        if tyi == TDICT:          # [k for k in d if c(k)]
            inner = env.copy()
            inner.bind(node, var, STR)
            if not (isinstance(node.elt, ast.Name) and node.elt.id == var):
                _no(node, "list comprehension over a dict that is not [k for k in d ...]")
            term = f"d_keys {ti}"
            for c in g.ifs:
                bc, tc, tyc, _ = cexpr(fn, inner, c)
                _pure(c, bc, "comprehension condition")
                if tyc != BOOL:
                    _no(c, "comprehension condition")
                term = f"filter (fun {var} => {tc}) ({term})"
            return bi, f"({term})", LIST(STR), False
        if isinstance(tyi, tuple) and tyi[0] == "list" and not g.ifs:     # [e(x) for x in l]
            inner = env.copy()
            inner.bind(node, var, tyi[1])
            sub = Fn(fn.name, fn.oracles)
            sub.ntemp = fn.ntemp
            be, te, tye, _ = cexpr(sub, inner, node.elt)
            fn.ntemp = sub.ntemp
            if not be:
                return bi, f"(map (fun {var} => {te}) {ti})", LIST(tye), False
            body = "".join(f"{t} <- {c} ;; " for t, c in be) + f"ret {te}"
            b = list(bi)
            return b, _bind(fn, b, f"py_mapM (fun {var} => {body}) {ti}"), LIST(tye), False
        _no(node, "list comprehension")
    if len(gens) == 2 and not gens[0].ifs and not gens[1].ifs:
        # [x for a in l for x in e(a)]
        g1, g2 = gens
        bi, ti, tyi, _ = cexpr(fn, env, g1.iter)
        if not (isinstance(tyi, tuple) and tyi[0] == "list"):
            _no(node, "outer generator")
        inner = env.copy()
        inner.bind(node, g1.target.id, tyi[1])
        sub = Fn(fn.name, fn.oracles)
        sub.ntemp = fn.ntemp
        b2, t2, ty2, _ = cexpr(sub, inner, g2.iter)
        fn.ntemp = sub.ntemp
        if not (isinstance(ty2, tuple) and ty2[0] == "list"):
            _no(node, "inner generator")
        if not (isinstance(node.elt, ast.Name) and node.elt.id == g2.target.id and g2.target.id != g1.target.id):
            _no(node, "nested comprehension that is not [x for a in l for x in e(a)]")
        if not b2:
            return bi, f"(py_flat_map (fun {g1.target.id} => {t2}) {ti})", ty2, False
        body = "".join(f"{t} <- {c} ;; " for t, c in b2) + f"ret {t2}"
        b = list(bi)
        t = _bind(fn, b, f"py_mapM (fun {g1.target.id} => {body}) {ti}")
        return b, f"(concat {t})", ty2, False
    _no(node, "list comprehension")


# ---------------------------------------------------------------------------------------------------------------
# statements
# ---------------------------------------------------------------------------------------------------------------
def _emit_binds(binds, ind):
    return [f"{ind}{t} <- {c} ;;" for t, c in binds]


def _tuple_of(names):
    return names[0] if len(names) == 1 else "(" + ", ".join(names) + ")"


def _pat_bind(names, comp_lines, ind):
    """'(a, b) <- (comp) ;;  with comp given as lines"""
    pat = names[0] if len(names) == 1 else "'(" + ", ".join(names) + ")"
    return [f"{ind}{pat} <- ("] + comp_lines + [f"{ind}) ;;"]


def _require_mutable(node, env, name):
    v = env.get(node, name)
    if not v.fresh:
        _no(node, f"in-place operation on {name!r}, which the function did not create itself (or has aliased)")
    return v


def cblock(fn, env, stmts, ind, tail):
    """lines of a Coq term of type res _ : the statements, then tail(env, ind) (lines)"""
    if not stmts:
        return tail(env, ind)
    s, rest = stmts[0], stmts[1:]
    lines = []
    if isinstance(s, ast.Expr) and isinstance(s.value, ast.Constant) and isinstance(s.value.value, str):
        return cblock(fn, env, rest, ind, tail)          # docstring
    if isinstance(s, ast.Return):
        if rest:
            _no(s, "statements after return")
        if s.value is None:
            _no(s, "bare return")
        if isinstance(s.value, ast.Tuple) and s.value.elts and all(isinstance(e, ast.Name) for e in s.value.elts):
            vs = [env.get(s, e.id) for e in s.value.elts]
            fn.ret_type = TUPLE(*[v.typ for v in vs])
            return [f"{ind}ret ({', '.join(v.name for v in vs)})"]
        b, t, ty, _ = cexpr(fn, env, s.value)
        fn.ret_type = ty
        return _emit_binds(b, ind) + [f"{ind}ret {t}"]
    if isinstance(s, ast.Assign):
        if len(s.targets) != 1:
            _no(s, "chained assignment")
        tgt = s.targets[0]
        if isinstance(tgt, ast.Name) and isinstance(s.value, ast.Name) and s.value.id in env \
                and env.get(s, s.value.id).typ == TENSOR and s.value.id != tgt.id:
            # x = y for tensors: x becomes THE name of the object; y may not be used any more (it would be an alias)
            src = env.get(s, s.value.id)
            lines.append(f"{ind}let {tgt.id} := {src.name} in")
            fresh, dt = src.fresh, src.dt
            del env.items[s.value.id]
            env.bind(s, tgt.id, TENSOR, fresh, dt)
            return lines + cblock(fn, env, rest, ind, tail)
        if isinstance(tgt, ast.Name):
            b, t, ty, fresh = cexpr(fn, env, s.value)
            dt = fn.last_dt if (ty == TENSOR and fresh and isinstance(s.value, ast.Call)) else None
            if ty == TENSOR and isinstance(s.value, (ast.Name, ast.Subscript)):
                # an alias / a view of an existing tensor: nothing reachable from it may be changed in place any more
                for n in ast.walk(s.value):
                    if isinstance(n, ast.Name) and n.id in env:
                        env.items[n.id].fresh = False
            lines += _emit_binds(b, ind)
            env.bind(s, tgt.id, ty, fresh, dt)
            lines.append(f"{ind}let {tgt.id} := {t} in")
            return lines + cblock(fn, env, rest, ind, tail)
        if isinstance(tgt, ast.Tuple) and all(isinstance(e, ast.Name) for e in tgt.elts):
            b, t, ty, _ = cexpr(fn, env, s.value)
            if not (isinstance(ty, tuple) and ty[0] == "tuple" and len(ty) - 1 == len(tgt.elts)):
                _no(s, "tuple assignment from something that is not a tuple of that size")
            if not (b and b[-1][0] == t):
                _no(s, "tuple assignment")
            comp = b.pop()[1]
            lines += _emit_binds(b, ind)
            names = [e.id for e in tgt.elts]
            for n, ty1 in zip(names, ty[1:]):
                env.bind(s, n, ty1, False)
            lines.append(f"{ind}'({', '.join(names)}) <- {comp} ;;")
            return lines + cblock(fn, env, rest, ind, tail)
        if isinstance(tgt, ast.Subscript):
            b, t, ty, _ = cexpr(fn, env, s.value)                  # right-hand side first
            lines += _emit_binds(b, ind)
            inner = tgt.value
            if isinstance(inner, ast.Name) and isinstance(tgt.slice, ast.Tuple) and len(tgt.slice.elts) == 2 \
                    and env.get(s, inner.id).typ == TENSOR:
                v = _require_mutable(s, env, inner.id)
                e0, e1 = tgt.slice.elts
                if not (isinstance(e1, ast.Slice) and e1.lower is None and e1.step is None and e1.upper is not None):
                    _no(s, "column index other than :k")
                if isinstance(e0, ast.Slice):
                    if e0.lower is not None or e0.upper is not None or e0.step is not None or ty != TENSOR:
                        _no(s, "row index other than i or :")
                    bu, tu, tyu, _ = cexpr(fn, env, e1.upper)
                    if tyu != INT:
                        _no(s, "slice bound")
                    lines += _emit_binds(bu, ind)
                    t1 = fn.temp()
                    lines.append(f"{ind}{t1} <- t_set_cols_prefix {v.name} {tu} {t} ;;")
                else:
                    bi, ti, tyi, _ = cexpr(fn, env, e0)
                    bu, tu, tyu, _ = cexpr(fn, env, e1.upper)
                    if tyi != INT or tyu != INT:
                        _no(s, "index / slice bound")
                    lines += _emit_binds(bi + bu, ind)
                    t1 = fn.temp()
                    if ty == TENSOR:
                        lines.append(f"{ind}{t1} <- t_set_row_prefix {v.name} {ti} {tu} {t} ;;")
                    elif ty == INT:
                        lines.append(f"{ind}{t1} <- t_fill_row_prefix {v.name} {ti} {tu} {t} ;;")
                    else:
                        _no(s, "assigned value")
                lines.append(f"{ind}let {v.name} := {t1} in")
                return lines + cblock(fn, env, rest, ind, tail)
            if isinstance(inner, ast.Name) and env.get(s, inner.id).typ == TENSOR and ty == INT:     # t[i] = n
                v = _require_mutable(s, env, inner.id)
                bk, tk, tyk, _ = cexpr(fn, env, tgt.slice)
                if tyk != INT:
                    _no(s, "index")
                lines += _emit_binds(bk, ind)
                t1 = fn.temp()
                lines.append(f"{ind}{t1} <- t_set_int {v.name} {tk} {t} ;;")
                lines.append(f"{ind}let {v.name} := {t1} in")
                return lines + cblock(fn, env, rest, ind, tail)
            if isinstance(inner, ast.Name):                        # d[k] = v
                v = env.get(s, inner.id)
                bk, tk, tyk, _ = cexpr(fn, env, tgt.slice)
                lines += _emit_binds(bk, ind)
                if v.typ == ZDICT and tyk == KEY and ty == INT:
                    lines.append(f"{ind}let {v.name} := zd_set {v.name} {tk} {t} in")
                    return lines + cblock(fn, env, rest, ind, tail)
                _no(s, f"item assignment on {v.typ}")
            if isinstance(inner, ast.Subscript) and isinstance(inner.value, ast.Name):     # d[k][i] = row
                v = _require_mutable(s, env, inner.value.id)
                bk, tk, tyk, _ = cexpr(fn, env, inner.slice)
                bi, ti, tyi, _ = cexpr(fn, env, tgt.slice)
                if not (v.typ == TDICT and tyk == STR and tyi == INT and ty == TENSOR):
                    _no(s, "nested item assignment")
                lines += _emit_binds(bk, ind)
                t1 = fn.temp()
                lines.append(f"{ind}{t1} <- d_get {v.name} {tk} ;;")
                lines += _emit_binds(bi, ind)
                t2 = fn.temp()
                lines.append(f"{ind}{t2} <- t_setrow {t1} {ti} {t} ;;")
                lines.append(f"{ind}let {v.name} := d_set {v.name} {tk} {t2} in")
                return lines + cblock(fn, env, rest, ind, tail)
        _no(s, "assignment target")
    if isinstance(s, ast.AugAssign):
        tgt = s.target
        if isinstance(tgt, ast.Name):
            v = env.get(s, tgt.id)
            b, t, ty, _ = cexpr(fn, env, s.value)
            if not (v.typ == INT and ty == INT and isinstance(s.op, (ast.Add, ast.Sub))):
                _no(s, "augmented assignment on a name that is not an int")
            lines += _emit_binds(b, ind)
            lines.append(f"{ind}let {v.name} := {v.name} {'+' if isinstance(s.op, ast.Add) else '-'} {t} in")
            return lines + cblock(fn, env, rest, ind, tail)
        if isinstance(tgt, ast.Subscript):
            inner = tgt.value
            if isinstance(inner, ast.Name):
                v = _require_mutable(s, env, inner.id)
                bi, ti, tyi, _ = cexpr(fn, env, tgt.slice)
                lines += _emit_binds(bi, ind)
                if v.typ == TENSOR and tyi == INT and isinstance(s.op, ast.Add):       # t[i] += e
                    t1 = fn.temp()
                    lines.append(f"{ind}{t1} <- t_getrow {v.name} {ti} ;;")
                    b, t, ty, _ = cexpr(fn, env, s.value)
                    lines += _emit_binds(b, ind)
                    rhs = f"(t_of_int {t})" if ty == INT else t if ty == TENSOR else _no(s, "right operand of +=")
                    t2, t3 = fn.temp(), fn.temp()
                    lines.append(f"{ind}{t2} <- t_iadd {t1} {rhs} ;;")
                    lines.append(f"{ind}{t3} <- t_setrow {v.name} {ti} {t2} ;;")
                    lines.append(f"{ind}let {v.name} := {t3} in")
                    return lines + cblock(fn, env, rest, ind, tail)
                if v.typ == TDICT and tyi == STR and isinstance(s.op, ast.Div):        # d[k] /= e
                    t1 = fn.temp()
                    lines.append(f"{ind}{t1} <- d_get {v.name} {ti} ;;")
                    b, t, ty, _ = cexpr(fn, env, s.value)
                    if ty != TENSOR:
                        _no(s, "right operand of /=")
                    lines += _emit_binds(b, ind)
                    t2 = fn.temp()
                    lines.append(f"{ind}{t2} <- t_idiv {t1} {t} ;;")
                    lines.append(f"{ind}let {v.name} := d_set {v.name} {ti} {t2} in")
                    return lines + cblock(fn, env, rest, ind, tail)
                _no(s, "augmented assignment")
            if isinstance(inner, ast.Subscript) and isinstance(inner.value, ast.Name) and isinstance(s.op, ast.Add):
                v = _require_mutable(s, env, inner.value.id)                           # d[k][i] += e
                bk, tk, tyk, _ = cexpr(fn, env, inner.slice)
                bi, ti, tyi, _ = cexpr(fn, env, tgt.slice)
                if not (v.typ == TDICT and tyk == STR and tyi == INT):
                    _no(s, "nested augmented assignment")
                lines += _emit_binds(bk, ind)
                t1 = fn.temp()
                lines.append(f"{ind}{t1} <- d_get {v.name} {tk} ;;")
                lines += _emit_binds(bi, ind)
                t2 = fn.temp()
                lines.append(f"{ind}{t2} <- t_getrow {t1} {ti} ;;")
                b, t, ty, _ = cexpr(fn, env, s.value)
                if ty != TENSOR:
                    _no(s, "right operand of +=")
                lines += _emit_binds(b, ind)
                t3, t4 = fn.temp(), fn.temp()
                lines.append(f"{ind}{t3} <- t_iadd {t2} {t} ;;")
                lines.append(f"{ind}{t4} <- t_setrow {t1} {ti} {t3} ;;")
                lines.append(f"{ind}let {v.name} := d_set {v.name} {tk} {t4} in")
                return lines + cblock(fn, env, rest, ind, tail)
        _no(s, "augmented assignment target")
    if isinstance(s, ast.If):
        b, t, ty, _ = cexpr(fn, env, s.test)
        if ty != BOOL:
            _no(s, "condition that is not a comparison")
        lines += _emit_binds(b, ind)
        in_then, in_else = _names_assigned(s.body), _names_assigned(s.orelse)
        # a name first assigned in one branch only is local to that branch (reading it afterwards is refused)
        assigned = [n for n in _names_assigned(s.body + s.orelse) if n in env or (n in in_then and n in in_else)]
        if not assigned:
            _no(s, "`if` without effect")
        envs = []

        def branch(stmts):
            e = env.copy()
            ls = cblock(fn, e, stmts, ind + "    ", lambda e2, i2: [f"{i2}ret {_tuple_of([e2.get(s, n).name for n in assigned])}"])
            envs.append(e)
            return ls
        then_l = branch(s.body)
        else_l = branch(s.orelse) if s.orelse else [f"{ind}    ret {_tuple_of([env.get(s, n).name for n in assigned])}"]
        if not s.orelse:
            envs.append(env.copy())
        comp = [f"{ind}  if {t} then"] + then_l + [f"{ind}  else"] + else_l
        lines += _pat_bind(assigned, comp, ind)
        for n in assigned:
            v1, v2 = envs[0].get(s, n), envs[1].get(s, n)
            if v1.typ != v2.typ:
                _no(s, f"{n!r} has different types in the two branches")
            env.bind(s, n, v1.typ, v1.fresh and v2.fresh, v1.dt if v1.dt == v2.dt else None)
        for n in list(env.items):
            if any(n not in e for e in envs):      # moved away (x = y) in a branch
                del env.items[n]
        return lines + cblock(fn, env, rest, ind, tail)
    if isinstance(s, ast.For):
        if s.orelse:
            _no(s, "for-else")
        enum = (isinstance(s.iter, ast.Call) and isinstance(s.iter.func, ast.Name) and s.iter.func.id == "enumerate"
                and "enumerate" not in env and len(s.iter.args) == 1 and not s.iter.keywords)
        if enum:
            if not (isinstance(s.target, ast.Tuple) and len(s.target.elts) == 2
                    and all(isinstance(e, ast.Name) for e in s.target.elts)):
                _no(s, "enumerate without an (index, element) target")
            return _cfor_enumerate(fn, env, s, rest, ind, tail, lines)
        if not isinstance(s.target, ast.Name):
            _no(s, "tuple loop target")
        for n in ast.walk(s):
            if isinstance(n, (ast.Break, ast.Continue, ast.Return)):
                _no(n, "break / continue / return inside a loop")
        it = s.iter
        if isinstance(it, ast.Call) and isinstance(it.func, ast.Name) and it.func.id == "range" and "range" not in env \
                and len(it.args) == 1 and not it.keywords:
            b, t, ty, _ = cexpr(fn, env, it.args[0])
            if ty != INT:
                _no(s, "range of a non-int")
            lines += _emit_binds(b, ind)
            it_term, elem = f"(py_range {t})", INT
        else:
            b, t, ty, _ = cexpr(fn, env, it)
            if not (isinstance(ty, tuple) and ty[0] == "list") or b:
                _no(s, "loop over something else than range(n) / a list variable")
            it_term, elem = t, ty[1]
        assigned = _names_assigned(s.body)
        if s.target.id in assigned or s.target.id in env:
            _no(s, "loop variable reused")
        if isinstance(it, ast.Name) and it.id in assigned:
            _no(s, "the body changes the iterated list")
        state = [n for n in env.items if n in assigned]
        if not state:
            _no(s, "loop without effect")
        reads = _reads_with_dtypes(env, s.body)
        free = [n for n in env.items if n in reads and n not in state]
        fn.nloop += 1
        fname = f"{fn.name}_for{fn.nloop}"
        benv = env.copy()
        benv.bind(s, s.target.id, elem)
        call = lambda e2, i2: [f"{i2}{fname} " + " ".join([e2.get(s, n).name for n in free + state] + ["it'"])]   # noqa: E731
        body = cblock(fn, benv, s.body, "    ", call)
        for n in state:
            if benv.get(s, n).typ != env.get(s, n).typ:
                _no(s, "loop state changes type")
        params = " ".join(f"({env.get(s, n).name} : {coq_type(env.get(s, n).typ)})" for n in free + state)
        sty = coq_type(TUPLE(*[env.get(s, n).typ for n in state])) if len(state) > 1 else coq_type(env.get(s, state[0]).typ)
        st = _tuple_of([env.get(s, n).name for n in state])
        fn.aux.append("\n".join(
            [f"Fixpoint {fname} {params} (it : list {coq_type(elem) if not isinstance(elem, tuple) else '(' + coq_type(elem) + ')'}) "
             f"{{struct it}} : res {sty} :=",
             "  match it with",
             f"  | [] => ret {st}",
             f"  | {s.target.id} :: it' =>"] + body + ["  end."]))
        pat = st if len(state) == 1 else "'" + st
        args = " ".join([env.get(s, n).name for n in free + state])
        lines.append(f"{ind}{pat} <- {fname} {args} {it_term} ;;")
        for n in state:
            env.items[n].fresh = env.items[n].fresh and benv.get(s, n).fresh
        return lines + cblock(fn, env, rest, ind, tail)
    _no(s, f"statement {type(s).__name__}")


def _cfor_enumerate(fn, env, s, rest, ind, tail, lines):
    """for (i, x) in enumerate(e): e a list variable, or a 1-d integer tensor (its entries as ints)"""
    for n in ast.walk(s):
        if isinstance(n, (ast.Break, ast.Continue, ast.Return)):
            _no(n, "break / continue / return inside a loop")
    src = s.iter.args[0]
    b, t, ty, _ = cexpr(fn, env, src)
    if ty == TENSOR:
        t = _bind(fn, b, f"t_iter_int {t}")
        elem = INT
    elif isinstance(ty, tuple) and ty[0] == "list" and not b:
        elem = ty[1]
    else:
        _no(s, "enumerate of something else than a list variable / a tensor")
    lines += _emit_binds(b, ind)
    iname, xname = s.target.elts[0].id, s.target.elts[1].id
    assigned = _names_assigned(s.body)
    if {iname, xname} & (set(assigned) | set(env.items)) or iname == xname:
        _no(s, "loop variable reused")
    if isinstance(src, ast.Name) and src.id in assigned:
        _no(s, "the body changes the iterated object")
    state = [n for n in env.items if n in assigned]
    if not state:
        _no(s, "loop without effect")
    reads = _reads_with_dtypes(env, s.body)
    free = [n for n in env.items if n in reads and n not in state]
    fn.nloop += 1
    fname = f"{fn.name}_for{fn.nloop}"
    benv = env.copy()
    benv.bind(s, iname, INT)
    benv.bind(s, xname, elem)
    call = lambda e2, i2: [f"{i2}{fname} " + " ".join([e2.get(s, n).name for n in free + state] + ["it'"])]   # noqa: E731
    body = cblock(fn, benv, s.body, "    ", call)
    for n in state:
        if benv.get(s, n).typ != env.get(s, n).typ:
            _no(s, "loop state changes type")
    params = " ".join(f"({env.get(s, n).name} : {coq_type(env.get(s, n).typ)})" for n in free + state)
    sty = coq_type(TUPLE(*[env.get(s, n).typ for n in state])) if len(state) > 1 else coq_type(env.get(s, state[0]).typ)
    st = _tuple_of([env.get(s, n).name for n in state])
    ety = coq_type(elem)
    fn.aux.append("\n".join(
        [f"Fixpoint {fname} {params} (it : list (Z * {ety if ' ' not in ety else '(' + ety + ')'})) {{struct it}} : res {sty} :=",
         "  match it with",
         f"  | [] => ret {st}",
         f"  | ({iname}, {xname}) :: it' =>"] + body + ["  end."]))
    pat = st if len(state) == 1 else "'" + st
    args = " ".join([env.get(s, n).name for n in free + state])
    lines.append(f"{ind}{pat} <- {fname} {args} (py_enumerate {t}) ;;")
    for n in state:
        env.items[n].fresh = env.items[n].fresh and benv.get(s, n).fresh
        env.items[n].dt = benv.get(s, n).dt if benv.get(s, n).dt == env.items[n].dt else None
    return lines + cblock(fn, env, rest, ind, tail)


# ---------------------------------------------------------------------------------------------------------------
# functions
# ---------------------------------------------------------------------------------------------------------------
TARGETS = [
    # (file, function, parameters, result type, oracles)
    ("tak/alphazero/trainer.py", "dedup_batch", [("batch", TDICT)], TDICT, {}),
    ("tak/self_play.py", "encode_games", [("logs", LIST(TRANSCRIPT))], TDICT,
     {"tr_logits": "transcript -> res tensor", "tr_results": "transcript -> res (list Q)",
      "encode_batch": "list position -> res (tensor * tensor)"}),
]


def _find_function(tree, name, path):
    found = [n for n in tree.body if isinstance(n, ast.FunctionDef) and n.name == name]
    if len(found) != 1:
        raise Untranslatable(f"{path}: expected exactly one top-level def {name}, found {len(found)}")
    return found[0]


def translate_function(src_text, path, name, params, ret, oracles, module_defs=None, allow_defaults=False):
    fdef = _find_function(ast.parse(src_text), name, path)
    a = fdef.args
    if a.vararg or a.kwarg or a.kwonlyargs or a.posonlyargs or (a.defaults and not allow_defaults) or fdef.decorator_list:
        _no(fdef, "signature")
    if [x.arg for x in a.args] != [p for p, _ in params]:
        _no(fdef, f"parameters of {name} changed: {[x.arg for x in a.args]}")
    fn = Fn(name, oracles)
    fn.module_defs = dict(module_defs or {})
    env = Env()
    for p, ty in params:
        env.bind(fdef, p, ty, False)

    def tail(e, ind):
        _no(fdef, "a path without return")
    body = cblock(fn, env, list(fdef.body), "  ", tail)
    if getattr(fn, "ret_type", None) != ret:
        _no(fdef, f"result type {getattr(fn, 'ret_type', None)} (expected {ret})")
    ps = " ".join(f"({p} : {coq_type(ty)})" for p, ty in params)
    text = "\n\n".join(fn.aux + [f"Definition {name} {ps} : res {coq_type(ret)} :=\n" + "\n".join(body) + "."])
    return text


HEADER = """(* GENERATED by harness/torch2coq.py from python/tak/alphazero/trainer.py (dedup_batch) and python/tak/self_play.py
   (encode_games) of the tree under test - do not edit.  A shallow embedding: one Gallina function per Python function
   and one Fixpoint per `for` loop, written against model/TorchLite.v (torch / dict semantics) and model/PySem.v.
   The callees of encode_games (Transcript.logits, Transcript.results, encoding.encode_batch) are Section variables.
   sha256 of the two function sources: %s *)
From Coq Require Import ZArith QArith String List Bool.
From TV Require Import model.Tak model.PySem model.SelfPlay model.TorchLite.
Import ListNotations.
Open Scope Z_scope.
Open Scope string_scope.
"""

STUB = """(* harness/torch2coq.py could NOT translate the current source: %s
   Nothing is defined here on purpose, so that every proof about the generated names fails to compile. *)
"""


def _pin_transcript(tree, rel):
    """the oracles `tr.logits` / `tr.results` stand for plain @property getters recomputed at every access, and
    `tr.positions` / `tr.values` for plain fields: anything else (functools.cached_property, a setter, a descriptor,
    a second decorator) is refused"""
    cls = [n for n in tree.body if isinstance(n, ast.ClassDef) and n.name == "Transcript"]
    if len(cls) != 1:
        raise Untranslatable(f"{rel}: expected exactly one class Transcript")
    body = cls[0].body
    for attr in ("logits", "results"):
        defs = [n for n in body if isinstance(n, ast.FunctionDef) and n.name == attr]
        if len(defs) != 1:
            _no(cls[0], f"Transcript.{attr}: expected exactly one definition")
        d = defs[0].decorator_list
        if not (len(d) == 1 and isinstance(d[0], ast.Name) and d[0].id == "property"):
            _no(defs[0], f"Transcript.{attr} is not a plain @property (decorators: "
                         f"{[ast.unparse(x) for x in d]}); the oracle models a value recomputed at every access")
    for attr in ("positions", "values"):
        fields = [n for n in body if isinstance(n, ast.AnnAssign) and isinstance(n.target, ast.Name) and n.target.id == attr]
        others = [n for n in body if isinstance(n, ast.FunctionDef) and n.name == attr]
        if len(fields) != 1 or others:
            _no(cls[0], f"Transcript.{attr} is not a plain field")
    for n in tree.body:
        if isinstance(n, ast.Assign) and any(isinstance(x, ast.Name) and x.id == "property" for t_ in n.targets for x in ast.walk(t_)):
            _no(n, "`property` is rebound at module level")


def translate(repo_python):
    """-> (coq text, error or None)"""
    repo_python = Path(repo_python)
    try:
        parts, digest = [], hashlib.sha256()
        for (rel, name, params, ret, oracles) in TARGETS:
            src = (repo_python / rel).read_text()
            if name == "encode_games":
                _pin_transcript(ast.parse(src), rel)
            fdef = _find_function(ast.parse(src), name, rel)
            digest.update(ast.get_source_segment(src, fdef).encode())
            text = translate_function(src, rel, name, params, ret, oracles)
            if oracles:
                decl = "\n".join(f"Variable {o} : {ty}." for o, ty in oracles.items())
                text = f"Section {name}_oracles.\n{decl}\n\n{text}\nEnd {name}_oracles."
            parts.append(f"(* {rel}: {name} *)\n{text}")
        return HEADER % digest.hexdigest()[:16] + "\n" + "\n\n".join(parts) + "\n", None
    except (Untranslatable, SyntaxError, OSError) as e:
        msg = f"{type(e).__name__}: {e}"
        return STUB % msg.replace("*)", "* )"), msg


# ---------------------------------------------------------------------------------------------------------------
# second entry point: encoding._encode_batch / encode_batch  ->  gen/EncodeBatchGen.v  (T06B)
# ---------------------------------------------------------------------------------------------------------------
EB_HEADER = """(* GENERATED by harness/torch2coq.py from python/tak/model/encoding.py (_encode_batch, encode_batch) of the tree under
   test - do not edit.  Written against model/TorchLite.v and model/PySem.v.  `encode(p, include_sentinel)` inside
   the lambda of encode_batch is the ALREADY TRANSLATED gen/EncodingGen.v `encode` (T06).  torch.empty is
   uninitialised memory: its content is the Section variable `uninit`.  The default `dtype=torch.float` of
   _encode_batch and the default `include_sentinel=True` are not modelled (every call passes the argument explicitly;
   a call that relies on a default is refused).
   sha256 of the two function sources: %s *)
From Coq Require Import ZArith QArith String List Bool.
From TV Require Import model.Tak model.PySem model.TorchLite.
From TV Require gen.EncodingGen.
Import ListNotations.
Open Scope Z_scope.
"""


def translate_encode_batch(repo_python):
    """-> (coq text, error or None)"""
    rel = "tak/model/encoding.py"
    try:
        src = (Path(repo_python) / rel).read_text()
        tree = ast.parse(src)
        enc = _find_function(tree, "encode", rel)
        if [a.arg for a in enc.args.args] != ["p", "include_sentinel"] or enc.args.vararg or enc.args.kwarg \
                or enc.args.kwonlyargs:
            _no(enc, "signature of encode (the callee inside encode_batch's lambda)")
        for n in tree.body:         # `encode` / `_encode_batch` must not be rebound at module level
            if isinstance(n, (ast.Assign, ast.AugAssign, ast.AnnAssign)):
                for x in ast.walk(n):
                    if isinstance(x, ast.Name) and isinstance(x.ctx, ast.Store) and x.id in ("encode", "_encode_batch", "encode_batch"):
                        _no(n, f"module-level rebinding of {x.id}")
        fn_t = FN(POSITION, LIST(INT))
        pair = TUPLE(TENSOR, TENSOR)
        eb_params = [("inputs", LIST(POSITION)), ("encode_one", fn_t), ("dtype", DTYPE)]
        oracles = {"uninit": "nat -> Z"}
        digest = hashlib.sha256()
        for name in ("_encode_batch", "encode_batch"):
            digest.update(ast.get_source_segment(src, _find_function(tree, name, rel)).encode())
        t1 = translate_function(src, rel, "_encode_batch", eb_params, pair, oracles, allow_defaults=True)
        defs = {"_encode_batch": ("_encode_batch", eb_params, pair),
                "encode": ("EncodingGen.encode", [("p", POSITION), ("include_sentinel", BOOL)], LIST(INT))}
        t2 = translate_function(src, rel, "encode_batch", [("positions", LIST(POSITION)), ("include_sentinel", BOOL)],
                                pair, oracles, module_defs=defs, allow_defaults=True)
        body = ("Section encode_batch_uninit.\nVariable uninit : nat -> Z.\n\n"
                f"(* {rel}: _encode_batch *)\n{t1}\n\n(* {rel}: encode_batch *)\n{t2}\nEnd encode_batch_uninit.\n")
        return EB_HEADER % digest.hexdigest()[:16] + "\n" + body, None
    except (Untranslatable, SyntaxError, OSError) as e:
        msg = f"{type(e).__name__}: {e}"
        return STUB % msg.replace("*)", "* )"), msg


if __name__ == "__main__":
    import sys
    if len(sys.argv) > 2 and sys.argv[2] == "encode_batch":
        text, err = translate_encode_batch(Path(sys.argv[1]))
        print(text)
        if err:
            print("ERROR:", err, file=sys.stderr)
            sys.exit(1)
        sys.exit(0)
    text, err = translate(Path(sys.argv[1] if len(sys.argv) > 1 else "/repo/python"))
    print(text)
    if err:
        print("ERROR:", err, file=sys.stderr)
        sys.exit(1)
