"""Regenerates section 13 of DESIGN.md (between the markers) from seeded/*/meta.json and seeded/RESULTS.json."""
import json
import re
from pathlib import Path

VERIF = Path(__file__).resolve().parents[1]


def one_line(d):
    diff = (d / "patch.diff").read_text()
    files = sorted(set(l[6:].replace("python/", "") for l in diff.splitlines() if l.startswith("+++ b/")))
    notes = (d / "notes.md").read_text() if (d / "notes.md").exists() else ""
    title = ""
    for l in notes.splitlines():
        l = l.strip().lstrip("#").strip()
        if len(l) > 15 and not l.lower().startswith(("notes", "seed", "change ")):
            title = l
            break
    if not title:
        for l in notes.splitlines():
            l = l.strip().lstrip("#").strip()
            if len(l) > 15:
                title = l
                break
    title = re.sub(r"\s+", " ", title)[:150].replace("|", "/")
    return ", ".join(files), title


def main():
    res = {r["name"]: r for r in json.load(open(VERIF / "seeded" / "RESULTS.json"))}
    rows = []
    for d in sorted((VERIF / "seeded").iterdir()):
        if not (d / "meta.json").exists():
            continue
        meta = json.load(open(d / "meta.json"))
        files, title = one_line(d)
        r = res.get(d.name, {}).get("results", {})
        verdicts = []
        for pid, rr in r.items():
            if meta.get("harmless"):
                if not rr["caught"]:
                    v = f"{pid}: passes (exit 0)"
                elif rr["with_failing_input"]:
                    v = f"{pid}: FALSE ALARM with an input"
                else:
                    v = f"{pid}: alarm, no-failing-input-found (a tie broke)"
                verdicts.append(v)
                continue
            if rr["caught"] and rr["with_failing_input"]:
                v = f"{pid}: caught, concrete input"
            elif rr["caught"]:
                v = f"{pid}: caught, no-failing-input-found"
            else:
                v = f"{pid}: MISSED"
            verdicts.append(v)
        rows.append(f"| `{d.name}` | {meta['property']} | {files} | {title} | {'; '.join(verdicts) or 'not run yet'} |")
    table = ("| seeded change | property | file(s) | what it does (from the author's notes) | quick checks run against it |\n"
             "|---|---|---|---|---|\n" + "\n".join(rows) + "\n")
    p = VERIF / "DESIGN.md"
    s = p.read_text()
    a, b = "<!-- SEEDED-TABLE-BEGIN -->", "<!-- SEEDED-TABLE-END -->"
    if a in s:
        s = s[:s.index(a) + len(a)] + "\n" + table + s[s.index(b):]
        p.write_text(s)
    print(table)


if __name__ == "__main__":
    main()
