"""C18 translator (fail-closed, Python `ast`): the protocol of python/tak/self_play.py
(`run_job`, `entrypoint`, `MultiprocessSelfPlayEngine.__attrs_post_init__ / play_many / stop`,
`play_many_games`) -> coq/gen/WorkersIR.v.

The IR records what the protocol model hard-wires: queue bounds, the order of the steps, the
comparison operators of the two loops, what happens on queue.Full / queue.Empty, which exit codes
count as healthy, which exceptions are caught where, the exit status on exception, where the
worker's epilogue runs, how stop() joins.  Local variable names are bound by ROLE (the list that
collects the transcripts, the counter initialised from the `games` parameter, ...), so renaming
locals changes nothing.  Any statement or expression shape not listed here raises TranslateError
(the check records the broken obligation `translate:C18` and writes a stub).  Nothing is executed."""
import ast
from pathlib import Path

from . import core


class TranslateError(Exception):
    pass


def _src(node):
    return ast.unparse(node)


def _fail(node, why):
    raise TranslateError(f"{why}: line {getattr(node, 'lineno', '?')}: {_src(node)[:160]}")


CMP = {ast.Lt: "CLt", ast.LtE: "CLe", ast.Gt: "CGt", ast.GtE: "CGe", ast.Eq: "CEq", ast.NotEq: "CNe"}

TYPES = '''Inductive cmp := CLt | CLe | CGt | CGe | CEq | CNe.
Inductive on_full := FullBreak | FullContinue.          (* except queue.Full: break / continue *)
Inductive exit_test :=
| ExitNotIn (healthy : list (option Z))                 (* if p.exitcode not in [...]: raise *)
| ExitNotNoneAnd (c : cmp) (k : Z).                     (* if p.exitcode is not None and p.exitcode <c> k: raise *)
Inductive dstep := DPut (block : bool) | DIncNextId | DDecTodo.   (* cmd.put(self.next_id, block=..); next_id += 1; todo -= 1 *)
Inductive rstep := RGet (block : bool) (timeout : option Z) | RAppend.   (* log = games.get(block=.., timeout=..); logs.append(log) *)
Inductive wstep := WsGet (block : bool) | WsNoneBreak | WsPlay | WsPut (block : bool).
Inductive epi := EpiClose | EpiJoinThread | EpiShutdownWait.    (* games.close(); games.join_thread(); shutdown.wait() *)
Inductive place := InTry | InFinally.
Inductive exc_class := ExcKeyboardInterrupt | ExcSystemExit | ExcBaseException.
Inductive join_kind := JoinDeadline | JoinForever.
    (* JoinDeadline: deadline = time.monotonic() + STOP_TIMEOUT; p.join(timeout=max(0.0, deadline - time.monotonic()));
       if p.is_alive(): p.kill(); p.join()          JoinForever: p.join() *)
Inductive sstep := SPuts (mult add : nat) (block : bool) | SSetShutdown | SJoin (k : join_kind).
    (* SPuts a b block: cmd.put(None, block=..) repeated a*workers+b times *)
Record workers_ir_t := mkIR {
  ir_spawn : bool;                     (* multiprocessing.get_context("spawn") *)
  ir_cmd_bound : nat * nat;            (* (a, b): Queue(maxsize = a*workers + b) *)
  ir_games_bound : nat * nat;
  ir_procs : nat * nat;                (* number of processes created, same encoding *)
  ir_started_all : bool;               (* for p in self.processes: p.start() *)
  ir_outer_guard : cmp;                (* while len(logs) <cmp> games *)
  ir_dispatch_guard : cmp * Z;         (* while todo <cmp> k *)
  ir_dispatch_body : list dstep;
  ir_on_full : on_full;
  ir_recv_body : list rstep;
  ir_exit_test : exit_test;            (* inside `except queue.Empty`, for every process *)
  ir_raise_on_bad : bool;              (* ... raise RuntimeError(...) *)
  ir_kill_all_and_reraise : bool;      (* except Exception: for p in self.processes: p.kill(); raise *)
  ir_returns_logs : bool;
  ir_stop : list sstep;
  ir_pmg_finally_stop : bool;          (* play_many_games: try: return engine.play_many(..) finally: engine.stop() *)
  ir_factory_first : bool;             (* engine = job.config.engine_factory() before the loop *)
  ir_worker_loop : list wstep;
  ir_epilogue : list epi;
  ir_epilogue_place : place;
  ir_catches_exception : bool;         (* except Exception around run_job and (if InTry) the epilogue *)
  ir_exit_status : Z;                  (* sys.exit(k) in that handler; 0 if the handler falls through *)
  ir_other_handlers : list (exc_class * Z)
      (* further except clauses of the same try with the exit status they lead to (pass / fall through = 0,
         sys.exit(k) = k, bare raise = 1).  A BaseException no clause catches leaves entrypoint;
         multiprocessing prints the traceback and the process exits with status 1. *)
}.'''


def _attr_chain(node):
    """'a.b.c' for Name/Attribute chains, else None"""
    if isinstance(node, ast.Name):
        return node.id
    if isinstance(node, ast.Attribute):
        b = _attr_chain(node.value)
        return None if b is None else f"{b}.{node.attr}"
    return None


def _is_method_call(node, chain):
    return isinstance(node, ast.Call) and _attr_chain(node.func) == chain


def _expr_call(stmt, chain=None):
    if isinstance(stmt, ast.Expr) and isinstance(stmt.value, ast.Call):
        if chain is None or _attr_chain(stmt.value.func) == chain:
            return stmt.value
    return None


def _kwargs(call):
    d = {}
    for k in call.keywords:
        if k.arg is None:
            _fail(call, "**kwargs not supported")
        d[k.arg] = k.value
    return d


def _const(node, types):
    if isinstance(node, ast.Constant) and isinstance(node.value, types) and not isinstance(node.value, bool) or \
            (isinstance(node, ast.Constant) and bool in (types if isinstance(types, tuple) else (types,)) and isinstance(node.value, bool)):
        return node.value
    _fail(node, f"expected a literal of type {types}")


def _block_flag(call, default, pos_index=None):
    """the `block` argument of Queue.put/get (keyword or positional)"""
    kw = _kwargs(call)
    if "block" in kw:
        return bool(_const(kw["block"], bool))
    if pos_index is not None and len(call.args) > pos_index:
        return bool(_const(call.args[pos_index], bool))
    return default


def _linear_in(node, wchain):
    """a*W + b for expressions built from the worker count `wchain` and int literals"""
    if _attr_chain(node) == wchain:
        return (1, 0)
    if isinstance(node, ast.Constant) and isinstance(node.value, int) and not isinstance(node.value, bool) and node.value >= 0:
        return (0, node.value)
    if isinstance(node, ast.BinOp) and isinstance(node.op, ast.Mult):
        l, r = _linear_in(node.left, wchain), _linear_in(node.right, wchain)
        if l[0] == 0:
            return (l[1] * r[0], l[1] * r[1])
        if r[0] == 0:
            return (r[1] * l[0], r[1] * l[1])
        _fail(node, "non-linear queue bound")
    if isinstance(node, ast.BinOp) and isinstance(node.op, ast.Add):
        l, r = _linear_in(node.left, wchain), _linear_in(node.right, wchain)
        return (l[0] + r[0], l[1] + r[1])
    _fail(node, "unsupported bound expression")


class Translator:
    W = "self.config.workers"

    def __init__(self, repo: Path):
        self.path = Path(repo) / "python" / "tak" / "self_play.py"
        self.tree = ast.parse(self.path.read_text())
        self.funcs = {n.name: n for n in self.tree.body if isinstance(n, ast.FunctionDef)}
        cls = [n for n in self.tree.body if isinstance(n, ast.ClassDef) and n.name == "MultiprocessSelfPlayEngine"]
        if len(cls) != 1:
            raise TranslateError("class MultiprocessSelfPlayEngine not found exactly once")
        self.methods = {n.name: n for n in cls[0].body if isinstance(n, ast.FunctionDef)}
        for f in ("run_job", "entrypoint", "play_many_games"):
            if f not in self.funcs:
                raise TranslateError(f"function {f} not found")
        for m in ("__attrs_post_init__", "play_many", "stop"):
            if m not in self.methods:
                raise TranslateError(f"method {m} not found")
        self.ir = {}

    @staticmethod
    def _body(fn):
        body = list(fn.body)
        if body and isinstance(body[0], ast.Expr) and isinstance(body[0].value, ast.Constant) and isinstance(body[0].value.value, str):
            body = body[1:]
        return body

    # ---- __attrs_post_init__ ------------------------------------------------------------
    def post_init(self):
        body = self._body(self.methods["__attrs_post_init__"])
        if len(body) != 4:
            _fail(self.methods["__attrs_post_init__"], "expected 4 statements in __attrs_post_init__")
        a0, a1, a2, loop = body
        if not (isinstance(a0, ast.Assign) and len(a0.targets) == 1 and isinstance(a0.targets[0], ast.Name)
                and _is_method_call(a0.value, "multiprocessing.get_context") and len(a0.value.args) == 1):
            _fail(a0, "expected <ctx> = multiprocessing.get_context(...)")
        ctx = a0.targets[0].id
        self.ir["spawn"] = _const(a0.value.args[0], str) == "spawn"
        if not (isinstance(a1, ast.Assign) and _attr_chain(a1.targets[0]) == "self.job" and isinstance(a1.value, ast.Call)
                and _attr_chain(a1.value.func) == "WorkerJob" and not a1.value.args):
            _fail(a1, "expected self.job = WorkerJob(...)")
        kw = _kwargs(a1.value)
        if set(kw) != {"config", "cmd", "games", "shutdown"}:
            _fail(a1, "WorkerJob fields")
        for q in ("cmd", "games"):
            c = kw[q]
            if not (_is_method_call(c, f"{ctx}.Queue") and not c.args and set(_kwargs(c)) == {"maxsize"}):
                _fail(c, f"expected {ctx}.Queue(maxsize=...)")
            self.ir[f"{q}_bound"] = _linear_in(_kwargs(c)["maxsize"], self.W)
        if not (_is_method_call(kw["shutdown"], f"{ctx}.Event") and not kw["shutdown"].args):
            _fail(kw["shutdown"], "expected an Event of the same context")
        if not (isinstance(a2, ast.Assign) and _attr_chain(a2.targets[0]) == "self.processes" and isinstance(a2.value, ast.ListComp)
                and len(a2.value.generators) == 1 and not a2.value.generators[0].ifs):
            _fail(a2, "expected self.processes = [<ctx>.Process(...) for i in range(...)]")
        gen = a2.value.generators[0]
        if not (_is_method_call(gen.iter, "range") and len(gen.iter.args) == 1 and isinstance(gen.target, ast.Name)):
            _fail(gen.iter, "expected range(<count>)")
        self.ir["procs"] = _linear_in(gen.iter.args[0], self.W)
        pc = a2.value.elt
        if not (_is_method_call(pc, f"{ctx}.Process") and not pc.args):
            _fail(pc, "expected <ctx>.Process(target=entrypoint, args=(self.job, i), ...)")
        pkw = _kwargs(pc)
        if not (set(pkw) <= {"target", "args", "name"} and _attr_chain(pkw.get("target")) == "entrypoint"
                and isinstance(pkw.get("args"), ast.Tuple) and len(pkw["args"].elts) == 2
                and _attr_chain(pkw["args"].elts[0]) == "self.job" and _attr_chain(pkw["args"].elts[1]) == gen.target.id):
            _fail(pc, "unexpected Process arguments")
        if not (isinstance(loop, ast.For) and _attr_chain(loop.iter) == "self.processes" and isinstance(loop.target, ast.Name)
                and len(loop.body) == 1 and not loop.orelse and _expr_call(loop.body[0], f"{loop.target.id}.start") is not None):
            _fail(loop, "expected for p in self.processes: p.start()")
        self.ir["started_all"] = True

    # ---- play_many ----------------------------------------------------------------------
    def _exit_test(self, handler_body):
        if len(handler_body) != 1 or not isinstance(handler_body[0], ast.For):
            _fail(handler_body[0], "expected a single loop over the processes in `except queue.Empty`")
        loop = handler_body[0]
        if not (_attr_chain(loop.iter) == "self.processes" and isinstance(loop.target, ast.Name) and not loop.orelse):
            _fail(loop, "expected for p in self.processes")
        p = loop.target.id
        stmts = list(loop.body)
        code = f"{p}.exitcode"
        alias = {code}
        if len(stmts) == 2 and isinstance(stmts[0], ast.Assign) and len(stmts[0].targets) == 1 \
                and isinstance(stmts[0].targets[0], ast.Name) and _attr_chain(stmts[0].value) == code:
            alias.add(stmts[0].targets[0].id)
            stmts = stmts[1:]
        if len(stmts) != 1 or not isinstance(stmts[0], ast.If) or stmts[0].orelse:
            _fail(loop, "expected one `if <exit code test>: raise ...`")
        test, body = stmts[0].test, stmts[0].body
        if not (len(body) == 1 and isinstance(body[0], ast.Raise) and isinstance(body[0].exc, ast.Call)
                and _attr_chain(body[0].exc.func) == "RuntimeError"):
            _fail(stmts[0], "expected raise RuntimeError(...)")
        self.ir["raise_on_bad"] = True

        def is_code(n):
            return _attr_chain(n) in alias

        if isinstance(test, ast.Compare) and len(test.ops) == 1 and isinstance(test.ops[0], ast.NotIn) and is_code(test.left) \
                and isinstance(test.comparators[0], (ast.List, ast.Tuple, ast.Set)):
            vals = []
            for e in test.comparators[0].elts:
                if isinstance(e, ast.Constant) and e.value is None:
                    vals.append(None)
                elif isinstance(e, ast.Constant) and isinstance(e.value, int) and not isinstance(e.value, bool):
                    vals.append(e.value)
                elif isinstance(e, ast.UnaryOp) and isinstance(e.op, ast.USub) and isinstance(e.operand, ast.Constant) \
                        and isinstance(e.operand.value, int):
                    vals.append(-e.operand.value)
                else:
                    _fail(e, "healthy exit code is not an int literal or None")
            return ("notin", vals)
        if isinstance(test, ast.BoolOp) and isinstance(test.op, ast.And) and len(test.values) == 2:
            a, b = test.values
            if isinstance(a, ast.Compare) and len(a.ops) == 1 and isinstance(a.ops[0], ast.IsNot) and is_code(a.left) \
                    and isinstance(a.comparators[0], ast.Constant) and a.comparators[0].value is None \
                    and isinstance(b, ast.Compare) and len(b.ops) == 1 and type(b.ops[0]) in CMP and is_code(b.left) \
                    and isinstance(b.comparators[0], ast.Constant) and isinstance(b.comparators[0].value, int) \
                    and not isinstance(b.comparators[0].value, bool):
                return ("notnone", CMP[type(b.ops[0])], b.comparators[0].value)
        _fail(test, "unsupported exit code test")

    def play_many(self):
        fn = self.methods["play_many"]
        params = [a.arg for a in fn.args.args]
        if len(params) < 2 or params[0] != "self":
            _fail(fn, "play_many(self, games, ...)")
        games = params[1]
        body = self._body(fn)
        if len(body) != 4:
            _fail(fn, "expected: logs = []; todo = games; try: ...; return logs")
        s_logs, s_todo, s_try, s_ret = body
        if not (isinstance(s_logs, ast.Assign) and isinstance(s_logs.targets[0], ast.Name) and isinstance(s_logs.value, ast.List)
                and not s_logs.value.elts):
            _fail(s_logs, "expected <logs> = []")
        logs = s_logs.targets[0].id
        if not (isinstance(s_todo, ast.Assign) and isinstance(s_todo.targets[0], ast.Name) and _attr_chain(s_todo.value) == games):
            _fail(s_todo, f"expected <todo> = {games}")
        todo = s_todo.targets[0].id
        if not (isinstance(s_ret, ast.Return) and _attr_chain(s_ret.value) == logs):
            _fail(s_ret, f"expected return {logs}")
        self.ir["returns_logs"] = True
        if not (isinstance(s_try, ast.Try) and not s_try.orelse and not s_try.finalbody and len(s_try.handlers) == 1):
            _fail(s_try, "expected try/except around the request")
        h = s_try.handlers[0]
        if not (_attr_chain(h.type) == "Exception" and len(h.body) == 2 and isinstance(h.body[0], ast.For)
                and _attr_chain(h.body[0].iter) == "self.processes" and isinstance(h.body[0].target, ast.Name)
                and len(h.body[0].body) == 1 and _expr_call(h.body[0].body[0], f"{h.body[0].target.id}.kill") is not None
                and isinstance(h.body[1], ast.Raise) and h.body[1].exc is None):
            _fail(h, "expected except Exception: for p in self.processes: p.kill(); raise")
        self.ir["kill_all_and_reraise"] = True
        inner = list(s_try.body)
        bar = None
        if len(inner) == 1 and isinstance(inner[0], ast.With):          # the progress bar
            w = inner[0]
            if len(w.items) != 1:
                _fail(w, "one context manager expected")
            if w.items[0].optional_vars is not None:
                bar = _attr_chain(w.items[0].optional_vars)
            inner = list(w.body)
        if len(inner) != 1 or not isinstance(inner[0], ast.While) or inner[0].orelse:
            _fail(s_try, "expected one outer while loop")
        outer = inner[0]
        t = outer.test
        if not (isinstance(t, ast.Compare) and len(t.ops) == 1 and type(t.ops[0]) in CMP and _is_method_call(t.left, "len")
                and len(t.left.args) == 1 and _attr_chain(t.left.args[0]) == logs and _attr_chain(t.comparators[0]) == games):
            _fail(t, f"expected len({logs}) <cmp> {games}")
        self.ir["outer_guard"] = CMP[type(t.ops[0])]
        if len(outer.body) != 2 or not isinstance(outer.body[0], ast.While) or not isinstance(outer.body[1], ast.Try):
            _fail(outer, "expected: dispatch loop; try: timed get")
        disp, recv = outer.body
        # dispatch loop
        t = disp.test
        if not (isinstance(t, ast.Compare) and len(t.ops) == 1 and type(t.ops[0]) in CMP and _attr_chain(t.left) == todo
                and isinstance(t.comparators[0], ast.Constant) and isinstance(t.comparators[0].value, int)
                and not isinstance(t.comparators[0].value, bool) and not disp.orelse):
            _fail(t, f"expected {todo} <cmp> <int>")
        self.ir["dispatch_guard"] = (CMP[type(t.ops[0])], t.comparators[0].value)
        if not (len(disp.body) == 1 and isinstance(disp.body[0], ast.Try) and not disp.body[0].orelse and not disp.body[0].finalbody
                and len(disp.body[0].handlers) == 1):
            _fail(disp, "expected try/except queue.Full inside the dispatch loop")
        dtry = disp.body[0]
        steps = []
        for st in dtry.body:
            c = _expr_call(st, "self.job.cmd.put")
            if c is not None:
                if not (len(c.args) >= 1 and _attr_chain(c.args[0]) == "self.next_id" and set(_kwargs(c)) <= {"block"}
                        and len(c.args) <= 2):
                    _fail(st, "expected self.job.cmd.put(self.next_id, block=...)")
                steps.append(("put", _block_flag(c, True, 1)))
            elif isinstance(st, ast.AugAssign) and isinstance(st.op, ast.Add) and _attr_chain(st.target) == "self.next_id" \
                    and isinstance(st.value, ast.Constant) and st.value.value == 1:
                steps.append(("inc",))
            elif isinstance(st, ast.AugAssign) and isinstance(st.op, ast.Sub) and _attr_chain(st.target) == todo \
                    and isinstance(st.value, ast.Constant) and st.value.value == 1:
                steps.append(("dec",))
            else:
                _fail(st, "unsupported statement in the dispatch loop")
        self.ir["dispatch_body"] = steps
        dh = dtry.handlers[0]
        if not (_attr_chain(dh.type) == "queue.Full" and len(dh.body) == 1 and isinstance(dh.body[0], (ast.Break, ast.Continue))):
            _fail(dh, "expected except queue.Full: break|continue")
        self.ir["on_full"] = "FullBreak" if isinstance(dh.body[0], ast.Break) else "FullContinue"
        # timed get
        if recv.orelse or recv.finalbody or len(recv.handlers) != 1 or _attr_chain(recv.handlers[0].type) != "queue.Empty":
            _fail(recv, "expected try: <get> except queue.Empty: ...")
        rsteps = []
        logvar = None
        for st in recv.body:
            if bar is not None and _expr_call(st, f"{bar}.update") is not None:
                continue
            get = None
            if isinstance(st, ast.Assign) and isinstance(st.targets[0], ast.Name) and _is_method_call(st.value, "self.job.games.get"):
                logvar, get = st.targets[0].id, st.value
            c = _expr_call(st, f"{logs}.append")
            if get is None and c is not None and len(c.args) == 1:
                if _is_method_call(c.args[0], "self.job.games.get"):
                    get = c.args[0]
                elif logvar is not None and _attr_chain(c.args[0]) == logvar:
                    rsteps.append(("append",))
                    continue
            if get is None:
                _fail(st, "unsupported statement in the receive block")
            kw = _kwargs(get)
            if not set(kw) <= {"block", "timeout"} or len(get.args) > 2:
                _fail(get, "games.get arguments")
            tmo = kw.get("timeout", get.args[1] if len(get.args) > 1 else None)
            if tmo is None:
                tval = None
            else:
                v = _const(tmo, (int, float))
                if v != int(v) or v <= 0:
                    _fail(tmo, "timeout is not a positive integer number of seconds")
                tval = int(v)
            rsteps.append(("get", _block_flag(get, True, 0), tval))
            if c is not None:
                rsteps.append(("append",))
        self.ir["recv_body"] = rsteps
        self.ir["exit_test"] = self._exit_test(recv.handlers[0].body)

    # ---- stop ---------------------------------------------------------------------------
    def stop(self):
        body = self._body(self.methods["stop"])
        steps = []
        i = 0
        # sentinels
        st = body[i]
        if not (isinstance(st, ast.For) and isinstance(st.target, ast.Name) and not st.orelse and len(st.body) == 1):
            _fail(st, "expected the sentinel loop first")
        var = st.target.id
        if _is_method_call(st.iter, "range") and len(st.iter.args) == 1:
            count, sentinel_is_var = _linear_in(st.iter.args[0], self.W), False
        elif isinstance(st.iter, ast.BinOp) and isinstance(st.iter.op, ast.Mult) and isinstance(st.iter.left, ast.List) \
                and len(st.iter.left.elts) == 1 and isinstance(st.iter.left.elts[0], ast.Constant) and st.iter.left.elts[0].value is None:
            count, sentinel_is_var = _linear_in(st.iter.right, self.W), True
        else:
            _fail(st.iter, "unsupported sentinel iteration")
        c = _expr_call(st.body[0], "self.job.cmd.put")
        if c is None or not c.args or not set(_kwargs(c)) <= {"block"} or len(c.args) > 2:
            _fail(st.body[0], "expected self.job.cmd.put(None, block=...)")
        a0 = c.args[0]
        if not ((isinstance(a0, ast.Constant) and a0.value is None) or (sentinel_is_var and _attr_chain(a0) == var)):
            _fail(a0, "the sentinel is not None")
        steps.append(f"SPuts {count[0]} {count[1]} {'true' if _block_flag(c, True, 1) else 'false'}")
        i += 1
        if i >= len(body) or _expr_call(body[i], "self.job.shutdown.set") is None:
            _fail(body[min(i, len(body) - 1)], "expected self.job.shutdown.set() after the sentinels")
        steps.append("SSetShutdown")
        i += 1
        rest = body[i:]
        if len(rest) == 2 and isinstance(rest[0], ast.Assign) and isinstance(rest[1], ast.For) and len(rest[1].body) == 1 \
                and isinstance(rest[1].target, ast.Name) and _expr_call(rest[1].body[0], f"{rest[1].target.id}.join") is not None \
                and not _expr_call(rest[1].body[0]).args and not _expr_call(rest[1].body[0]).keywords:
            rest = rest[1:]         # a deadline that is computed but not used
        if len(rest) == 1 and isinstance(rest[0], ast.For) and _attr_chain(rest[0].iter) == "self.processes" \
                and isinstance(rest[0].target, ast.Name) and len(rest[0].body) == 1 \
                and (lambda c: c is not None and not c.args and not c.keywords)(_expr_call(rest[0].body[0], f"{rest[0].target.id}.join")):
            steps.append("SJoin JoinForever")
        elif len(rest) == 2 and isinstance(rest[0], ast.Assign) and isinstance(rest[0].targets[0], ast.Name) \
                and isinstance(rest[1], ast.For) and _attr_chain(rest[1].iter) == "self.processes" and isinstance(rest[1].target, ast.Name):
            dl, p = rest[0].targets[0].id, rest[1].target.id
            v = rest[0].value
            if not (isinstance(v, ast.BinOp) and isinstance(v.op, ast.Add) and _is_method_call(v.left, "time.monotonic")
                    and _attr_chain(v.right) == "STOP_TIMEOUT"):
                _fail(rest[0], "expected <deadline> = time.monotonic() + STOP_TIMEOUT")
            self._stop_timeout_positive()
            lb = rest[1].body
            if len(lb) != 2:
                _fail(rest[1], "expected: p.join(timeout=...); if p.is_alive(): p.kill(); p.join()")
            j = _expr_call(lb[0], f"{p}.join")
            ok = j is not None and not j.args and set(_kwargs(j)) == {"timeout"}
            if ok:
                tm = _kwargs(j)["timeout"]
                ok = (_is_method_call(tm, "max") and len(tm.args) == 2 and isinstance(tm.args[0], ast.Constant)
                      and tm.args[0].value == 0 and isinstance(tm.args[1], ast.BinOp) and isinstance(tm.args[1].op, ast.Sub)
                      and _attr_chain(tm.args[1].left) == dl and _is_method_call(tm.args[1].right, "time.monotonic"))
            iff = lb[1]
            ok = ok and isinstance(iff, ast.If) and not iff.orelse and _is_method_call(iff.test, f"{p}.is_alive") \
                and len(iff.body) == 2 and _expr_call(iff.body[0], f"{p}.kill") is not None \
                and (lambda c: c is not None and not c.args and not c.keywords)(_expr_call(iff.body[1], f"{p}.join"))
            if not ok:
                _fail(rest[1], "unsupported join-with-deadline shape")
            steps.append("SJoin JoinDeadline")
        else:
            _fail(rest[0] if rest else body[-1], "unsupported join phase of stop()")
        self.ir["stop"] = steps

    def _stop_timeout_positive(self):
        for n in self.tree.body:
            if isinstance(n, ast.Assign) and len(n.targets) == 1 and _attr_chain(n.targets[0]) == "STOP_TIMEOUT":
                v = _const(n.value, (int, float))
                if v > 0:
                    return
                _fail(n, "STOP_TIMEOUT is not positive")
        raise TranslateError("module constant STOP_TIMEOUT not found")

    # ---- play_many_games ------------------------------------------------------------------
    def pmg(self):
        body = self._body(self.funcs["play_many_games"])
        ok = len(body) == 2 and isinstance(body[0], ast.Assign) and isinstance(body[0].targets[0], ast.Name) \
            and _is_method_call(body[0].value, "MultiprocessSelfPlayEngine") and isinstance(body[1], ast.Try)
        if ok:
            e, t = body[0].targets[0].id, body[1]
            ok = (not t.handlers and not t.orelse and len(t.body) == 1 and isinstance(t.body[0], ast.Return)
                  and _is_method_call(t.body[0].value, f"{e}.play_many")
                  and len(t.finalbody) == 1 and _expr_call(t.finalbody[0], f"{e}.stop") is not None)
        if not ok:
            _fail(self.funcs["play_many_games"], "expected engine = ...; try: return engine.play_many(...) finally: engine.stop()")
        self.ir["pmg_finally_stop"] = True

    # ---- worker side ------------------------------------------------------------------------
    def run_job(self):
        fn = self.funcs["run_job"]
        job = fn.args.args[0].arg
        body = self._body(fn)
        if len(body) != 2:
            _fail(fn, "expected: engine = job.config.engine_factory(); <loop>")
        s0, loop = body
        if not (isinstance(s0, ast.Assign) and isinstance(s0.targets[0], ast.Name)
                and _is_method_call(s0.value, f"{job}.config.engine_factory") and not s0.value.args):
            _fail(s0, "expected <engine> = job.config.engine_factory()")
        engine = s0.targets[0].id
        self.ir["factory_first"] = True
        steps = []

        def play_and_put(stmts, idvar):
            logvar = None
            for st in stmts:
                if isinstance(st, ast.Assign) and isinstance(st.targets[0], ast.Name) and _is_method_call(st.value, "play_one_game"):
                    call, logvar = st.value, st.targets[0].id
                    if [_attr_chain(a) for a in call.args] != [f"{job}.config", engine]:
                        _fail(st, "play_one_game(job.config, engine)")
                    steps.append("WsPlay")
                    continue
                c = _expr_call(st, f"{job}.games.put")
                if c is not None and len(c.args) >= 1 and set(_kwargs(c)) <= {"block"} and len(c.args) <= 2:
                    a = c.args[0]
                    if _is_method_call(a, "play_one_game") and [_attr_chain(x) for x in a.args] == [f"{job}.config", engine]:
                        steps.append("WsPlay")
                    elif not (logvar is not None and _attr_chain(a) == logvar):
                        _fail(st, "games.put of something that is not the game just played")
                    steps.append(f"WsPut {'true' if _block_flag(c, True, 1) else 'false'}")
                    continue
                _fail(st, "unsupported statement in the worker loop")

        if isinstance(loop, ast.While) and isinstance(loop.test, ast.Constant) and loop.test.value is True and not loop.orelse:
            lb = list(loop.body)
            if len(lb) < 2:
                _fail(loop, "worker loop too short")
            g = lb[0]
            if not (isinstance(g, ast.Assign) and isinstance(g.targets[0], ast.Name) and _is_method_call(g.value, f"{job}.cmd.get")
                    and set(_kwargs(g.value)) <= {"block"} and len(g.value.args) <= 1):
                _fail(g, "expected <id> = job.cmd.get(block=True)")
            idvar = g.targets[0].id
            steps.append(f"WsGet {'true' if _block_flag(g.value, True, 0) else 'false'}")
            iff = lb[1]
            if not (isinstance(iff, ast.If) and not iff.orelse and isinstance(iff.test, ast.Compare) and len(iff.test.ops) == 1
                    and isinstance(iff.test.ops[0], ast.Is) and _attr_chain(iff.test.left) == idvar
                    and isinstance(iff.test.comparators[0], ast.Constant) and iff.test.comparators[0].value is None
                    and len(iff.body) == 1 and isinstance(iff.body[0], ast.Break)):
                _fail(iff, "expected if <id> is None: break")
            steps.append("WsNoneBreak")
            play_and_put(lb[2:], idvar)
        elif isinstance(loop, ast.For) and isinstance(loop.target, ast.Name) and _is_method_call(loop.iter, "iter") \
                and len(loop.iter.args) == 2 and isinstance(loop.iter.args[0], ast.Lambda) and not loop.iter.args[0].args.args \
                and _is_method_call(loop.iter.args[0].body, f"{job}.cmd.get") \
                and isinstance(loop.iter.args[1], ast.Constant) and loop.iter.args[1].value is None and not loop.orelse:
            g = loop.iter.args[0].body
            if not (set(_kwargs(g)) <= {"block"} and len(g.args) <= 1):
                _fail(g, "cmd.get arguments")
            steps.append(f"WsGet {'true' if _block_flag(g, True, 0) else 'false'}")
            steps.append("WsNoneBreak")
            play_and_put(list(loop.body), loop.target.id)
        else:
            _fail(loop, "unsupported worker loop")
        self.ir["worker_loop"] = steps

    def entrypoint(self):
        fn = self.funcs["entrypoint"]
        job, wid = fn.args.args[0].arg, fn.args.args[1].arg
        body = self._body(fn)
        pre = [s for s in body if not isinstance(s, ast.Try)]
        for s in pre:
            if _expr_call(s, "torch.manual_seed") is None:
                _fail(s, "only the seeding call is expected outside the try")
        tries = [s for s in body if isinstance(s, ast.Try)]
        if len(tries) != 1 or body[-1] is not tries[0]:
            _fail(fn, "expected one try statement at the end of entrypoint")
        t = tries[0]
        if t.orelse or not t.handlers:
            _fail(t, "expected except clauses and no else")
        EPI = {f"{job}.games.close": "EpiClose", f"{job}.games.join_thread": "EpiJoinThread", f"{job}.shutdown.wait": "EpiShutdownWait"}

        def epilogue(stmts):
            out = []
            for s in stmts:
                c = _expr_call(s)
                k = EPI.get(_attr_chain(c.func)) if c is not None else None
                if k is None or c.args or c.keywords:
                    _fail(s, "unsupported epilogue statement")
                out.append(k)
            return out

        tb = list(t.body)
        c = _expr_call(tb[0], "run_job") if tb else None
        if c is None or [_attr_chain(a) for a in c.args] != [job, wid]:
            _fail(t, "expected run_job(job, id) first inside the try")
        in_try, in_fin = epilogue(tb[1:]), epilogue(t.finalbody)
        if in_try and in_fin:
            _fail(t, "epilogue both inside the try and in finally")
        self.ir["epilogue"] = in_try or in_fin
        self.ir["epilogue_place"] = "InFinally" if in_fin else "InTry"
        OTHER = {"KeyboardInterrupt": "ExcKeyboardInterrupt", "SystemExit": "ExcSystemExit", "BaseException": "ExcBaseException"}

        def handler_status(h):
            status = 0
            for i, s in enumerate(h.body):
                if isinstance(s, ast.Pass) or _expr_call(s, "print") is not None or _expr_call(s, "traceback.print_exc") is not None:
                    continue
                last = i == len(h.body) - 1
                c = _expr_call(s, "sys.exit")
                if c is not None and last and len(c.args) == 1 and not c.keywords:
                    status = _const(c.args[0], int)
                    continue
                if isinstance(s, ast.Raise) and s.exc is None and last:
                    status = 1
                    continue
                _fail(s, "unsupported statement in an exception handler")
            return status

        main, others = [], []
        for h in t.handlers:
            cls = _attr_chain(h.type)
            if cls == "Exception":
                main.append(handler_status(h))
            elif cls in OTHER:
                others.append((OTHER[cls], handler_status(h)))
            else:
                _fail(h, "unsupported exception class in entrypoint")
        if len(main) != 1:
            _fail(t, "expected exactly one `except Exception` clause")
        self.ir["catches_exception"] = True
        self.ir["exit_status"] = main[0]
        self.ir["other_handlers"] = others

    def translate(self):
        self.post_init()
        self.play_many()
        self.stop()
        self.pmg()
        self.run_job()
        self.entrypoint()
        return self.ir


def _z(n):
    return str(n) if n >= 0 else f"({n})"


def _b(x):
    return "true" if x else "false"


def ir_to_coq(ir):
    et = ir["exit_test"]
    if et[0] == "notin":
        ets = "ExitNotIn [" + "; ".join("None" if v is None else f"Some {_z(v)}" for v in et[1]) + "]"
    else:
        ets = f"ExitNotNoneAnd {et[1]} {_z(et[2])}"
    dsteps = "; ".join({"put": lambda s: f"DPut {_b(s[1])}", "inc": lambda s: "DIncNextId", "dec": lambda s: "DDecTodo"}[s[0]](s)
                       for s in ir["dispatch_body"])
    rsteps = "; ".join((f"RGet {_b(s[1])} " + ("None" if s[2] is None else f"(Some {_z(s[2])})")) if s[0] == "get" else "RAppend"
                       for s in ir["recv_body"])
    f = [
        ("ir_spawn", _b(ir["spawn"])),
        ("ir_cmd_bound", f"({ir['cmd_bound'][0]}, {ir['cmd_bound'][1]})%nat"),
        ("ir_games_bound", f"({ir['games_bound'][0]}, {ir['games_bound'][1]})%nat"),
        ("ir_procs", f"({ir['procs'][0]}, {ir['procs'][1]})%nat"),
        ("ir_started_all", _b(ir["started_all"])),
        ("ir_outer_guard", ir["outer_guard"]),
        ("ir_dispatch_guard", f"({ir['dispatch_guard'][0]}, {_z(ir['dispatch_guard'][1])})"),
        ("ir_dispatch_body", f"[{dsteps}]"),
        ("ir_on_full", ir["on_full"]),
        ("ir_recv_body", f"[{rsteps}]"),
        ("ir_exit_test", ets),
        ("ir_raise_on_bad", _b(ir["raise_on_bad"])),
        ("ir_kill_all_and_reraise", _b(ir["kill_all_and_reraise"])),
        ("ir_returns_logs", _b(ir["returns_logs"])),
        ("ir_stop", "[" + "; ".join(ir["stop"]) + "]"),
        ("ir_pmg_finally_stop", _b(ir["pmg_finally_stop"])),
        ("ir_factory_first", _b(ir["factory_first"])),
        ("ir_worker_loop", "[" + "; ".join(ir["worker_loop"]) + "]"),
        ("ir_epilogue", "[" + "; ".join(ir["epilogue"]) + "]"),
        ("ir_epilogue_place", ir["epilogue_place"]),
        ("ir_catches_exception", _b(ir["catches_exception"])),
        ("ir_exit_status", _z(ir["exit_status"])),
        ("ir_other_handlers", "[" + "; ".join(f"({c}, {_z(k)})" for c, k in ir["other_handlers"]) + "]"),
    ]
    return "{|\n  " + ";\n  ".join(f"{k} := {v}" for k, v in f) + "\n|}"


HEAD = ("(* GENERATED by harness/workers_ir.py from python/tak/self_play.py - do not edit.\n"
        "   The protocol of run_job / entrypoint / __attrs_post_init__ / play_many / stop / play_many_games. *)\n"
        "From Coq Require Import ZArith List Bool.\nImport ListNotations.\nOpen Scope Z_scope.\n\n")

STUB_IR = ("{|\n  ir_spawn := false; ir_cmd_bound := (0, 0)%nat; ir_games_bound := (0, 0)%nat; ir_procs := (0, 0)%nat;\n"
           "  ir_started_all := false; ir_outer_guard := CEq; ir_dispatch_guard := (CEq, 0); ir_dispatch_body := [];\n"
           "  ir_on_full := FullContinue; ir_recv_body := []; ir_exit_test := ExitNotIn []; ir_raise_on_bad := false;\n"
           "  ir_kill_all_and_reraise := false; ir_returns_logs := false; ir_stop := []; ir_pmg_finally_stop := false;\n"
           "  ir_factory_first := false; ir_worker_loop := []; ir_epilogue := []; ir_epilogue_place := InFinally;\n"
           "  ir_catches_exception := false; ir_exit_status := 0; ir_other_handlers := []\n|}")


def translate(repo=None):
    ir = Translator(repo or core.REPO).translate()
    return HEAD + TYPES + "\n\nDefinition workers_ir : workers_ir_t :=\n" + ir_to_coq(ir) + ".\n", ir


def stub(reason):
    return ("(* harness/workers_ir.py could not translate the source: %s *)\n" % reason.replace("*)", "* )")[:300]
            + HEAD + TYPES + "\n\nDefinition workers_ir : workers_ir_t :=\n" + STUB_IR + ".\n")


def regen(repo=None):
    text, ir = translate(repo)
    return core.write_if_changed(core.COQ / "gen" / "WorkersIR.v", text), ir


if __name__ == "__main__":
    print(translate()[0])
