"""sym2coq - translate the CURRENT text of python/tak/symmetry/symmetry.py (and the two definitions of moves.py it
reaches: RDIRECTIONS, MoveType.from_direction) into Gallina: coq/gen/SymmetryGen.v, a shallow embedding written
against model/PySem.v (Python: outcomes Ok / Illegal / Crash, item assignment, unpacking, dict lookup) and
model/NumpyLite.v (numpy: the array operations used).  Nothing is executed; only `ast` is used.

Fail-closed: every construct outside the scheme below raises `Untranslatable`, `translate` then returns a stub
(so that every proof about the generated names stops compiling) together with the error text.

Scheme
* every function body is a monadic block (`x <- c ;; k` of PySem); an operation that can raise is bound in Python's
  evaluation order, a pure one is `let`-bound or inlined; assignment rebinds (shadows) the variable;
* `a, b, c = e` -> `py_unpack3`; `l[i] = v` (only on a list the function created with `list(..)`) evaluates v, then i,
  then `py_setitem`; `l.append(v)` (only on a list the function created) -> `l ++ [v]`;
* `for v in range(e)` / `for v in <list>` -> `Fixpoint <f>_for<k>` by structural recursion on the iterated list; its
  state is the variables the body assigns that exist before the loop, in order of definition; the other variables the
  body reads are parameters, in order of definition (so renaming locals does not change the shape);
* `if c: ...` (optional else) -> the variables assigned in a branch that exist before the `if` are returned by both
  branches and rebound; a variable first assigned inside a branch must not be read after the `if`;
* `[e for a in A for b in B]` -> nested `py_mapM` + `concat` (B is re-evaluated for each a, as in Python);
  `all(e for pat in L)` -> `forallb` (e must not raise);
* module level: `rot = ..`, `flip = ..`, `SYMMETRIES = [..]` become ONE block whose value is SYMMETRIES; the
  import lines, `__all__` and the load-time `assert all(abs(np.linalg.det(m)) == 1 ...)` are PINNED (their ast is
  compared with the expected one; the assert is a load-time check and not part of any function's result);
* calls: np.array(literal, dtype=int), np.identity(k, dtype=int), np.matmul (2-D x 2-D / 2-D x 1-D by the inferred
  types), np.stack([a, b, c], axis=-1), np.repeat, np.tile, np.arange, np.ones, int * array, np.transpose,
  .astype(int), .reshape((a, b, c)), ix[i, j], pos[i, j] (= GameGen.getitem, the translated Position.__getitem__),
  list(pos.board), attrs.evolve(pos, board=..) (= PySem.evolve_position), tak.Move(..), int(..),
  t.is_slide() / t.direction() (= the translated methods in gen/GameGen.v), tak.MoveType.from_direction (translated
  here from moves.py), tak.Position.from_squares(tak.Config(size=..), sqs, ply) (= GameGen.from_squares),
  `t != p` / `t == p` on positions (= Tak.position_eqb: attrs-generated __eq__ over size, stones, ply, board),
  tuple + (c,), + - * on ints.
Parameter and result types are fixed by position in TARGETS; local types are inferred."""
import ast
import hashlib
from pathlib import Path


class Untranslatable(Exception):
    pass


def bail(node, why):
    line = getattr(node, "lineno", "?")
    raise Untranslatable(f"line {line}: {why}: {ast.dump(node)[:200] if isinstance(node, ast.AST) else node}")


# ---------------------------------------------------------------------------------------------------------------------
# types
# ---------------------------------------------------------------------------------------------------------------------
ATOMS = {"Z": "Z", "bool": "bool", "arr1": "list Z", "arr2": "list (list Z)", "arr3": "list (list (list Z))",
         "pos": "position", "mv": "mv", "mtype": "mtype", "stack": "list piece", "optslides": "option (list Z)",
         "zpair": "Z * Z", "cfg": "config"}
BOARD = ("list", "stack")
VARIANTS = ("list", ("pair", "arr2", "pos"))


def ctype(t):
    if isinstance(t, str):
        return ATOMS[t]
    if t[0] == "list":
        return f"list ({ctype(t[1])})"
    if t[0] == "pair":
        return f"({ctype(t[1])}) * ({ctype(t[2])})"
    raise Untranslatable(f"type {t}")


TARGETS = {  # function -> (parameter types by position, result type)
    "transform_position": (["arr2", "pos"], "pos"),
    "transform_move": (["arr2", "mv", "Z"], "mv"),
    "symmetries": (["pos"], VARIANTS),
}
# identifiers of Tak / PySem / NumpyLite that the generated code uses as globals: a Python local of that name is renamed
RESERVED = {"size", "board", "ply", "mx", "my", "mt", "mslides", "flip", "move", "type", "ret", "bind", "len", "it",
            "map", "concat", "fst", "snd", "length", "repeat", "position", "mv", "mtype", "list", "option", "res",
            "direction", "is_slide", "from_direction", "RDIRECTIONS", "winner", "sq", "chunks", "zip3", "config"}


def cname(n):
    if n == "_":
        return "_"
    return n + "_" if (n in RESERVED or n.startswith("t") and n[1:].isdigit() or n.endswith("'")) else n


def zlit(n):
    return str(n) if n >= 0 else f"({n})"


# ---------------------------------------------------------------------------------------------------------------------
# one function (or the module block)
# ---------------------------------------------------------------------------------------------------------------------
class Fn:
    def __init__(self, name, globals_):
        self.name = name
        self.env = {}            # python name -> type, in order of definition
        self.owned = set()       # lists created by this function (list(..)) - the only ones that may be mutated
        self.aux = []            # finished Fixpoints
        self.tmp = 0
        self.loops = 0
        self.globals = globals_  # module-level names visible in functions: name -> (coq term of type res T, T)

    def fresh(self):
        self.tmp += 1
        return f"t{self.tmp}"

    # ---------------- expressions: returns (coq term, type); raising sub-expressions are appended to `pre` ----------
    def expr(self, e, pre):
        if isinstance(e, ast.Constant):
            if isinstance(e.value, bool) or not isinstance(e.value, int):
                bail(e, "constant")
            return zlit(e.value), "Z"
        if isinstance(e, ast.UnaryOp) and isinstance(e.op, ast.USub) and isinstance(e.operand, ast.Constant) \
                and isinstance(e.operand.value, int):
            return zlit(-e.operand.value), "Z"
        if isinstance(e, ast.Name):
            if e.id in self.env:
                return cname(e.id), self.env[e.id]
            if e.id in self.globals:
                term, t = self.globals[e.id]
                v = self.fresh()
                pre.append(("bind", v, term))
                return v, t
            bail(e, "unknown name")
        if isinstance(e, ast.Attribute):
            v, t = self.expr(e.value, pre)
            table = {("pos", "size"): ("size", "Z"), ("pos", "board"): ("board", BOARD), ("pos", "ply"): ("ply", "Z"),
                     ("mv", "x"): ("mx", "Z"), ("mv", "y"): ("my", "Z"), ("mv", "type"): ("mt", "mtype"),
                     ("mv", "slides"): ("mslides", "optslides")}
            if (t, e.attr) in table:
                f, rt = table[(t, e.attr)]
                return f"{f} {v}", rt
            bail(e, f"attribute .{e.attr} on {t}")
        if isinstance(e, ast.BinOp):
            return self.binop(e, pre)
        if isinstance(e, ast.Compare):
            if len(e.ops) != 1:
                bail(e, "chained comparison")
            a, ta = self.expr(e.left, pre)
            b, tb = self.expr(e.comparators[0], pre)
            if ta == tb == "pos" and isinstance(e.ops[0], (ast.Eq, ast.NotEq)):
                c = f"position_eqb {atom(a)} {atom(b)}"
                return (c if isinstance(e.ops[0], ast.Eq) else f"negb ({c})"), "bool"
            if ta == tb == "Z":
                ops = {ast.Eq: "=?", ast.Lt: "<?", ast.LtE: "<=?", ast.Gt: ">?", ast.GtE: ">=?"}
                if type(e.ops[0]) in ops:
                    return f"{atom(a)} {ops[type(e.ops[0])]} {atom(b)}", "bool"
                if isinstance(e.ops[0], ast.NotEq):
                    return f"negb ({atom(a)} =? {atom(b)})", "bool"
            bail(e, "comparison")
        if isinstance(e, ast.Tuple):
            if len(e.elts) != 2:
                bail(e, "tuple that is not a pair")
            a, ta = self.expr(e.elts[0], pre)
            b, tb = self.expr(e.elts[1], pre)
            return f"({a}, {b})", ("pair", ta, tb)
        if isinstance(e, ast.List):
            items = [self.expr(x, pre) for x in e.elts]
            if not items:
                bail(e, "empty list literal")
            t0 = items[0][1]
            if any(t != t0 for _, t in items):
                bail(e, "list literal of mixed types")
            lt = "arr1" if t0 == "Z" else ("list", t0)
            return "[" + "; ".join(c for c, _ in items) + "]", lt
        if isinstance(e, ast.Subscript):
            v, t = self.expr(e.value, pre)
            if isinstance(e.slice, ast.Tuple) and len(e.slice.elts) == 2:
                i, ti = self.expr(e.slice.elts[0], pre)
                j, tj = self.expr(e.slice.elts[1], pre)
                if ti == tj == "Z" and t == "arr3":
                    return self.hoist(f"np_getitem2 {atom(v)} {atom(i)} {atom(j)}", pre), "arr1"
                if ti == tj == "Z" and t == "pos":      # Position.__getitem__, translated in gen/GameGen.v
                    return self.hoist(f"GameGen.getitem {atom(v)} ({i}, {j})", pre), "stack"
            bail(e, f"subscript on {t}")
        if isinstance(e, ast.ListComp):
            return self.listcomp(e, pre)
        if isinstance(e, ast.Call):
            return self.call(e, pre)
        bail(e, "expression")

    def hoist(self, term, pre):
        v = self.fresh()
        pre.append(("bind", v, term))
        return v

    def binop(self, e, pre):
        a, ta = self.expr(e.left, pre)
        # tuple + (c,)
        if isinstance(e.op, ast.Add) and ta == "zpair" and isinstance(e.right, ast.Tuple) and len(e.right.elts) == 1:
            c, tc = self.expr(e.right.elts[0], pre)
            if tc == "Z":
                return f"py_tuple2_snoc {atom(a)} {atom(c)}", "arr1"
        b, tb = self.expr(e.right, pre)
        ops = {ast.Add: "+", ast.Sub: "-", ast.Mult: "*"}
        if type(e.op) in ops and ta == tb == "Z":
            return f"{atom(a)} {ops[type(e.op)]} {atom(b)}", "Z"
        if isinstance(e.op, ast.Mult) and ta == "Z" and tb == "arr1":
            return f"np_scale {atom(a)} {atom(b)}", "arr1"
        bail(e, f"operator on {ta}, {tb}")

    def listcomp(self, e, pre):
        gens = e.generators
        if any(g.ifs or g.is_async for g in gens):
            bail(e, "comprehension with a condition")
        saved = dict(self.env)

        def level(k):
            """a term of type res (nested list) for generators k.. ; binds of the iterable are emitted at this level"""
            inner_pre = []
            if k == len(gens):
                c, t = self.expr(e.elt, inner_pre)
                return wrap(inner_pre, f"ret {atom(c)}"), t
            g = gens[k]
            it, tit = self.expr(g.iter, inner_pre)
            if not (isinstance(tit, tuple) and tit[0] == "list") or not isinstance(g.target, ast.Name):
                bail(e, "comprehension over something that is not a list / with a pattern")
            self.env[g.target.id] = tit[1]
            body, t = level(k + 1)
            term = f"py_mapM (fun {cname(g.target.id)} =>\n{indent(body, 2)}) {atom(it)}"
            return wrap(inner_pre, term), ("list", t)

        term, t = level(0)
        self.env = saved
        v = self.hoist(term, pre)
        for _ in range(len(gens) - 1):
            v, t = f"concat {atom(v)}", t[1]
            if not (isinstance(t, tuple) and t[0] == "list"):
                bail(e, "comprehension nesting")
        return v, t

    def call(self, e, pre):
        f = e.func
        kw = {k.arg: k.value for k in e.keywords}

        def is_attr(node, base, attr):
            return isinstance(node, ast.Attribute) and node.attr == attr and isinstance(node.value, ast.Name) \
                and node.value.id == base and base not in self.env

        def dtype_int():
            return set(kw) == {"dtype"} and isinstance(kw["dtype"], ast.Name) and kw["dtype"].id == "int"

        # ---- numpy
        if isinstance(f, ast.Attribute) and isinstance(f.value, ast.Name) and f.value.id == "np" and "np" not in self.env:
            n = f.attr
            if n == "array" and len(e.args) == 1 and dtype_int() and isinstance(e.args[0], ast.List):
                rows = []
                for r in e.args[0].elts:
                    if not isinstance(r, ast.List):
                        bail(e, "np.array of something that is not a literal list of rows")
                    rows.append("[" + "; ".join(self.intlit(x) for x in r.elts) + "]")
                return self.hoist("np_array [" + "; ".join(rows) + "]", pre), "arr2"
            if n == "identity" and len(e.args) == 1 and dtype_int():
                k, tk = self.expr(e.args[0], pre)
                if tk == "Z":
                    return self.hoist(f"np_identity {atom(k)}", pre), "arr2"
            if n == "matmul" and len(e.args) == 2 and not kw:
                a, ta = self.expr(e.args[0], pre)
                b, tb = self.expr(e.args[1], pre)
                if ta == "arr2" and tb == "arr2":
                    return self.hoist(f"np_matmul {atom(a)} {atom(b)}", pre), "arr2"
                if ta == "arr2" and tb == "arr1":
                    return self.hoist(f"np_matvec {atom(a)} {atom(b)}", pre), "arr1"
            if n == "stack" and len(e.args) == 1 and set(kw) == {"axis"} and self.intlit(kw["axis"]) == "(-1)" \
                    and isinstance(e.args[0], ast.List) and len(e.args[0].elts) == 3:
                parts = [self.expr(x, pre) for x in e.args[0].elts]
                if all(t == "arr1" for _, t in parts):
                    return self.hoist("np_stack_last3 " + " ".join(atom(c) for c, _ in parts), pre), "arr2"
            if n in ("repeat", "tile") and len(e.args) == 2 and not kw:
                a, ta = self.expr(e.args[0], pre)
                k, tk = self.expr(e.args[1], pre)
                if ta == "arr1" and tk == "Z":
                    return self.hoist(f"np_{n} {atom(a)} {atom(k)}", pre), "arr1"
            if n == "arange" and len(e.args) == 1 and not kw:
                k, tk = self.expr(e.args[0], pre)
                if tk == "Z":
                    return f"np_arange {atom(k)}", "arr1"
            if n == "ones" and len(e.args) == 1 and not kw:
                k, tk = self.expr(e.args[0], pre)
                if tk == "Z":
                    return self.hoist(f"np_ones {atom(k)}", pre), "arr1"
            if n == "transpose" and len(e.args) == 1 and not kw:
                a, ta = self.expr(e.args[0], pre)
                if ta == "arr2":
                    return self.hoist(f"np_transpose {atom(a)}", pre), "arr2"
            bail(e, "numpy call outside NumpyLite")
        # ---- attrs.evolve(pos, board=sqs)
        if is_attr(f, "attrs", "evolve") and len(e.args) == 1 and set(kw) == {"board"}:
            p, tp = self.expr(e.args[0], pre)
            b, tb = self.expr(kw["board"], pre)
            if tp == "pos" and tb == BOARD:
                return f"evolve_position {atom(p)} (set_d_board delta_empty {atom(b)})", "pos"
            bail(e, "attrs.evolve")
        # ---- tak.*
        if is_attr(f, "tak", "Move") and len(e.args) == 4 and not kw:
            parts = [self.expr(x, pre) for x in e.args]
            if [t for _, t in parts] == ["Z", "Z", "mtype", "optslides"]:
                return "mkMove " + " ".join(atom(c) for c, _ in parts), "mv"
            bail(e, "tak.Move argument types")
        if is_attr(f, "tak", "Config") and not e.args and set(kw) == {"size"}:
            s, ts = self.expr(kw["size"], pre)
            if ts == "Z":
                return f"mkCfg {atom(s)} None None", "cfg"
        if isinstance(f, ast.Attribute) and is_attr(f.value, "tak", "MoveType") and f.attr == "from_direction" \
                and len(e.args) == 2 and not kw:
            a, ta = self.expr(e.args[0], pre)
            b, tb = self.expr(e.args[1], pre)
            if ta == tb == "Z":
                return self.hoist(f"from_direction {atom(a)} {atom(b)}", pre), "mtype"
        if isinstance(f, ast.Attribute) and is_attr(f.value, "tak", "Position") and f.attr == "from_squares" \
                and len(e.args) == 3 and not kw:
            parts = [self.expr(x, pre) for x in e.args]
            if [t for _, t in parts] == ["cfg", BOARD, "Z"]:   # the translated classmethod of gen/GameGen.v
                return self.hoist("GameGen.from_squares " + " ".join(atom(c) for c, _ in parts), pre), "pos"
        # ---- builtins
        if isinstance(f, ast.Name) and f.id not in self.env:
            if f.id == "int" and len(e.args) == 1 and not kw:
                a, ta = self.expr(e.args[0], pre)
                if ta == "Z":       # int() of a numpy integer
                    return a, "Z"
            if f.id == "list" and len(e.args) == 1 and not kw:
                a, ta = self.expr(e.args[0], pre)
                if isinstance(ta, tuple) and ta[0] == "list":
                    return a, ("owned", ta)
            if f.id == "all" and len(e.args) == 1 and not kw and isinstance(e.args[0], ast.GeneratorExp):
                g = e.args[0]
                if len(g.generators) == 1 and not g.generators[0].ifs:
                    gen = g.generators[0]
                    it, tit = self.expr(gen.iter, pre)
                    if isinstance(tit, tuple) and tit[0] == "list":
                        saved = dict(self.env)
                        pat = self.bind_pattern(gen.target, tit[1])
                        inner = []
                        c, tc = self.expr(g.elt, inner)
                        self.env = saved
                        if inner or tc != "bool":
                            bail(e, "all(..) over an element expression that can raise / is not a bool")
                        return f"forallb (fun {pat} => {c}) {atom(it)}", "bool"
        # ---- methods
        if isinstance(f, ast.Attribute):
            v, tv = self.expr(f.value, pre)
            if f.attr == "astype" and len(e.args) == 1 and isinstance(e.args[0], ast.Name) and e.args[0].id == "int" \
                    and not kw and tv in ("arr1", "arr2", "arr3"):
                return f"np_astype_int {atom(v)}", tv
            if f.attr == "reshape" and len(e.args) == 1 and isinstance(e.args[0], ast.Tuple) \
                    and len(e.args[0].elts) == 3 and not kw and tv == "arr2":
                ds = [self.expr(x, pre) for x in e.args[0].elts]
                if all(t == "Z" for _, t in ds):
                    return self.hoist(f"np_reshape3 {atom(v)} " + " ".join(atom(c) for c, _ in ds), pre), "arr3"
            if f.attr == "is_slide" and not e.args and not kw and tv == "mtype":
                return f"GameGen.is_slide {atom(v)}", "bool"
            if f.attr == "direction" and not e.args and not kw and tv == "mtype":
                return self.hoist(f"GameGen.direction {atom(v)}", pre), "zpair"
        bail(e, "call")

    def intlit(self, x):
        if isinstance(x, ast.Constant) and isinstance(x.value, int) and not isinstance(x.value, bool):
            return zlit(x.value)
        if isinstance(x, ast.UnaryOp) and isinstance(x.op, ast.USub) and isinstance(x.operand, ast.Constant) \
                and isinstance(x.operand.value, int):
            return zlit(-x.operand.value)
        bail(x, "integer literal expected")

    def bind_pattern(self, target, t):
        """pattern for a loop / comprehension variable of type t; extends env"""
        if isinstance(target, ast.Name):
            if target.id != "_":
                self.env[target.id] = t
            return cname(target.id)
        if isinstance(target, ast.Tuple) and isinstance(t, tuple) and t[0] == "pair" and len(target.elts) == 2:
            a = self.bind_pattern(target.elts[0], t[1])
            b = self.bind_pattern(target.elts[1], t[2])
            return f"'({a}, {b})"
        bail(target, "loop pattern")

    # ---------------- statements ----------------
    def block(self, stmts, tail):
        """code of type res T for the statements followed by tail() (None: the block must end in `return`)"""
        if not stmts:
            if tail is None:
                raise Untranslatable(f"{self.name}: a path falls off the end of the function")
            return tail()
        s, rest = stmts[0], stmts[1:]
        pre = []
        if isinstance(s, ast.Return):
            if rest or s.value is None:
                bail(s, "return in the middle / bare return")
            if tail is not None:
                bail(s, "return inside a loop or a branch")
            c, t = self.expr(s.value, pre)
            self.result_type = strip_owned(t)
            return wrap(pre, f"ret {atom(c)}")
        if isinstance(s, ast.Assign) and len(s.targets) == 1:
            tg = s.targets[0]
            if isinstance(tg, ast.Name) and isinstance(s.value, ast.List) and not s.value.elts:
                # `x = []`: typed by the function's result when x is what the function returns
                if not (getattr(self, "returns_name", None) == tg.id and isinstance(self.rtype, tuple)
                        and self.rtype[0] == "list"):
                    bail(s, "empty list literal whose element type is not known")
                self.env[tg.id] = self.rtype
                self.owned.add(tg.id)
                return f"let {cname(tg.id)} := [] in\n{self.block(rest, tail)}"
            if isinstance(tg, ast.Name):
                c, t = self.expr(s.value, pre)
                if isinstance(t, tuple) and t[0] == "owned":
                    t = t[1]
                    self.owned.add(tg.id)
                else:
                    self.owned.discard(tg.id)
                self.env[tg.id] = t
                return wrap(pre, f"let {cname(tg.id)} := {c} in\n{self.block(rest, tail)}")
            if isinstance(tg, ast.Tuple) and len(tg.elts) == 3 and all(isinstance(x, ast.Name) for x in tg.elts):
                c, t = self.expr(s.value, pre)
                if t != "arr1":
                    bail(s, "3-unpacking of something that is not a 1-D array")
                for x in tg.elts:
                    if x.id != "_":
                        self.env[x.id] = "Z"
                names = ", ".join(cname(x.id) for x in tg.elts)
                return wrap(pre, f"'({names}) <- py_unpack3 {atom(c)} ;;\n{self.block(rest, tail)}")
            if isinstance(tg, ast.Subscript) and isinstance(tg.value, ast.Name) and tg.value.id in self.owned:
                v, tv = self.expr(s.value, pre)              # Python evaluates the right-hand side first
                i, ti = self.expr(tg.slice, pre)
                lt = self.env[tg.value.id]
                if ti != "Z" or lt != ("list", strip_owned(tv)):
                    bail(s, "item assignment types")
                n = cname(tg.value.id)
                return wrap(pre, f"{n} <- py_setitem {n} ({i}) {atom(v)} ;;\n{self.block(rest, tail)}")
            bail(s, "assignment target")
        if isinstance(s, ast.Expr) and isinstance(s.value, ast.Call) and isinstance(s.value.func, ast.Attribute) \
                and s.value.func.attr == "append" and isinstance(s.value.func.value, ast.Name) \
                and s.value.func.value.id in self.owned and len(s.value.args) == 1 and not s.value.keywords:
            n = s.value.func.value.id
            v, tv = self.expr(s.value.args[0], pre)
            if self.env[n] != ("list", tv):
                bail(s, "append of a value of another type")
            return wrap(pre, f"let {cname(n)} := {cname(n)} ++ [{v}] in\n{self.block(rest, tail)}")
        if isinstance(s, ast.For):
            return self.for_(s, rest, tail)
        if isinstance(s, ast.If):
            return self.if_(s, rest, tail)
        bail(s, "statement")

    def assigned(self, stmts):
        out = []
        for n in ast.walk(ast.Module(body=list(stmts), type_ignores=[])):
            name = None
            if isinstance(n, ast.Assign):
                for tg in n.targets:
                    for x in ast.walk(tg):
                        if isinstance(x, ast.Name) and isinstance(x.ctx, ast.Store):
                            out.append(x.id)
                        if isinstance(tg, ast.Subscript) and isinstance(tg.value, ast.Name):
                            out.append(tg.value.id)
            elif isinstance(n, ast.For):
                for x in ast.walk(n.target):
                    if isinstance(x, ast.Name):
                        out.append(x.id)
            elif isinstance(n, ast.Call) and isinstance(n.func, ast.Attribute) and n.func.attr == "append" \
                    and isinstance(n.func.value, ast.Name):
                name = n.func.value.id
            elif isinstance(n, (ast.AugAssign, ast.AnnAssign, ast.NamedExpr, ast.Delete, ast.Global, ast.Nonlocal,
                                ast.With, ast.While, ast.Try, ast.FunctionDef, ast.Lambda)):
                bail(n, "statement kind")
            if name:
                out.append(name)
        return out

    def reads(self, stmts):
        return {n.id for n in ast.walk(ast.Module(body=list(stmts), type_ignores=[])) if isinstance(n, ast.Name)}

    def state_tuple(self, names):
        if not names:
            return "tt"
        return names[0] if len(names) == 1 else "(" + ", ".join(names) + ")"

    def for_(self, s, rest, tail):
        if s.orelse:
            bail(s, "for-else")
        pre = []
        it = s.iter
        if isinstance(it, ast.Call) and isinstance(it.func, ast.Name) and it.func.id == "range" and len(it.args) == 1 \
                and not it.keywords:
            n, tn = self.expr(it.args[0], pre)
            if tn != "Z":
                bail(s, "range of a non-int")
            iter_term, elt = f"(py_range {atom(n)})", "Z"
        else:
            c, t = self.expr(it, pre)
            if not (isinstance(t, tuple) and t[0] == "list"):
                bail(s, "for over something that is not a list")
            if isinstance(it, ast.Name) and it.id in self.assigned(s.body):
                bail(s, "the loop body changes the list it iterates")
            iter_term, elt = atom(c), t[1]
        before = list(self.env)
        asg = self.assigned(s.body)
        state = [v for v in before if v in asg]
        used = self.reads(s.body)
        params = [v for v in before if v in used and v not in state]
        self.loops += 1
        fname = f"{self.name}_for{self.loops}"
        saved_env, saved_owned = dict(self.env), set(self.owned)
        pat = self.bind_pattern(s.target, elt)
        for x in ast.walk(s.target):
            if isinstance(x, ast.Name) and x.id in state + params:
                bail(s, "loop variable shadows a variable the body uses")
        st_names = [cname(v) for v in state]
        call_args = " ".join([cname(v) for v in params] + st_names)
        body = self.block(list(s.body), lambda: f"{fname} {call_args} it'".replace("  ", " "))
        st_type = "unit" if not state else " * ".join(f"({ctype(saved_env[v])})" for v in state)
        for v in state:
            if self.env.get(v) != saved_env[v]:
                bail(s, f"loop changes the type of {v}")
        sig = "".join(f" ({cname(v)} : {ctype(saved_env[v])})" for v in params + state)
        self.aux.append(
            f"Fixpoint {fname}{sig} (it : list ({ctype(elt)})) {{struct it}} : res ({st_type}) :=\n"
            f"  match it with\n  | [] => ret {self.state_tuple(st_names)}\n  | {pat.lstrip(chr(39))} :: it' =>\n"
            f"{indent(body, 4)}\n  end.")
        self.env, self.owned = saved_env, saved_owned
        lhs = self.state_tuple(st_names)
        if len(st_names) > 1:
            lhs = "'" + lhs
        if not st_names:
            lhs = "_"
        return wrap(pre, f"{lhs} <- {fname} {call_args} {iter_term} ;;\n{self.block(rest, tail)}")

    def if_(self, s, rest, tail):
        pre = []
        c, tc = self.expr(s.test, pre)
        if tc != "bool":
            bail(s, "condition that is not a bool")
        before = list(self.env)
        asg = self.assigned(s.body) + self.assigned(s.orelse)
        state = [v for v in before if v in asg]
        new = [v for v in asg if v not in before]
        later = self.reads(rest)
        for v in new:
            if v in later:
                bail(s, f"{v} is first assigned inside a branch and read after it")
        st_names = [cname(v) for v in state]
        ret_state = lambda: f"ret {self.state_tuple(st_names)}"     # noqa: E731
        saved_env, saved_owned = dict(self.env), set(self.owned)
        a = self.block(list(s.body), ret_state)
        self.env, self.owned = dict(saved_env), set(saved_owned)
        b = self.block(list(s.orelse), ret_state)
        self.env, self.owned = saved_env, saved_owned
        lhs = self.state_tuple(st_names)
        if len(st_names) > 1:
            lhs = "'" + lhs
        if not st_names:
            lhs = "_"
        return wrap(pre, f"{lhs} <- (\n  if {c} then\n{indent(a, 4)}\n  else\n{indent(b, 4)}) ;;\n{self.block(rest, tail)}")


def strip_owned(t):
    return t[1] if isinstance(t, tuple) and t[0] == "owned" else t


def atom(c):
    c = c.strip()
    simple = c.replace("_", "a").replace("'", "a").replace(".", "a").isalnum() or (c.startswith("(") and c.endswith(")")
                                                                                    and balanced(c[1:-1])) \
        or (c.startswith("[") and c.endswith("]"))
    return c if simple else f"({c})"


def balanced(s):
    d = 0
    for ch in s:
        d += ch == "("
        d -= ch == ")"
        if d < 0:
            return False
    return d == 0


def wrap(pre, code):
    out = ""
    for kind, v, term in pre:
        if ";;" in term or "\n" in term:
            out += f"{v} <- (\n{indent(term, 2)}) ;;\n"
        else:
            out += f"{v} <- {term} ;;\n"
    return out + code


def indent(code, k):
    return "\n".join(" " * k + line for line in code.splitlines())


# ---------------------------------------------------------------------------------------------------------------------
# pinned shapes
# ---------------------------------------------------------------------------------------------------------------------
PIN_ASSERT = "assert all(abs(np.linalg.det(m)) == 1 for m in SYMMETRIES)"
PIN_ALL = '__all__ = ["SYMMETRIES", "transform_position", "transform_move", "symmetries"]'
PIN_IMPORTS = ["import attrs", "import numpy as np", "import tak"]
PIN_RDIRECTIONS = "RDIRECTIONS = dict((v, k) for (k, v) in DIRECTIONS.items())"
PIN_FROM_DIRECTION = "@staticmethod\ndef from_direction(dx, dy):\n    return RDIRECTIONS[(dx, dy)]"


def same(node, text):
    return ast.dump(node) == ast.dump(ast.parse(text).body[0])


def check_moves(src):
    """RDIRECTIONS and MoveType.from_direction of moves.py have the shape that the two generated definitions mirror"""
    tree = ast.parse(src)
    rd = [n for n in tree.body if isinstance(n, ast.Assign) and any(isinstance(t, ast.Name) and t.id == "RDIRECTIONS"
                                                                     for t in n.targets)]
    if len(rd) != 1 or not same(rd[0], PIN_RDIRECTIONS):
        raise Untranslatable("moves.py: RDIRECTIONS is not `dict((v, k) for (k, v) in DIRECTIONS.items())`")
    if any(isinstance(n, (ast.AugAssign, ast.Delete)) for n in ast.walk(tree)) or \
            sum(1 for n in ast.walk(tree) if isinstance(n, ast.Name) and n.id == "RDIRECTIONS") != 2:
        raise Untranslatable("moves.py: RDIRECTIONS is used / changed elsewhere")
    cls = [n for n in tree.body if isinstance(n, ast.ClassDef) and n.name == "MoveType"]
    fd = [n for c in cls for n in c.body if isinstance(n, ast.FunctionDef) and n.name == "from_direction"]
    if len(fd) != 1 or not same(fd[0], PIN_FROM_DIRECTION):
        raise Untranslatable("moves.py: MoveType.from_direction is not `return RDIRECTIONS[(dx, dy)]`")


HEADER = """(* GENERATED by harness/sym2coq.py from python/tak/symmetry/symmetry.py (and RDIRECTIONS / MoveType.from_direction
   of python/tak/moves.py) of the tree under test - do not edit.  A shallow embedding written against model/PySem.v
   (Python semantics) and model/NumpyLite.v (numpy semantics); Position.__getitem__, MoveType.is_slide / direction,
   DIRECTIONS and Position.from_squares are the translated ones of gen/GameGen.v.
   sha256 of the sources: %s *)
From Coq Require Import ZArith String List Bool.
From TV Require Import model.Tak model.PySem model.NumpyLite.
From TV Require gen.GameGen.
Import ListNotations.
Open Scope Z_scope.

(* moves.py: RDIRECTIONS = dict((v, k) for (k, v) in DIRECTIONS.items()) - the entries in insertion order; a later
   entry with an equal key replaces the earlier one (py_dict_get_last) *)
Definition RDIRECTIONS : list ((Z * Z) * mtype) := map (fun kv => (snd kv, fst kv)) GameGen.DIRECTIONS.
(* moves.py: MoveType.from_direction(dx, dy) = RDIRECTIONS[(dx, dy)]; KeyError when absent *)
Definition from_direction (dx dy : Z) : res mtype :=
  py_dict_get_last (pair_eqb Z.eqb Z.eqb) RDIRECTIONS (dx, dy).
"""

STUB = """(* harness/sym2coq.py could NOT translate the current python/tak/symmetry/symmetry.py:
   %s
   This stub makes every proof about the generated functions fail to compile. *)
Definition translation_failed : unit := tt.
"""


def translate_text(sym_src, moves_src):
    check_moves(moves_src)
    tree = ast.parse(sym_src)
    mod_stmts, funcs = [], {}
    for n in tree.body:
        if isinstance(n, (ast.Import, ast.ImportFrom)):
            if not any(same(n, t) for t in PIN_IMPORTS):
                bail(n, "unexpected import")
        elif isinstance(n, ast.Assert):
            if not same(n, PIN_ASSERT):
                bail(n, "module-level assert differs from the pinned load-time check")
        elif isinstance(n, ast.Assign) and same(n, PIN_ALL):
            pass
        elif isinstance(n, ast.Assign):
            mod_stmts.append(n)
        elif isinstance(n, ast.FunctionDef):
            if n.decorator_list or n.args.defaults or n.args.kwonlyargs or n.args.vararg or n.args.kwarg:
                bail(n, "function signature")
            funcs[n.name] = n
        else:
            bail(n, "module-level statement")
    if set(funcs) != set(TARGETS):
        raise Untranslatable(f"functions {sorted(funcs)} (expected {sorted(TARGETS)})")
    assigned_mod = [t.id for n in mod_stmts for t in n.targets if isinstance(t, ast.Name)]
    if "SYMMETRIES" not in assigned_mod or assigned_mod[-1] != "SYMMETRIES":
        raise Untranslatable("module level: SYMMETRIES must be the last module-level assignment")
    out = []
    # module block: its value is SYMMETRIES
    m = Fn("SYMMETRIES", {})
    body = m.block(mod_stmts + [ast.Return(value=ast.Name(id="SYMMETRIES", ctx=ast.Load()))], None)
    if m.result_type != ("list", "arr2"):
        raise Untranslatable(f"SYMMETRIES has type {m.result_type}")
    out += m.aux
    out.append("(* symmetry.py: the module-level statements up to SYMMETRIES *)\n"
               f"Definition SYMMETRIES : res ({ctype(m.result_type)}) :=\n{indent(body, 2)}.")
    globals_ = {"SYMMETRIES": ("SYMMETRIES", ("list", "arr2"))}
    for name in [n for n in funcs]:      # in source order (a function may call an earlier one)
        node = funcs[name]
        ptypes, rtype = TARGETS[name]
        if len(node.args.args) != len(ptypes):
            bail(node, "number of parameters")
        f = Fn(name, dict(globals_))
        for a, t in zip(node.args.args, ptypes):
            f.env[a.arg] = t
        # calls to the functions translated so far
        f.rtype = rtype
        last = body_without_doc(node)[-1]
        f.returns_name = last.value.id if isinstance(last, ast.Return) and isinstance(last.value, ast.Name) else None
        body = f.block(body_without_doc(node), None)
        if f.result_type != rtype:
            raise Untranslatable(f"{name} returns {f.result_type}, expected {rtype}")
        out += f.aux
        sig = "".join(f" ({cname(a.arg)} : {ctype(t)})" for a, t in zip(node.args.args, ptypes))
        out.append(f"(* symmetry.py: {name} *)\nDefinition {name}{sig} : res ({ctype(rtype)}) :=\n{indent(body, 2)}.")
        CALLABLE[name] = (ptypes, rtype)
    return "\n\n".join(out) + "\n"


CALLABLE = {}


def body_without_doc(node):
    b = list(node.body)
    if b and isinstance(b[0], ast.Expr) and isinstance(b[0].value, ast.Constant) and isinstance(b[0].value.value, str):
        b = b[1:]
    return b


# calls between the translated functions (symmetries -> transform_position)
_orig_call = Fn.call


def _call_with_locals(self, e, pre):
    f = e.func
    if isinstance(f, ast.Name) and f.id in CALLABLE and f.id not in self.env and not e.keywords:
        ptypes, rtype = CALLABLE[f.id]
        parts = [self.expr(x, pre) for x in e.args]
        if [strip_owned(t) for _, t in parts] == ptypes:
            return self.hoist(f"{f.id} " + " ".join(atom(c) for c, _ in parts), pre), rtype
        bail(e, f"call of {f.id} with other argument types")
    return _orig_call(self, e, pre)


Fn.call = _call_with_locals


def translate(repo_python):
    """-> (coq text, error or None)"""
    repo_python = Path(repo_python)
    CALLABLE.clear()
    try:
        sym_src = (repo_python / "tak" / "symmetry" / "symmetry.py").read_text()
        moves_src = (repo_python / "tak" / "moves.py").read_text()
        digest = hashlib.sha256((sym_src + "\0" + moves_src).encode()).hexdigest()[:16]
        body = translate_text(sym_src, moves_src)
        return HEADER % digest + "\n" + body, None
    except (Untranslatable, SyntaxError, OSError, KeyError, AttributeError, IndexError, TypeError) as ex:
        msg = f"{type(ex).__name__}: {ex}"
        return STUB % msg.replace("*)", "* )"), msg


if __name__ == "__main__":
    import sys
    text, err = translate(sys.argv[1] if len(sys.argv) > 1 else "/repo/python")
    print(text)
    if err:
        print("ERROR", err, file=sys.stderr)
        sys.exit(1)
