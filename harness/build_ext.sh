#!/bin/bash
# Build the real python/ext/tak.cpp of the repository under test into
# /verif/build/ext/<sha256>/tak_ext*.so (cached by source hash). Prints the directory.
set -e
REPO="${VERIF_REPO:-/repo}"
SRC="$REPO/python/ext/tak.cpp"
H=$(sha256sum "$SRC" | cut -c1-16)
ROOT="$(cd "$(dirname "$0")/.." && pwd)"
OUT="$ROOT/build/ext/$H"
TORCH=/venv/lib/python3.12/site-packages/torch
EXT=$(/venv/bin/python -c "import sysconfig;print(sysconfig.get_config_var('EXT_SUFFIX'))")
if [ ! -f "$OUT/tak_ext$EXT" ]; then
  mkdir -p "$OUT"
  TMP=$(mktemp -d "$ROOT/build/ext/tmp.XXXXXX")
  g++ -O2 -shared -fPIC -std=c++20 -DTORCH_EXTENSION_NAME=tak_ext -DTORCH_API_INCLUDE_EXTENSION_H \
    -I$TORCH/include -I$TORCH/include/torch/csrc/api/include \
    -I/root/.pyenv/versions/3.12.1/include/python3.12 \
    "$SRC" -o "$TMP/tak_ext$EXT" -L$TORCH/lib -ltorch -ltorch_cpu -lc10 -ltorch_python \
    -Wl,-rpath,$TORCH/lib >"$TMP/log" 2>&1 || { cat "$TMP/log" >&2; rm -rf "$TMP"; exit 2; }
  mv "$TMP/tak_ext$EXT" "$OUT/"
  rm -rf "$TMP"
fi
echo "$OUT"
