"""T01 translator (fail-closed, Python `ast`): a SHALLOW EMBEDDING of the rules code into Gallina.

Reads the CURRENT source text of python/tak/pieces.py, moves.py and game.py of the tree under test and writes
coq/gen/GameGen.v: one Gallina function per Python function (`Position.move`, `_move_place`, `_move_slide`,
`to_move`, `in_bounds`, `__getitem__`, `flat_counts`, `flats_winner`, `winner`, `all_moves`;
`moves._compute_slides`, the module-level construction of `ALL_SLIDES`, `all_moves_for_size`,
`MoveType.is_slide/direction`, `DIRECTIONS`, `Color.flip`, the enum values), written against coq/model/PySem.v,
which gives the Python semantics of every construct (indexing with negative indices and IndexError, slices with
clamping, item assignment, exceptions as outcomes `Ok v | Illegal | Crash kind`).  `Position.has_road` / `_walk`
are NOT translated: `self.has_road()` becomes the already modelled `Road.has_road`.

How Python becomes Gallina (everything else raises `Untranslatable`, the check then records a broken obligation):
  * a function body is a sequence of statements over mutable locals; every (re)assignment becomes a `let` / monadic
    bind that shadows the previous binding; `l[i] = v`, `l.append(v)`, `d["k"] = v`, `x += e` rebind the variable
    with the updated value (allowed only on lists the function created itself: `list(...)`, a slice, a literal,
    a comprehension, `+`);
  * an expression that can raise (indexing, tuple indexing, getattr, a call of a function that can raise,
    iterating something that may be None, Enum(value)) is bound in evaluation order; `and` / `or` whose right
    operand can raise evaluate it only when Python would;
  * `raise IllegalMove(..)` -> `Illegal`; `raise <Other>(..)` / a failing `assert` -> `Crash <Other>`;
  * `if` whose branches both fall through: the variables assigned in a branch are returned as a tuple and rebound;
    a branch that ends in raise / return / continue does not reach the rest, so the rest is placed in the other;
  * `for v in it:` -> a `Fixpoint <function>_for<k>` by structural recursion over the list iterated, its state the
    variables assigned in the body that exist before the loop (in order of definition); `continue` is the
    recursive call; `break` / `return` inside a loop are refused; the list iterated must not be changed by the body;
  * `delta["board"] = newboard` stores a REFERENCE: later `newboard[i] = ..` are visible through delta.  The
    translator resolves it when the function exits (and refuses a rebinding of `newboard` in between).
  * a function that cannot raise is emitted with a plain result type, otherwise with `res T`.

The types of parameters and results are fixed in TARGETS (by position); locals are inferred."""
import ast
import hashlib
import sys
from pathlib import Path


class Untranslatable(Exception):
    pass


def _src(node):
    try:
        return ast.unparse(node)
    except Exception:  # noqa
        return "<?>"


def fail(node, why):
    raise Untranslatable(f"{why}: line {getattr(node, 'lineno', '?')}: {_src(node)[:160]}")


# ---------------------------------------------------------------------------------------------------------------------
# types
# ---------------------------------------------------------------------------------------------------------------------
INT, BOOL, STR, NONE = "int", "bool", "str", "none"
COLOR, KIND, MTYPE, PIECE, MOVE, POS, SC, REASON, DELTA = ("Color", "Kind", "MoveType", "Piece", "Move", "Position",
                                                           "StoneCounts", "WinReason", "delta")
CONFIG, CHAR = "Config", "char"
PYVAL = "pyval"
FLOAT, TREE, CHILD, PROBS, ENGINE, SPCFG, TRANSCRIPT = "float", "tree", "child", "probs", "engine", "spcfg", "Transcript"


def CLS(name):
    """the `cls` parameter of a classmethod: not a Coq parameter"""
    return ("classref", name)


def L(t):
    return ("list", t)


def T(*ts):
    return ("tuple",) + tuple(ts)


def O(t):
    return ("opt", t)


COQ_BASE = {INT: "Z", BOOL: "bool", STR: "string", COLOR: "color", KIND: "kind", MTYPE: "mtype", PIECE: "piece",
            MOVE: "mv", POS: "position", SC: "stonecounts", REASON: "reason", DELTA: "delta", CONFIG: "config", CHAR: "Z",
            FLOAT: "Q", TREE: "otree", CHILD: "mv * position", PROBS: "oprobs", ENGINE: "engine", SPCFG: "sp_config",
            TRANSCRIPT: "transcript", PYVAL: "pyval"}


def coq_type(t, top=True):
    if t is None:
        raise Untranslatable("a value whose element type could not be inferred")
    if isinstance(t, str):
        if t not in COQ_BASE:
            raise Untranslatable(f"no Coq type for {t}")
        return COQ_BASE[t] if top or " " not in COQ_BASE[t] else f"({COQ_BASE[t]})"
    if t[0] == "list":
        s = "list " + coq_type(t[1], False)
    elif t[0] == "opt":
        s = "option " + coq_type(t[1], False)
    elif t[0] == "tuple":
        s = " * ".join(coq_type(x, False) for x in t[1:])
    elif t[0] == "set":
        s = "list " + coq_type(t[1], False)
    elif t[0] in ("dict", "dictc"):
        s = f"list ({coq_type(t[1], False)} * {coq_type(t[2], False)})"
    else:
        raise Untranslatable(f"no Coq type for {t}")
    return s if top else f"({s})"


def unify(a, b, node=None):
    """least defined type of two partially known types (None = unknown)"""
    if a is None:
        return b
    if b is None:
        return a
    if a == b:
        return a
    if isinstance(a, tuple) and isinstance(b, tuple) and a[0] == b[0] and len(a) == len(b):
        return (a[0],) + tuple(unify(x, y, node) for x, y in zip(a[1:], b[1:]))
    if node is not None:
        fail(node, f"type mismatch {a} / {b}")
    raise Untranslatable(f"type mismatch {a} / {b}")


def known(t):
    if t is None:
        return False
    if isinstance(t, tuple):
        return all(known(x) for x in t[1:])
    return True


# ---------------------------------------------------------------------------------------------------------------------
# printing helpers
# ---------------------------------------------------------------------------------------------------------------------
def atomic(s):
    s = s.strip()
    if not s:
        return True
    if s[0] == '"':
        return s.endswith('"%string') and s.count('"') == 2
    if s[0] in "([":
        close = {"(": ")", "[": "]"}[s[0]]
        depth = 0
        for i, c in enumerate(s):
            if c in "([":
                depth += 1
            elif c in ")]":
                depth -= 1
                if depth == 0:
                    return i == len(s) - 1 and c == close
        return False
    return not any(c.isspace() for c in s) and not s.startswith("-")


def par(s):
    return s if atomic(s) else f"({s})"


KEYWORDS = {"if", "then", "else", "match", "with", "end", "fun", "let", "in", "mod"}


def is_app(s):
    """a plain application f a b ... (binds tighter than every infix operator)"""
    chunks, depth, cur, instr = [], 0, "", False
    for c in s.strip():
        if c == '"':
            instr = not instr
        if not instr:
            if c in "([":
                depth += 1
            elif c in ")]":
                depth -= 1
        if c.isspace() and depth == 0 and not instr:
            if cur:
                chunks.append(cur)
            cur = ""
        else:
            cur += c
    if cur:
        chunks.append(cur)
    return all(atomic(c) and c not in KEYWORDS and (c[0].isalnum() or c[0] in '_(["') for c in chunks)


def opd(s):
    """operand of an infix operator"""
    return s if atomic(s) or is_app(s) else f"({s})"


def app(f, *args):
    return " ".join([f] + [par(a) for a in args])


def zlit(n):
    return str(n) if n >= 0 else f"({n})"


def tuple_term(terms):
    return terms[0] if len(terms) == 1 else "(" + ", ".join(terms) + ")"


def pattern(names):
    return names[0] if len(names) == 1 else "'(" + ", ".join(names) + ")"


# names the generated text itself uses: a Python local with such a name gets a trailing underscore
RESERVED = set("""
in at as fun let match end with if then else return Type Set Prop fix cofix forall exists Definition Fixpoint struct
where for using mod
Z bool string nat list option pair fst snd Some None true false negb andb orb id map existsb forallb app seq
color kind piece stack position mv mtype reason stonecounts delta res exn
White Black Flat Standing Capstone Road Flats
PlaceFlat PlaceStanding PlaceCapstone SlideLeft SlideRight SlideUp SlideDown
mkPiece mkMove mkPos mkSC mkDelta pcolor pkind size ply board wstones wcaps bstones bcaps mx my mt mslides
color_eqb kind_eqb mtype_eqb reason_eqb zlen zsum upd sq getz updz has_road config mkCfg csize cpieces ccaps fuel fuel'
mk_position py_tuple2_update py_try py_unpack2 py_unpack3 py_list_repeat py_str_int py_int_str py_isdigit py_isascii
py_join py_split1 pystr ch pystr_eqb rev concat repeat py_uncons pair_eqb list_eqb py_opt_append
py_pop inl inr py_chr pyval VStr VInt py_str_val py_dict_get_default
py_int_sqrt_float py_tuple2_of_list py_mapM otree oprobs engine transcript sp_config answer Q
engine_analyze engine_tree_probs child_move child_position py_fdiv_int py_fabs py_fge tr_new py_zeros2 inject_Z py_enumerate py_dict_get_last mv_eqb
Ok Illegal Crash ret bind embed res_map len py_index py_getitem py_setitem py_bound py_slice truthy_list py_range
py_range2 py_sum py_iter_opt py_tuple2_get py_tuple2_list py_dict_get pos_stones sc_stones sc_caps py_getattr_sc
sc_evolve delta_empty set_d_ply set_d_stones set_d_board d_ply d_stones d_board evolve_position
IndexError TypeError ValueError KeyError AssertionError AttributeError ZeroDivisionError
it it'
""".split())
EXN = {"IndexError", "TypeError", "ValueError", "KeyError", "AssertionError", "AttributeError", "ZeroDivisionError"}

# ---------------------------------------------------------------------------------------------------------------------
# what is translated
# ---------------------------------------------------------------------------------------------------------------------
ENUMS = {  # python enum -> (module, coq type tag, {member: coq constructor})
    "Color": ("pieces", COLOR, {"WHITE": "White", "BLACK": "Black"}),
    "Kind": ("pieces", KIND, {"FLAT": "Flat", "STANDING": "Standing", "CAPSTONE": "Capstone"}),
    "MoveType": ("moves", MTYPE, {"PLACE_FLAT": "PlaceFlat", "PLACE_STANDING": "PlaceStanding",
                                  "PLACE_CAPSTONE": "PlaceCapstone", "SLIDE_LEFT": "SlideLeft",
                                  "SLIDE_RIGHT": "SlideRight", "SLIDE_UP": "SlideUp", "SLIDE_DOWN": "SlideDown"}),
    "WinReason": ("game", REASON, {"ROAD": "Road", "FLATS": "Flats"}),
}
EQB = {MOVE: "mv_eqb", CHAR: "Z.eqb", INT: "Z.eqb", COLOR: "color_eqb", KIND: "kind_eqb", MTYPE: "mtype_eqb", REASON: "reason_eqb", STR: "String.eqb"}

def eqb_term(t):
    if t == BOOL:
        return "Bool.eqb"
    if t == L(CHAR):
        return "pystr_eqb"
    if isinstance(t, str) and t in EQB:
        return EQB[t]
    if isinstance(t, tuple) and t[0] == "tuple" and len(t) == 3:
        return app("pair_eqb", eqb_term(t[1]), eqb_term(t[2]))
    raise Untranslatable(f"no equality test for {t}")


# attribute of a value: (type, attr) -> (coq accessor, type)
ATTRS = {
    (POS, "size"): ("size", INT), (POS, "ply"): ("ply", INT), (POS, "board"): ("board", L(L(PIECE))),
    (POS, "stones"): ("pos_stones", T(SC, SC)),
    (MOVE, "x"): ("mx", INT), (MOVE, "y"): ("my", INT), (MOVE, "type"): ("mt", MTYPE),
    (MOVE, "slides"): ("mslides", O(L(INT))),
    (PIECE, "color"): ("pcolor", COLOR), (PIECE, "kind"): ("pkind", KIND),
    (SC, "stones"): ("sc_stones", INT), (SC, "caps"): ("sc_caps", INT),
    (CONFIG, "size"): ("csize", INT), (CONFIG, "pieces"): ("cpieces", O(INT)), (CONFIG, "capstones"): ("ccaps", O(INT)),
    # self_play.py: the search tree as far as play_one_game reads it (an oracle answer), the config, the transcript
    (TREE, "children"): ("ot_children", L(CHILD)), (TREE, "value"): ("ot_value", FLOAT),
    (TREE, "simulations"): ("ot_sims", INT), (TREE, "v_zero"): ("ot_vzero", FLOAT),
    (CHILD, "move"): ("child_move", MOVE), (CHILD, "position"): ("child_position", POS),
    (SPCFG, "size"): ("sp_size", INT), (SPCFG, "resignation_threshold"): ("sp_threshold", FLOAT),
    (SPCFG, "ply_limit"): ("sp_ply_limit", INT),
    (TRANSCRIPT, "positions"): ("t_positions", L(POS)), (TRANSCRIPT, "moves"): ("t_moves", L(L(MOVE))),
    (TRANSCRIPT, "probs"): ("t_probs", L(L(FLOAT))), (TRANSCRIPT, "values"): ("t_values", L(FLOAT)),
    (TRANSCRIPT, "result"): ("t_result", O(COLOR)),
}
TRANSCRIPT_SETTERS = {"positions": "tr_set_positions", "moves": "tr_set_moves", "probs": "tr_set_probs",
                      "values": "tr_set_values", "result": "tr_set_result"}
# properties (attribute syntax, function semantics) and class-level constants read through an instance
PROPS = {(CONFIG, "flat_count"): "Config.flat_count", (CONFIG, "capstone_count"): "Config.capstone_count"}
INSTANCE_CONSTS = {(CONFIG, "DEFAULT_PIECES"): "Config.DEFAULT_PIECES", (CONFIG, "DEFAULT_CAPS"): "Config.DEFAULT_CAPS"}
MODULE_ALIASES = ("pieces", "moves", "game", "tak", "encoding")    # tak/__init__.py star-imports the three (pinned)

# (module, qualified name, coq name, parameter types by position, result type, extra leading parameters)
# result DELTA + no return statement = the function's effect on its dict parameter
TARGETS = [
    ("pieces", "Color.flip", "flip", [COLOR], COLOR, []),
    ("pieces", "Kind.is_road", "Kind_is_road", [KIND], BOOL, []),
    ("pieces", "Piece.is_road", "Piece_is_road", [PIECE], BOOL, []),
    ("moves", "MoveType.is_slide", "is_slide", [MTYPE], BOOL, []),
    ("moves", "MoveType.direction", "direction", [MTYPE], T(INT, INT), []),
    ("moves", "_compute_slides", "_compute_slides", [INT], L(L(INT)), [("ALL_SLIDES", L(L(L(INT))))]),
    ("moves", "<ALL_SLIDES>", "ALL_SLIDES", [], L(L(L(INT))), []),
    ("moves", "all_moves_for_size", "all_moves_for_size", [INT], L(MOVE), []),
    ("game", "Position.to_move", "to_move", [POS], COLOR, []),
    ("game", "Position.in_bounds", "in_bounds", [POS, INT, INT], BOOL, []),
    ("game", "Position.__getitem__", "getitem", [POS, T(INT, INT)], L(PIECE), []),
    ("game", "Position.is_road", "is_road", [POS, INT, INT], BOOL, []),
    ("game", "Position._walk", "_walk", [POS, L(T(INT, INT)), COLOR, BOOL], BOOL, []),
    ("game", "Position.has_road", "has_road", [POS], O(COLOR), []),
    ("game", "Position.flat_counts", "flat_counts", [POS], T(INT, INT), []),
    ("game", "Position.flats_winner", "flats_winner", [POS], O(COLOR), []),
    ("game", "Position.winner", "winner", [POS], T(O(COLOR), O(REASON)), []),
    ("game", "Position._move_place", "_move_place", [POS, MOVE, DELTA], DELTA, []),
    ("game", "Position._move_slide", "_move_slide", [POS, MOVE, DELTA], DELTA, []),
    ("game", "Position.move", "move", [POS, MOVE], POS, []),
    ("game", "Position.all_moves", "all_moves", [POS], L(MOVE), []),
    ("game", "Config.flat_count", "flat_count", [CONFIG], INT, []),
    ("game", "Config.capstone_count", "capstone_count", [CONFIG], INT, []),
    ("game", "Position.from_squares", "from_squares", [CLS("Position"), CONFIG, L(L(PIECE)), INT], POS, []),
    ("game", "Position.from_config", "from_config", [CLS("Position"), CONFIG], POS, []),
]
METHODS = {  # (receiver type, method) -> qualified name
    (COLOR, "flip"): "Color.flip", (MTYPE, "is_slide"): "MoveType.is_slide", (MTYPE, "direction"): "MoveType.direction",
    (KIND, "is_road"): "Kind.is_road", (PIECE, "is_road"): "Piece.is_road", (POS, "is_road"): "Position.is_road",
    (POS, "_walk"): "Position._walk", (POS, "has_road"): "Position.has_road",
    (POS, "to_move"): "Position.to_move", (POS, "in_bounds"): "Position.in_bounds",
    (POS, "flat_counts"): "Position.flat_counts", (POS, "flats_winner"): "Position.flats_winner",
    (POS, "winner"): "Position.winner", (POS, "_move_place"): "Position._move_place",
    (POS, "_move_slide"): "Position._move_slide", (POS, "move"): "Position.move",
    (POS, "all_moves"): "Position.all_moves",
}
DELTA_KEYS = {"ply": ("set_d_ply", INT), "stones": ("set_d_stones", T(SC, SC)), "board": ("set_d_board", L(L(PIECE)))}

# shapes that are NOT translated but entered as primitives; their source is pinned (ast dump compared)
PINNED = {
    ("pieces", "Piece.cached"): "def cached(self, color, kind):\n    return _piece_cache[color.value][kind.value]",
    ("pieces", "Piece._init_cache"): "def _init_cache(cls):\n    for c in Color:\n        for k in Kind:\n"
                                     "            _piece_cache[c.value][k.value] = cls(c, k)",
}
# self_play.play_one_game: the hand-over of the engine statistics is bookkeeping outside every property: not translated
SKIPPED_STATEMENTS = {"log.stats = engine.stats", "engine.stats = mcts.Stats()"}
PINNED_INIT = "from .game import *\nfrom .moves import *\nfrom .pieces import *"
PINNED_FIELDS = {  # attrs classes: field names in order
    ("game", "Config"): ["size", "pieces", "capstones"],
    ("pieces", "Piece"): ["color", "kind"],
    ("moves", "Move"): ["x", "y", "type", "slides"],
    ("game", "StoneCounts"): ["stones", "caps"],
    ("game", "Position"): ["size", "stones", "ply", "board"],
}


# ---------------------------------------------------------------------------------------------------------------------
# values and trees
# ---------------------------------------------------------------------------------------------------------------------
class V:
    """result of translating an expression: statements to run first, a term, its type; comp = the term is a
    computation of type `res ty` that has not been bound yet"""

    def __init__(self, pre, term, ty, comp=False, fresh=False, lit=None):
        self.pre, self.term, self.ty, self.comp, self.fresh = pre, term, ty, comp, fresh
        self.lit = lit      # the Python value when the expression is a str literal (code-point mode)


def wrap(pre, tree):
    for kind, pat, rhs in reversed(pre):
        tree = (kind, pat, rhs, tree)
    return tree


def tree_pure(t):
    k = t[0]
    if k in ("ret", "tailrec"):
        return True
    if k in ("raise", "tail"):
        return False
    if k == "let":
        return (tree_pure(t[2]) if isinstance(t[2], tuple) else True) and tree_pure(t[3])
    if k == "bind":
        return False
    if k == "if":
        return tree_pure(t[2]) and tree_pure(t[3])
    if k == "matchopt":
        return tree_pure(t[3]) and tree_pure(t[4])
    if k == "catch":
        return False
    if k == "matchsum":
        return tree_pure(t[3]) and tree_pure(t[5])
    raise AssertionError(k)


def map_tree(t, f, rhs=False):
    """apply f to the leaves (ret / tail / tailrec / raise) of a tree; rhs: also inside bound sub-trees"""
    k = t[0]
    if k in ("ret", "tailrec", "raise", "tail"):
        return f(t)
    if k in ("let", "bind"):
        r = map_tree(t[2], f, rhs) if (rhs and isinstance(t[2], tuple)) else t[2]
        return (k, t[1], r, map_tree(t[3], f, rhs))
    if k == "if":
        return ("if", t[1], map_tree(t[2], f, rhs), map_tree(t[3], f, rhs))
    if k == "matchopt":
        return (k, t[1], t[2], map_tree(t[3], f, rhs), map_tree(t[4], f, rhs))
    if k == "catch":
        return (k, map_tree(t[1], f, rhs), t[2], map_tree(t[3], f, rhs))
    if k == "matchsum":
        return (k, t[1], t[2], map_tree(t[3], f, rhs), t[4], map_tree(t[5], f, rhs))
    raise AssertionError(k)


def purify(t):
    """binds of pure sub-trees (joins of pure branches) become lets; `let x := e in x` is e, `x <- c ;; ret x` is c"""
    t = purify0(t)
    if t[0] in ("let", "bind") and not isinstance(t[2], tuple) and t[3][0] == "ret" \
            and (t[3][1] == t[1] or (t[1].startswith("'") and t[3][1] == t[1][1:])):
        return ("ret", t[2]) if t[0] == "let" else ("tail", t[2])
    return t


def purify0(t):
    k = t[0]
    if k in ("ret", "tailrec", "raise", "tail"):
        return t
    if k == "let":
        rhs = purify(t[2]) if isinstance(t[2], tuple) else t[2]
        return ("let", t[1], rhs, purify(t[3]))
    if k == "bind":
        if isinstance(t[2], tuple):
            rhs = purify(t[2])
            if tree_pure(rhs):
                return ("let", t[1], rhs, purify(t[3]))
            return ("bind", t[1], rhs, purify(t[3]))
        return ("bind", t[1], t[2], purify(t[3]))
    if k == "if":
        return ("if", t[1], purify(t[2]), purify(t[3]))
    if k == "matchopt":
        return (k, t[1], t[2], purify(t[3]), purify(t[4]))
    if k == "catch":
        return (k, purify(t[1]), t[2], purify(t[3]))
    if k == "matchsum":
        return (k, t[1], t[2], purify(t[3]), t[4], purify(t[5]))
    raise AssertionError(k)


def show(t, ind, mon):
    """print a tree; mon = the enclosing definition has type `res _`"""
    sp = " " * ind
    k = t[0]
    if k == "ret":
        return sp + (app("ret", t[1]) if mon else t[1])
    if k == "raise":
        return sp + t[1]
    if k in ("tail", "tailrec"):
        return sp + t[1]
    if k == "let":
        pat = t[1] if not t[1].startswith("'") else t[1]
        if isinstance(t[2], tuple):
            inner = show(t[2], ind + 4, False)
            return f"{sp}let {pat} :=\n{inner} in\n" + show(t[3], ind, mon)
        return f"{sp}let {pat} := {t[2]} in\n" + show(t[3], ind, mon)
    if k == "bind":
        if isinstance(t[2], tuple):
            inner = show(t[2], ind + 4, True)
            return f"{sp}{t[1]} <- (\n{inner}) ;;\n" + show(t[3], ind, mon)
        return f"{sp}{t[1]} <- {t[2]} ;;\n" + show(t[3], ind, mon)
    if k == "if":
        a, b = t[2], t[3]
        if a[0] == "raise":
            return f"{sp}if {t[1]} then {a[1]} else\n" + show(b, ind, mon)
        return f"{sp}if {t[1]} then\n" + show(a, ind + 2, mon) + f"\n{sp}else\n" + show(b, ind + 2, mon)
    if k == "matchopt":
        return (f"{sp}match {t[1]} with\n{sp}| Some {t[2]} =>\n" + show(t[3], ind + 4, mon) +
                f"\n{sp}| None =>\n" + show(t[4], ind + 4, mon) + f"\n{sp}end")
    if k == "catch":
        return (f"{sp}py_try (\n" + show(t[1], ind + 4, True) + f") {t[2]} (\n" + show(t[3], ind + 4, True) + ")")
    if k == "matchsum":      # the result of a loop that can `return`: inl state = the loop ended, inr v = it returned v
        return (f"{sp}match {t[1]} with\n{sp}| inl {t[2]} =>\n" + show(t[3], ind + 4, mon) +
                f"\n{sp}| inr {t[4]} =>\n" + show(t[5], ind + 4, mon) + f"\n{sp}end")
    raise AssertionError(k)


# ---------------------------------------------------------------------------------------------------------------------
# the translator
# ---------------------------------------------------------------------------------------------------------------------
class Env:
    """ordered map python local -> (coq name, type, fresh?)"""

    def __init__(self, items=None, narrow=None):
        self.d = dict(items or {})
        self.narrow = dict(narrow or {})    # ast.dump of an Optional-valued expression known to be not None -> (coq, type)

    def copy(self):
        return Env(self.d, self.narrow)

    def narrowed(self, dump, coq, ty):
        e = Env(self.d, self.narrow)
        e.narrow[dump] = (coq, ty)
        return e

    def has(self, n):
        return n in self.d

    def get(self, n):
        return self.d[n]

    def set(self, n, coq, ty, fresh=False):
        e = Env(self.d, self.narrow)
        e.d[n] = (coq, ty, fresh)
        return e

    def names(self):
        return list(self.d)


class Fn:
    def __init__(self, tr, module, qual, coq):
        self.tr, self.module, self.qual, self.coq = tr, module, qual, coq
        self.ntemp = 0
        self.nloop = 0
        self.aux = []          # text of auxiliary Fixpoints, in order of completion
        self.alias = {}        # delta key -> python local holding the referenced list
        self.ret_ty = None
        self.loop_depth = 0
        self.branch_depth = 0
        self.locals = set()
        self.body = None       # the FunctionDef being translated
        self.name_alias = {}   # np_view -> logits (a numpy view of a tensor: the same storage)

    def temp(self):
        self.ntemp += 1
        n = f"t{self.ntemp}"
        if n in self.locals:
            raise Untranslatable(f"local variable {n} clashes with a generated temporary")
        return n


class Translator:
    def __init__(self, sources):
        """sources: {module name: source text}"""
        self.src = sources
        self.mods = {m: ast.parse(s) for m, s in sources.items() if s is not None and m != "__init__"}
        self.funcs = {}     # qualified name -> dict(coq, params, ret, pure, extra)
        self.out = []       # text blocks
        self.enum_members = {}   # python enum -> {member: int}
        self.move_defaults = {}
        self.prefix = ""         # qualifier of the names of an earlier generated file (second and later outputs)
        self.consts = {}         # module / class level constants: dotted name -> dict(coq, ty, pure)
        self.scope = ""          # "Token." while the body of class Token is translated
        self.str_codepoints = False   # tps.py: str = list of code points; game.py: the two slot names are Coq strings
        self.illegal = "IllegalMove"  # the module's own refusal exception -> `Illegal`
        self.tensor_mode = False      # encoding.decode: a torch tensor of ints is the list of its entries
        self.oracle_mode = False      # self_play.py: the engine is a stream of answers
        self.while_fuel = {}
        self.cur_alias = {}
        self.cur_file = "GameGen"
        self.local_hints = {}
        self.coq_names = set()

    # ------------------------------------------------------------------ source lookup
    def find_class(self, module, name):
        for n in self.mods[module].body:
            if isinstance(n, ast.ClassDef) and n.name == name:
                return n
        raise Untranslatable(f"class {name} not found in {module}.py")

    def find_def(self, module, qual):
        body = self.mods[module].body
        parts = qual.split(".")
        if len(parts) == 2:
            body = self.find_class(module, parts[0]).body
        for n in body:
            if isinstance(n, ast.FunctionDef) and n.name == parts[-1]:
                return n
        raise Untranslatable(f"function {qual} not found in {module}.py")

    # ------------------------------------------------------------------ pinned shapes
    def check_pinned(self):
        for (module, qual), text in PINNED.items():
            fd = self.find_def(module, qual)
            want = ast.parse(text).body[0]
            if ast.dump(ast.Module(body=fd.body, type_ignores=[])) != ast.dump(ast.Module(body=want.body, type_ignores=[])) \
                    or [a.arg for a in fd.args.args] != [a.arg for a in want.args.args]:
                fail(fd, f"{qual} is entered as a primitive (Piece.cached(c, k) = the piece of colour c and kind k) "
                         f"and its source is no longer the one that was reviewed")
        for (module, cls), fields in PINNED_FIELDS.items():
            cd = self.find_class(module, cls)
            got = [n.target.id for n in cd.body if isinstance(n, ast.AnnAssign) and isinstance(n.target, ast.Name)]
            if got != fields:
                fail(cd, f"fields of {cls} are {got}, the model's record has {fields}")
            decos = [_src(d) for d in cd.decorator_list]
            if not any(d.startswith("define") for d in decos):
                fail(cd, f"{cls} is no longer an attrs class")
        if self.src.get("__init__") is not None:
            got = "\n".join(l.strip() for l in self.src["__init__"].splitlines() if l.strip().startswith("from "))
            if got != PINNED_INIT:
                raise Untranslatable("tak/__init__.py no longer star-imports exactly game, moves, pieces")
        cfgc = self.find_class("game", "Config")
        for n in cfgc.body:
            if isinstance(n, ast.AnnAssign) and n.target.id in ("pieces", "capstones") and not (
                    isinstance(n.value, ast.Constant) and n.value.value is None):
                fail(n, "Config: default None expected")
            if isinstance(n, ast.AnnAssign) and n.target.id == "size" and n.value is not None:
                fail(n, "Config.size has a default")
        # Move(x, y, type=PLACE_FLAT, slides=None)
        md = self.find_class("moves", "Move")
        for n in md.body:
            if isinstance(n, ast.AnnAssign) and n.value is not None:
                self.move_defaults[n.target.id] = n.value
        if set(self.move_defaults) != {"type", "slides"}:
            fail(md, "Move: expected defaults exactly for `type` and `slides`")
        d = self.move_defaults["type"]
        if not (isinstance(d, ast.Call) and _src(d.func) == "field" and len(d.keywords) == 1
                and d.keywords[0].arg == "default" and not d.args):
            fail(d, "Move.type default: expected field(default=<MoveType member>)")
        if not (isinstance(self.move_defaults["slides"], ast.Constant) and self.move_defaults["slides"].value is None):
            fail(self.move_defaults["slides"], "Move.slides default: expected None")
        # _piece_cache has an entry per (colour, kind)
        ok = False
        for n in self.mods["pieces"].body:
            if isinstance(n, ast.Assign) and _src(n.targets[0]) == "_piece_cache":
                ok = _src(n.value) == "[[None for k in Kind] for c in Color]"
        calls = [_src(n) for n in self.mods["pieces"].body if isinstance(n, ast.Expr)]
        if not ok or "Piece._init_cache()" not in calls:
            raise Untranslatable("pieces._piece_cache is not initialised the reviewed way")

    # ------------------------------------------------------------------ enums
    def do_enums(self):
        lines = []
        for py, (module, tag, members) in ENUMS.items():
            cd = self.find_class(module, py)
            if [_src(b) for b in cd.bases] != ["enum.Enum"]:
                fail(cd, f"{py} is not a plain enum.Enum")
            vals = {}
            for n in cd.body:
                if isinstance(n, ast.Assign):
                    if not (len(n.targets) == 1 and isinstance(n.targets[0], ast.Name)
                            and isinstance(n.value, ast.Constant) and type(n.value.value) is int):
                        fail(n, "enum member: expected NAME = <int literal>")
                    vals[n.targets[0].id] = n.value.value
                elif isinstance(n, ast.FunctionDef) or (isinstance(n, ast.Expr) and isinstance(n.value, ast.Constant)):
                    continue
                else:
                    fail(n, f"statement in enum {py}")
            if set(vals) != set(members):
                fail(cd, f"members of {py} are {sorted(vals)}, the model's type has {sorted(members)}")
            if len(set(vals.values())) != len(vals):
                fail(cd, f"{py}: two members share a value (aliases)")
            self.enum_members[py] = vals
            ty = COQ_BASE[tag]
            order = list(members)
            lines.append(f"(* {module}.py: enum {py} *)")
            lines.append(f"Definition {py}_value (v : {ty}) : Z :=\n  match v with " +
                         " | ".join(f"{members[m]} => {zlit(vals[m])}" for m in order) + " end.")
            body = "".join(f"  if i =? {zlit(vals[m])} then Ok {members[m]} else\n" for m in order)
            lines.append(f"(* {py}(i): the member with that value, else ValueError *)\n"
                         f"Definition {py}_of_value (i : Z) : res {ty} :=\n{body}  Crash ValueError.")
        self.out.append("\n".join(lines))

    # ------------------------------------------------------------------ constants: Mod.Enum.MEMBER and friends
    def dotted(self, e):
        parts = []
        while isinstance(e, ast.Attribute):
            parts.append(e.attr)
            e = e.value
        if isinstance(e, ast.Name):
            parts.append(e.id)
            return list(reversed(parts))
        return None

    def const_chain(self, e, env):
        """enum member / class / module-level name denoted by a dotted expression whose root is not a local"""
        parts = self.dotted(e)
        if not parts or env.has(parts[0]):
            return None
        if parts[0] in MODULE_ALIASES and len(parts) > 1:
            parts = parts[1:]
        for key in (self.scope + ".".join(parts), ".".join(parts)):
            if key in self.consts:
                return ("const", key)
        if parts[0] in ENUMS:
            if len(parts) == 1:
                return ("enumclass", parts[0])
            if len(parts) == 2 and parts[1] in ENUMS[parts[0]][2]:
                return ("member", parts[0], parts[1])
            if len(parts) == 3 and parts[1] in ENUMS[parts[0]][2] and parts[2] == "value":
                return ("membervalue", parts[0], parts[1])
            return None
        if parts == ["Piece", "cached"]:
            return ("piece_cached",)
        if parts == ["Move"]:
            return ("move_ctor",)
        if parts == ["StoneCounts"]:
            return ("sc_ctor",)
        if parts == ["Config"]:
            return ("config_ctor",)
        if len(parts) == 2 and ".".join(parts) in self.funcs and self.funcs[".".join(parts)].get("classmethod"):
            return ("classmethod", ".".join(parts))
        if len(parts) == 1 and len(self.dotted(e)) == 2 and parts[0] in self.funcs and "." not in parts[0]:
            return ("classmethod", parts[0])       # module.function(...)
        if parts == ["ALL_SLIDES"]:
            return ("all_slides",)
        if parts == ["DIRECTIONS"]:
            return ("directions",)
        if parts == ["attrs", "evolve"]:
            return ("evolve",)
        return None

    # ------------------------------------------------------------------ expressions
    def force(self, fn, v):
        """bind a pending computation to a temporary"""
        if not v.comp:
            return v
        t = fn.temp()
        return V(v.pre + [("bind", t, v.term)], t, v.ty, False, v.fresh)

    def pure(self, fn, e, env, want=None):
        v = self.force(fn, self.expr0(fn, e, env, want))
        return self.coerce(v, want, e) if want is not None else v

    def coerce(self, v, want, node):
        """value of type v.ty where `want` is expected (None / T -> Optional[T]; int -> float)"""
        if want is None or v.comp:
            return v
        if want == PYVAL and v.ty in (L(CHAR), CHAR, INT):
            t = {INT: app("VInt", v.term), CHAR: app("VStr", f"[{v.term}]")}.get(v.ty) or app("VStr", v.term)
            return V(v.pre, t, PYVAL)
        if want == L(PYVAL) and v.ty in (L(L(CHAR)), L(CHAR), L(INT)) and v.ty != L(CHAR):
            f = "VStr" if v.ty == L(L(CHAR)) else "VInt"
            return V(v.pre, app("map", f, v.term), L(PYVAL), False, v.fresh)
        if want == L(PYVAL) and v.ty == L(CHAR):      # a list of one-character strings (chr(..) for ..)
            return V(v.pre, app("map", "(fun c => VStr [c])", v.term), L(PYVAL), False, v.fresh)
        if want == FLOAT and v.ty == INT:
            return V(v.pre, app("inject_Z", v.term), FLOAT)
        if want == L(FLOAT) and v.ty == L(INT):
            return V(v.pre, app("map", "inject_Z", v.term), L(FLOAT), False, v.fresh)
        if isinstance(want, tuple) and want[0] == "opt":
            if v.ty == NONE:
                return V(v.pre, "None", want)
            if isinstance(v.ty, tuple) and v.ty[0] == "opt":
                return V(v.pre, v.term, unify(v.ty, want, node))
            return V(v.pre, app("Some", v.term), O(unify(v.ty, want[1], node)))
        return V(v.pre, v.term, unify(v.ty, want, node), False, v.fresh)

    def expr(self, fn, e, env, want=None):
        """a value that may still be an unbound computation (never coerced when it is)"""
        v = self.expr0(fn, e, env, want)
        if want is not None and not v.comp:
            v = self.coerce(v, want, e)
        return v

    def expr0(self, fn, e, env, want=None):
        if isinstance(e, ast.Constant):
            c = e.value
            if c is None:
                return V([], "None", NONE)
            if c is True or c is False:
                return V([], "true" if c else "false", BOOL)
            if type(c) is int:
                return V([], zlit(c), INT)
            if type(c) is float:
                a, b = c.as_integer_ratio()
                return V([], f"({a} # {b})%Q", FLOAT)
            if type(c) is str:
                if '"' in c or "\\" in c or not c.isascii() or not all(32 <= ord(x) < 127 for x in c):
                    fail(e, "string literal")
                if self.str_codepoints:     # a str is the list of its code points
                    return V([], f'pystr "{c}"', L(CHAR), False, False, c)
                return V([], f'"{c}"%string', STR)
            fail(e, "constant")
        if isinstance(e, ast.Name) and e.id in fn.name_alias and env.has(fn.name_alias[e.id]):
            coq, ty, fresh = env.get(fn.name_alias[e.id])
            return V([], coq, ty, False, False)
        if isinstance(e, ast.Name):
            if env.has(e.id):
                coq, ty, fresh = env.get(e.id)
                return V([], coq, ty, False, False)
            return self.global_value(fn, e, env)
        if isinstance(e, ast.Attribute):
            if ast.dump(e) in env.narrow:
                coq, ty = env.narrow[ast.dump(e)]
                return V([], coq, ty)
            cc = self.const_chain(e, env)
            if cc is not None:
                return self.global_value(fn, e, env)
            b = self.pure(fn, e.value, env)
            if e.attr == "value" and b.ty in (COLOR, KIND, MTYPE):
                py = {COLOR: "Color", KIND: "Kind", MTYPE: "MoveType"}[b.ty]
                return V(b.pre, app(f"{self.prefix}{py}_value", b.term), INT)
            if (b.ty, e.attr) in ATTRS:
                acc, ty = ATTRS[(b.ty, e.attr)]
                return V(b.pre, app(acc, b.term), ty)
            if (b.ty, e.attr) in PROPS:
                return self.call_function(fn, PROPS[(b.ty, e.attr)], [b], [], env, e)
            if (b.ty, e.attr) in INSTANCE_CONSTS and INSTANCE_CONSTS[(b.ty, e.attr)] in self.consts:
                c = self.consts[INSTANCE_CONSTS[(b.ty, e.attr)]]
                return V(b.pre, c["coq"], c["ty"], not c["pure"])
            fail(e, f"attribute {e.attr} of a value of type {b.ty}")
        if isinstance(e, ast.Tuple):
            return self.tuple_expr(fn, e, env, want)
        if isinstance(e, ast.List):
            pre, terms, ty = [], [], (want[1] if isinstance(want, tuple) and want[0] == "list" else None)
            for x in e.elts:
                v = self.pure(fn, x, env, ty)
                pre += v.pre
                terms.append(v.term)
                ty = unify(ty, v.ty, x)
            return V(pre, "[" + "; ".join(terms) + "]", L(ty), False, True)
        if isinstance(e, ast.ListComp):
            if len(e.generators) != 1 or e.generators[0].ifs or e.generators[0].is_async:
                fail(e, "comprehension")
            g = e.generators[0]
            it = self.iterable(fn, g.iter, env)
            pat, env2 = self.bind_target(g.target, it.ty[1], env, fn)
            body = self.expr(fn, e.elt, env2)
            if body.comp or body.pre:      # an element that can raise: left to right, the first exception wins
                tree = purify(wrap(body.pre, ("tail", body.term) if body.comp else ("ret", body.term)))
                lam = f"(fun {pat} =>\n{show(tree, 8, True)})"
                return V(it.pre, app("py_mapM", lam, it.term), L(body.ty), True, True)
            qpat = "'" + pat if pat.startswith("(") else pat
            return V(it.pre, app("map", f"(fun {qpat} => {body.term})", it.term), L(body.ty), False, True)
        if isinstance(e, ast.DictComp):
            if len(e.generators) != 1 or e.generators[0].ifs or e.generators[0].is_async:
                fail(e, "comprehension")
            g = e.generators[0]
            it = self.iterable(fn, g.iter, env)
            pat, env2 = self.bind_target(g.target, it.ty[1], env, fn)
            k, v = self.expr(fn, e.key, env2), self.expr(fn, e.value, env2)
            if k.comp or k.pre or v.comp or v.pre:
                fail(e, "dict comprehension whose entries can raise")
            return V(it.pre, app("map", f"(fun '{pat} => ({k.term}, {v.term}))" if pat.startswith("(") else
                                 f"(fun {pat} => ({k.term}, {v.term}))", it.term), ("dictc", k.ty, v.ty), False, True)
        if isinstance(e, ast.Subscript):
            return self.subscript(fn, e, env)
        if isinstance(e, ast.Call):
            return self.call(fn, e, env, want)
        if isinstance(e, ast.BinOp):
            return self.binop(fn, e, env)
        if isinstance(e, ast.UnaryOp):
            a = self.pure(fn, e.operand, env)
            if isinstance(e.op, ast.Not):
                return V(a.pre, app("negb", self.truth(a, e.operand)), BOOL)
            if isinstance(e.op, ast.USub) and a.ty == FLOAT and isinstance(e.operand, ast.Constant):
                n, d = (-e.operand.value).as_integer_ratio()
                return V(a.pre, f"(({n}) # {d})%Q", FLOAT)
            if isinstance(e.op, ast.USub) and a.ty == INT:
                if isinstance(e.operand, ast.Constant):
                    return V(a.pre, zlit(-e.operand.value), INT)
                return V(a.pre, f"- {opd(a.term)}", INT)
            fail(e, "unary operator")
        if isinstance(e, ast.BoolOp):
            return self.boolop(fn, e, env)
        if isinstance(e, ast.IfExp):
            c = self.pure(fn, e.test, env)
            a = self.expr(fn, e.body, env, want)
            b = self.expr(fn, e.orelse, env, want)
            if a.comp or b.comp or a.pre or b.pre:
                fail(e, "conditional expression whose branches can raise")
            return V(c.pre, f"if {self.truth(c, e.test)} then {a.term} else {b.term}", unify(a.ty, b.ty, e))
        if isinstance(e, ast.Compare):
            return self.compare(fn, e, env)
        fail(e, f"expression {type(e).__name__}")

    def global_value(self, fn, e, env):
        cc = self.const_chain(e, env)
        if cc is None:
            fail(e, "unknown name")
        if cc[0] == "member":
            return V([], ENUMS[cc[1]][2][cc[2]], ENUMS[cc[1]][1])
        if cc[0] == "membervalue":
            return V([], app(f"{self.prefix}{cc[1]}_value", ENUMS[cc[1]][2][cc[2]]), INT)
        if cc[0] == "all_slides":
            if "<ALL_SLIDES>" not in self.funcs:
                fail(e, "ALL_SLIDES read before it is built")
            f = self.funcs["<ALL_SLIDES>"]
            return V([], f["coq"], f["ret"], not f["pure"])
        if cc[0] == "directions":
            return V([], self.prefix + "DIRECTIONS", ("dict", MTYPE, T(INT, INT)))
        if cc[0] == "const":
            c = self.consts[cc[1]]
            return V([], c["coq"], c["ty"], not c["pure"])
        fail(e, "name used as a value")

    def tuple_expr(self, fn, e, env, want=None):
        n = len(e.elts)
        if n <= 1:   # () and (a,) are sequences
            if n == 0:
                return V([], "[]", L(None))
            v = self.pure(fn, e.elts[0], env)
            return V(v.pre, f"[{v.term}]", L(v.ty))
        wants = list(want[1:]) if isinstance(want, tuple) and want[0] == "tuple" and len(want) == n + 1 else [None] * n
        pre, terms, tys, fresh = [], [], [], True
        for x, w in zip(e.elts, wants):
            v = self.pure(fn, x, env, w)
            pre += v.pre
            terms.append(v.term)
            tys.append(v.ty)
            fresh = fresh and v.fresh and isinstance(x, ast.List)
        return V(pre, "(" + ", ".join(terms) + ")", T(*tys), False, fresh)

    def truth(self, v, node):
        """bool(v) as a Coq bool term"""
        if v.term is None:
            fail(node, "internal: truth of an optional test")
        if v.ty == BOOL:
            return v.term
        if isinstance(v.ty, tuple) and v.ty[0] == "list":
            return app("truthy_list", v.term)
        fail(node, f"truth value of a {v.ty}")

    def subscript(self, fn, e, env):
        if isinstance(e.value, ast.Dict):      # {k: v, ...}[x]
            items, kty, vty, pre = [], None, None, []
            for k, v in zip(e.value.keys, e.value.values):
                if k is None:
                    fail(e, "dict unpacking")
                kv, vv = self.pure(fn, k, env), self.pure(fn, v, env)
                if vv.pre:
                    fail(e, "dict literal whose values can raise")
                pre += kv.pre
                kty, vty = unify(kty, kv.ty, k), unify(vty, vv.ty, v)
                items.append(f"({kv.term}, {vv.term})")
            i = self.pure(fn, e.slice, env)
            unify(i.ty, kty, e)
            # a repeated key keeps the LAST value in Python; py_dict_get returns the first: refuse repeated key terms
            if len({x.split(",")[0] for x in items}) != len(items):
                fail(e, "dict literal with a repeated key")
            return V(pre + i.pre, app("py_dict_get", eqb_term(kty), "[" + "; ".join(items) + "]", i.term), vty, True)
        b = self.pure(fn, e.value, env)
        if b.ty == POS:
            return self.call_function(fn, "Position.__getitem__", [b], [e.slice], env, e)
        if isinstance(e.slice, ast.Slice):
            if e.slice.step is not None:
                fail(e, "slice with a step")
            if not (isinstance(b.ty, tuple) and b.ty[0] == "list"):
                fail(e, f"slice of a {b.ty}")
            pre, bounds = list(b.pre), []
            for x in (e.slice.lower, e.slice.upper):
                if x is None:
                    bounds.append("None")
                else:
                    v = self.pure(fn, x, env)
                    if v.ty != INT:
                        fail(x, "slice bound that is not an int")
                    pre += v.pre
                    bounds.append(app("Some", v.term))
            return V(pre, app("py_slice", b.term, *bounds), b.ty, False, True)
        i = self.pure(fn, e.slice, env)
        pre = b.pre + i.pre
        if isinstance(b.ty, tuple) and b.ty[0] == "list":
            if i.ty != INT:
                fail(e, "list index that is not an int")
            return V(pre, app("py_getitem", b.term, i.term), b.ty[1], True)
        if isinstance(b.ty, tuple) and b.ty[0] == "tuple" and len(b.ty) == 3 and b.ty[1] == b.ty[2]:
            if i.ty != INT:
                fail(e, "tuple index that is not an int")
            return V(pre, app("py_tuple2_get", b.term, i.term), b.ty[1], True)
        if isinstance(b.ty, tuple) and b.ty[0] == "dictc":
            if i.ty != b.ty[1]:
                fail(e, "dict key of another type")
            return V(pre, app("py_dict_get_last", eqb_term(b.ty[1]), b.term, i.term), b.ty[2], True)
        if isinstance(b.ty, tuple) and b.ty[0] == "dict":
            if i.ty != b.ty[1]:
                fail(e, "dict key of another type")
            return V(pre, app("py_dict_get", eqb_term(b.ty[1]), b.term, i.term), b.ty[2], True)
        fail(e, f"indexing a {b.ty}")

    def binop(self, fn, e, env):
        a = self.pure(fn, e.left, env)
        b = self.pure(fn, e.right, env)
        pre = a.pre + b.pre
        islist = lambda t: isinstance(t, tuple) and t[0] == "list"  # noqa
        if isinstance(e.op, ast.Add) and a.ty == L(PYVAL) and islist(b.ty) and b.ty != L(PYVAL):
            b = self.coerce(b, L(PYVAL), e)
        if isinstance(e.op, ast.Add) and islist(a.ty) and islist(b.ty):
            return V(pre, f"{opd(a.term)} ++ {opd(b.term)}", unify(a.ty, b.ty, e), False, True)
        if isinstance(e.op, ast.Add) and {a.ty, b.ty} <= {L(CHAR), CHAR}:     # str + one-character str
            ta = a.term if a.ty == L(CHAR) else f"[{a.term}]"
            tb = b.term if b.ty == L(CHAR) else f"[{b.term}]"
            return V(pre, f"{opd(ta)} ++ {opd(tb)}", L(CHAR), False, True)
        if isinstance(e.op, ast.Div) and a.ty == FLOAT and b.ty == INT:
            return V(pre, app("py_fdiv_int", a.term, b.term), FLOAT, True)
        if isinstance(e.op, ast.Mult) and islist(a.ty) and b.ty == INT:
            return V(pre, app("py_list_repeat", a.term, b.term), a.ty, False, True)
        if a.ty == INT and b.ty == INT and isinstance(e.op, ast.FloorDiv) and isinstance(e.right, ast.Constant) \
                and type(e.right.value) is int and e.right.value != 0:
            return V(pre, f"{opd(a.term)} / {opd(b.term)}", INT)      # Z.div floors, like Python's //
        if a.ty == INT and b.ty == INT:
            if isinstance(e.op, (ast.Add, ast.Sub, ast.Mult)):
                op = {ast.Add: "+", ast.Sub: "-", ast.Mult: "*"}[type(e.op)]
                return V(pre, f"{opd(a.term)} {op} {opd(b.term)}", INT)
            if isinstance(e.op, ast.Mod) and isinstance(e.right, ast.Constant) and type(e.right.value) is int \
                    and e.right.value != 0:
                # Python's % has the sign of the divisor, like Z.modulo; the divisor is a non-zero literal
                return V(pre, f"{opd(a.term)} mod {opd(b.term)}", INT)
        fail(e, "binary operator")

    def boolop(self, fn, e, env):
        vals = [self.expr(fn, x, env) for x in e.values]
        vals = [self.force(fn, v) if v.comp else v for v in vals]
        terms = [self.truth(v, x) for v, x in zip(vals, e.values)]
        for v in vals:
            if v.ty != BOOL:
                fail(e, "and / or over operands that are not bool (the result would be an operand, not a bool)")
        isand = isinstance(e.op, ast.And)
        # right-nested; an operand whose evaluation can raise is evaluated only when Python evaluates it
        acc_pre, acc = vals[-1].pre, terms[-1]
        for v, t in zip(reversed(vals[:-1]), reversed(terms[:-1])):
            if acc_pre:
                tmp = fn.temp()
                inner = wrap(acc_pre, ("ret", acc))
                tree = ("if", t, inner, ("ret", "false")) if isand else ("if", t, ("ret", "true"), inner)
                acc_pre, acc = v.pre + [("bind", tmp, tree)], tmp
            else:
                acc_pre, acc = v.pre, f"{opd(t)} {'&&' if isand else '||'} {opd(acc)}"
        return V(acc_pre, acc, BOOL)

    def compare(self, fn, e, env):
        if len(e.ops) == 1 and isinstance(e.ops[0], (ast.In, ast.NotIn)):
            return self.membership(fn, e, env)
        operands = [e.left] + list(e.comparators)
        vals = [self.pure(fn, x, env) for x in operands]
        if len(vals) > 2 and any(v.pre for v in vals[2:]):
            fail(e, "chained comparison whose later operands can raise")
        pre, terms = [], []
        for v in vals:
            pre += v.pre
        for (a, op, b, node) in zip(vals, e.ops, vals[1:], operands[1:]):
            terms.append(self.compare1(a, op, b, e))
        return V(pre, " && ".join(opd(t) for t in terms) if len(terms) > 1 else terms[0], BOOL)

    def compare1(self, a, op, b, node):
        if isinstance(op, (ast.Is, ast.IsNot)):
            if b.ty != NONE or not (isinstance(a.ty, tuple) and a.ty[0] == "opt"):
                fail(node, "`is` other than `<optional> is [not] None`")
            t = f"match {a.term} with None => true | Some _ => false end"
            return t if isinstance(op, ast.Is) else app("negb", t)
        if a.ty == INT and b.ty == INT:
            sym = {ast.Lt: "<?", ast.LtE: "<=?", ast.Gt: ">?", ast.GtE: ">=?", ast.Eq: "=?"}.get(type(op))
            if sym:
                return f"{opd(a.term)} {sym} {opd(b.term)}"
            if isinstance(op, ast.NotEq):
                return app("negb", f"{opd(a.term)} =? {opd(b.term)}")
        if a.ty == FLOAT and b.ty == FLOAT and isinstance(op, (ast.GtE, ast.LtE)):
            return app("py_fge", a.term, b.term) if isinstance(op, ast.GtE) else app("py_fge", b.term, a.term)
        if a.ty == b.ty and a.ty in (COLOR, KIND, MTYPE, REASON) and isinstance(op, (ast.Eq, ast.NotEq)):
            t = app(EQB[a.ty], a.term, b.term)
            return t if isinstance(op, ast.Eq) else app("negb", t)
        if isinstance(op, (ast.Eq, ast.NotEq)):
            t = None
            if a.ty == CHAR and b.lit is not None and len(b.lit) == 1:       # c == "x", c one character of a str
                t = f'{opd(a.term)} =? ch "{b.lit}"'
            elif b.ty == CHAR and a.lit is not None and len(a.lit) == 1:
                t = f'ch "{a.lit}" =? {opd(b.term)}'
            elif a.ty == CHAR and b.ty == CHAR:
                t = f"{opd(a.term)} =? {opd(b.term)}"
            elif a.ty == L(CHAR) and b.ty == L(CHAR):
                t = app("pystr_eqb", a.term, b.term)
            elif isinstance(a.ty, tuple) and a.ty[0] == "list" and b.term == "[]" and b.ty == L(None):   # l == []
                t = app("negb", app("truthy_list", a.term))
            if t is not None:
                return t if isinstance(op, ast.Eq) else app("negb", t)
        fail(node, f"comparison {type(op).__name__} of {a.ty} and {b.ty}")

    def membership(self, fn, e, env):
        """x in (lit, ...) / x in "chars" / x in [a, b] / x in <list of ints>, and their negations"""
        x = self.pure(fn, e.left, env)
        c = e.comparators[0]
        neg = isinstance(e.ops[0], ast.NotIn)
        t = None
        pre = list(x.pre)
        if isinstance(c, (ast.Tuple, ast.List)) and c.elts:
            alts = []
            for el in c.elts:
                v = self.pure(fn, el, env)
                if v.pre:
                    fail(e, "membership in a container whose elements can raise")
                alts.append(self.compare1(x, ast.Eq(), v, e))
            t = " || ".join(opd(a) for a in alts)
        else:
            v = self.pure(fn, c, env)
            pre += v.pre
            if x.ty == CHAR and v.ty == L(CHAR):       # one character in a str: membership of the code point
                t = app("existsb", app("Z.eqb", x.term), v.term)
            elif x.ty == INT and v.ty == L(INT):
                t = app("existsb", app("Z.eqb", x.term), v.term)
            elif isinstance(v.ty, tuple) and v.ty[0] == "set" and known(x.ty):
                unify(v.ty[1], x.ty, e)
                t = app("existsb", app(eqb_term(x.ty), x.term), v.term)
            else:
                fail(e, f"`in` with a {x.ty} on the left and a {v.ty} on the right")
        return V(pre, app("negb", t) if neg else t, BOOL)

    def iterable(self, fn, e, env):
        """the list of values a `for` / comprehension / any() runs over"""
        if isinstance(e, ast.Call) and isinstance(e.func, ast.Name) and e.func.id == "range" and not env.has("range"):
            if e.keywords or not 1 <= len(e.args) <= 2:
                fail(e, "range with a step")
            vs = [self.pure(fn, a, env) for a in e.args]
            if any(v.ty != INT for v in vs):
                fail(e, "range of non-int")
            pre = sum((v.pre for v in vs), [])
            return V(pre, app("py_range" if len(vs) == 1 else "py_range2", *[v.term for v in vs]), L(INT))
        if isinstance(e, ast.Call) and isinstance(e.func, ast.Attribute) and e.func.attr == "items" and not e.args \
                and not e.keywords:
            d = self.pure(fn, e.func.value, env)
            if isinstance(d.ty, tuple) and d.ty[0] in ("dict", "dictc"):
                return V(d.pre, d.term, L(T(d.ty[1], d.ty[2])))
        if isinstance(e, ast.Call) and isinstance(e.func, ast.Name) and e.func.id == "map" and not env.has("map") \
                and len(e.args) == 2 and isinstance(e.args[0], ast.Name) and e.args[0].id == "str" and not e.keywords:
            v = self.iterable(fn, e.args[1], env)          # map(str, l)
            if v.ty == L(PYVAL):
                return self.force(fn, V(v.pre, app("py_mapM", "py_str_val", v.term), L(L(CHAR)), True))
            if v.ty == L(L(CHAR)):
                return v
            fail(e, f"map(str, ..) over a {v.ty}")
        if isinstance(e, ast.Call) and isinstance(e.func, ast.Name) and e.func.id == "enumerate" \
                and not env.has("enumerate") and len(e.args) == 1 and not e.keywords:
            v = self.iterable(fn, e.args[0], env)
            return V(v.pre, app("py_enumerate", v.term), L(T(INT, v.ty[1])), False, True)
        if isinstance(e, ast.Call) and isinstance(e.func, ast.Name) and e.func.id == "reversed" \
                and not env.has("reversed") and len(e.args) == 1 and not e.keywords:
            v = self.pure(fn, e.args[0], env)
            if not (isinstance(v.ty, tuple) and v.ty[0] == "list"):
                fail(e, f"reversed of a {v.ty}")
            return V(v.pre, app("rev", v.term), v.ty, False, True)
        v = self.pure(fn, e, env)
        if isinstance(v.ty, tuple) and v.ty[0] == "list":
            return v
        if isinstance(v.ty, tuple) and v.ty[0] == "opt" and isinstance(v.ty[1], tuple) and v.ty[1][0] == "list":
            return self.force(fn, V(v.pre, app("py_iter_opt", v.term), v.ty[1], True))
        if isinstance(v.ty, tuple) and v.ty[0] == "tuple" and len(v.ty) == 3 and v.ty[1] == v.ty[2]:
            return V(v.pre, app("py_tuple2_list", v.term), L(v.ty[1]))
        fail(e, f"iteration over a {v.ty}")

    def bind_target(self, target, ty, env, fn):
        """pattern and environment for a loop / comprehension target"""
        if isinstance(target, ast.Name):
            c = self.cname(target.id)
            return c, env.set(target.id, c, ty)
        if isinstance(target, ast.Tuple) and all(isinstance(x, ast.Name) for x in target.elts):
            if not (isinstance(ty, tuple) and ty[0] == "tuple" and len(ty) == len(target.elts) + 1):
                fail(target, f"unpacking a {ty}")
            names = []
            for x, t in zip(target.elts, ty[1:]):
                c = self.cname(x.id)
                names.append(c)
                env = env.set(x.id, c, t)
            return "(" + ", ".join(names) + ")", env
        fail(target, "target")

    def cname(self, py):
        return py + "_" if py in RESERVED or py in self.coq_names else py

    # ------------------------------------------------------------------ calls
    def call(self, fn, e, env, want=None):
        f = e.func
        if isinstance(f, ast.Attribute) and f.attr == "get" and len(e.args) == 2 and not e.keywords:
            d = self.pure(fn, f.value, env)
            if isinstance(d.ty, tuple) and d.ty[0] == "dict":      # d.get(k, default) on a dict literal
                k = self.pure(fn, e.args[0], env)
                dv = self.pure(fn, e.args[1], env, d.ty[2])
                if k.ty != d.ty[1]:
                    fail(e, "dict.get with a key of another type")
                unify(dv.ty, d.ty[2], e)
                return V(d.pre + k.pre + dv.pre, app("py_dict_get_default", eqb_term(d.ty[1]), d.term, k.term, dv.term), d.ty[2])
        if isinstance(f, ast.Name) and not env.has(f.id):
            name = f.id
            if name in ("len", "sum", "list", "all", "any", "getattr") and e.keywords:
                fail(e, "keyword arguments")
            if name == "len" and len(e.args) == 1:
                a = self.pure(fn, e.args[0], env)
                if isinstance(a.ty, tuple) and a.ty[0] == "opt" and isinstance(a.ty[1], tuple) and a.ty[1][0] == "list":
                    a = self.force(fn, V(a.pre, app("py_iter_opt", a.term), a.ty[1], True))    # len(None): TypeError
                if not (isinstance(a.ty, tuple) and a.ty[0] == "list"):
                    fail(e, f"len of a {a.ty}")
                return V(a.pre, app("len", a.term), INT)
            if name == "sum" and len(e.args) == 1:
                a = self.iterable(fn, e.args[0], env)
                if a.ty != L(INT):
                    fail(e, "sum of non-ints")
                return V(a.pre, app("py_sum", a.term), INT)
            if name == "list" and len(e.args) == 1:
                a = self.iterable(fn, e.args[0], env)     # a new list with the same elements
                return V(a.pre, a.term, a.ty, False, True)
            if name in ("any", "all") and len(e.args) == 1:
                return self.any_all(fn, e, env, name)
            if name == "set" and not e.args and not e.keywords:
                return V([], "[]", ("set", None), False, True)      # a set is a list used as a set: `in`, add
            if name == "chr" and len(e.args) == 1 and not e.keywords:
                a = self.pure(fn, e.args[0], env)
                if a.ty != INT:
                    fail(e, f"chr of a {a.ty}")
                return V(a.pre, app("py_chr", a.term), CHAR, True)
            if name == "ord" and len(e.args) == 1 and not e.keywords:
                a = self.pure(fn, e.args[0], env)
                if a.lit is not None and len(a.lit) == 1:
                    return V(a.pre, f'ch "{a.lit}"', INT)
                if a.ty == CHAR:
                    return V(a.pre, a.term, INT)
                fail(e, "ord of something that is not one character")
            if name == "dict" and len(e.args) == 1 and not e.keywords and isinstance(e.args[0], ast.GeneratorExp):
                g = e.args[0]
                if len(g.generators) != 1 or g.generators[0].ifs or not (isinstance(g.elt, ast.Tuple) and len(g.elt.elts) == 2):
                    fail(e, "dict(generator of pairs) expected")
                dc = ast.DictComp(key=g.elt.elts[0], value=g.elt.elts[1], generators=g.generators)
                ast.copy_location(dc, e)
                ast.fix_missing_locations(dc)
                return self.expr0(fn, dc, env)
            if name == "abs" and len(e.args) == 1 and not e.keywords:
                a = self.pure(fn, e.args[0], env)
                if a.ty == FLOAT:
                    return V(a.pre, app("py_fabs", a.term), FLOAT)
                if a.ty == INT:
                    return V(a.pre, app("Z.abs", a.term), INT)
                fail(e, f"abs of a {a.ty}")
            if name in ("max", "min") and len(e.args) == 2 and not e.keywords:
                a, b = self.pure(fn, e.args[0], env), self.pure(fn, e.args[1], env)
                if a.ty != INT or b.ty != INT:
                    fail(e, f"{name} of non-ints")
                return V(a.pre + b.pre, app("Z." + name, a.term, b.term), INT)
            if name == "int" and len(e.args) == 1 and not e.keywords and isinstance(e.args[0], ast.BinOp) \
                    and isinstance(e.args[0].op, ast.Pow) and _src(e.args[0].right) in ("1 / 2", "0.5"):
                a = self.pure(fn, e.args[0].left, env)      # int(n ** (1 / 2)): the float square root, truncated
                if a.ty != INT:
                    fail(e, "square root of a non-int")
                return V(a.pre, app("py_int_sqrt_float", a.term), INT, True)
            if name == "tuple" and len(e.args) == 1 and not e.keywords and isinstance(want, tuple) \
                    and want[0] == "tuple" and len(want) == 3 and want[1] == want[2]:
                a = self.pure(fn, e.args[0], env)
                if a.ty != L(want[1]):
                    fail(e, f"tuple() of a {a.ty}")
                return V(a.pre, app("py_tuple2_of_list", a.term), want, True)
            if name == "int" and len(e.args) == 1 and not e.keywords:
                a = self.pure(fn, e.args[0], env)
                if a.ty == L(CHAR):
                    return V(a.pre, app("py_int_str", a.term), INT, True)
                if a.ty == CHAR:
                    return V(a.pre, app("py_int_str", f"[{a.term}]"), INT, True)
                fail(e, f"int() of a {a.ty}")
            if name == "str" and len(e.args) == 1 and not e.keywords:
                a = self.pure(fn, e.args[0], env)
                if a.ty == INT:
                    return V(a.pre, app("py_str_int", a.term), L(CHAR), True)
                fail(e, f"str() of a {a.ty}")
            if name == "getattr" and len(e.args) == 2:
                o = self.pure(fn, e.args[0], env)
                s = self.pure(fn, e.args[1], env)
                if o.ty != SC or s.ty != STR:
                    fail(e, "getattr other than getattr(<StoneCounts>, <str>)")
                return V(o.pre + s.pre, app("py_getattr_sc", o.term, s.term), INT, True)
        cc = self.const_chain(f, env)
        if cc is not None:
            if cc[0] == "enumclass":      # Color(v)
                if len(e.args) != 1 or e.keywords:
                    fail(e, "enum lookup")
                a = self.pure(fn, e.args[0], env)
                if a.ty != INT:
                    fail(e, "enum lookup by a non-int")
                return V(a.pre, app(f"{self.prefix}{cc[1]}_of_value", a.term), ENUMS[cc[1]][1], True)
            if cc[0] == "piece_cached":
                args = self.bind_args(e, ["color", "kind"], {})
                c = self.pure(fn, args["color"], env)
                k = self.pure(fn, args["kind"], env)
                if c.ty != COLOR or k.ty != KIND:
                    fail(e, "Piece.cached with arguments of other types")
                return V(c.pre + k.pre, app("mkPiece", c.term, k.term), PIECE)
            if cc[0] == "move_ctor":
                args = self.bind_args(e, ["x", "y", "type", "slides"],
                                      {"type": self.move_defaults["type"].keywords[0].value,
                                       "slides": self.move_defaults["slides"]})
                tys = [INT, INT, MTYPE, O(L(INT))]
                vs = [self.pure(fn, args[n], env, t) for n, t in zip(["x", "y", "type", "slides"], tys)]
                for v, t in zip(vs, tys):
                    unify(v.ty, t, e)
                return V(sum((v.pre for v in vs), []), app("mkMove", *[v.term for v in vs]), MOVE)
            if cc[0] == "evolve":
                return self.evolve(fn, e, env)
            if cc[0] == "sc_ctor":
                args = self.bind_args(e, ["stones", "caps"], {})
                vs = [self.pure(fn, args[n], env, INT) for n in ("stones", "caps")]
                for v in vs:
                    unify(v.ty, INT, e)
                return V(sum((v.pre for v in vs), []), app("mkSC", *[v.term for v in vs]), SC)
            if cc[0] == "config_ctor":
                none = ast.Constant(value=None)
                args = self.bind_args(e, ["size", "pieces", "capstones"], {"pieces": none, "capstones": none})
                tys = [INT, O(INT), O(INT)]
                vs = [self.pure(fn, args[n], env, t) for n, t in zip(["size", "pieces", "capstones"], tys)]
                for v, t in zip(vs, tys):
                    unify(v.ty, t, e)
                return V(sum((v.pre for v in vs), []), app("mkCfg", *[v.term for v in vs]), CONFIG)
            if cc[0] == "classmethod":
                if e.keywords:
                    fail(e, "keyword arguments")
                return self.call_function(fn, cc[1], [], e.args, env, e)
            fail(e, "call")
        if isinstance(f, ast.Name) and env.has(f.id) and isinstance(env.get(f.id)[1], tuple) \
                and env.get(f.id)[1] == CLS("Position"):
            args = self.bind_args(e, ["size", "stones", "ply", "board"], {})
            tys = [INT, T(SC, SC), INT, L(L(PIECE))]
            vs = [self.pure(fn, args[n], env, t) for n, t in zip(["size", "stones", "ply", "board"], tys)]
            for v, t in zip(vs, tys):
                unify(v.ty, t, e)
            return V(sum((v.pre for v in vs), []),
                     app("mk_position", vs[0].term, vs[1].term, vs[2].term, vs[3].term), POS)
        if isinstance(f, ast.Name) and not env.has(f.id):
            for q, info in self.funcs.items():
                if q == f.id and info["module"] == fn.module:
                    return self.call_function(fn, q, [], e.args, env, e)
            fail(e, f"call of {f.id}")
        if isinstance(f, ast.Attribute) and self.const_chain(f.value, env) is None:
            sm = self.str_method(fn, e, env)
            if sm is not None:
                return sm
            if self.oracle_mode:
                o = self.oracle_call(fn, e, env)
                if o is not None:
                    return o
            if self.tensor_mode and f.attr in ("item", "numpy") and not e.args and not e.keywords:
                # a 1-d integer tensor is the list of its entries: t[i].item() is the entry, t[i:].numpy() the slice
                recv = self.pure(fn, f.value, env)
                if (f.attr == "item" and recv.ty == INT) or (f.attr == "numpy" and recv.ty == L(INT)):
                    return recv
        if isinstance(f, ast.Attribute):
            recv = self.pure(fn, f.value, env)
            q = METHODS.get((recv.ty, f.attr))
            if q is None:
                fail(e, f"method {f.attr} of a {recv.ty}")
            if e.keywords:
                fail(e, "keyword arguments")
            return self.call_function(fn, q, [recv], e.args, env, e)
        fail(e, "call")

    def oracle_call(self, fn, e, env):
        """self_play.py: what is read off the engine, the probability tensor and the logits tensor"""
        f = e.func
        src = _src(e)
        if f.attr == "item" and isinstance(f.value, ast.Call) and _src(f.value.func) == "torch.multinomial" \
                and len(f.value.args) == 2 and _src(f.value.args[1]) == "1" and not f.value.keywords and not e.args:
            p = self.pure(fn, f.value.args[0], env)      # torch.multinomial(probs, 1).item(): the sampler's answer
            if p.ty != PROBS:
                fail(e, "torch.multinomial of something that is not engine.tree_probs(tree)")
            return V(p.pre, app("op_pick", p.term), INT)
        recv = self.pure(fn, f.value, env)
        if recv.ty == ENGINE and f.attr == "tree_probs" and len(e.args) == 1 and not e.keywords:
            t = self.pure(fn, e.args[0], env)
            if t.ty != TREE:
                fail(e, "engine.tree_probs of something that is not a tree")
            return V(recv.pre + t.pre, app("engine_tree_probs", t.term), PROBS)
        if recv.ty == PROBS and f.attr == "numpy" and not e.args and not e.keywords:
            return V(recv.pre, app("op_probs", recv.term), L(FLOAT))
        if recv.ty == L(L(FLOAT)) and f.attr == "size" and len(e.args) == 1 and _src(e.args[0]) == "0":
            return V(recv.pre, app("len", recv.term), INT)          # logits.size(0)
        return None

    def as_str_tree(self, fn, node, env):
        """the argument of str.format as a computation of its str() (an int prints through py_str_int)"""
        if isinstance(node, ast.IfExp):
            c = self.pure(fn, node.test, env)
            if c.pre:
                fail(node, "condition that can raise inside a format argument")
            return ("if", self.truth(c, node.test), self.as_str_tree(fn, node.body, env),
                    self.as_str_tree(fn, node.orelse, env))
        v = self.pure(fn, node, env)
        if v.ty == INT:
            return wrap(v.pre, ("tail", app("py_str_int", v.term)))
        if v.ty == L(CHAR):
            return wrap(v.pre, ("ret", v.term))
        if v.ty == CHAR:
            return wrap(v.pre, ("ret", f"[{v.term}]"))
        fail(node, f"format argument of type {v.ty}")

    def str_method(self, fn, e, env):
        """s.split(c) / sep.join(l) / s.isascii() / s.isdigit() / "..{0}..".format(x); None when not a str method"""
        f = e.func
        if f.attr not in ("split", "join", "isascii", "isdigit", "format"):
            return None
        recv = self.pure(fn, f.value, env)
        if recv.ty != L(CHAR):
            return None
        if e.keywords:
            fail(e, "keyword arguments")
        if f.attr in ("isascii", "isdigit") and not e.args:
            return V(recv.pre, app("py_" + f.attr, recv.term), BOOL)
        if f.attr == "split" and len(e.args) == 1:
            sep = self.pure(fn, e.args[0], env)
            if sep.lit is None or len(sep.lit) != 1:
                fail(e, "split: a one-character literal separator expected")
            return V(recv.pre, app("py_split1", f'(ch "{sep.lit}")', recv.term), L(L(CHAR)), False, True)
        if f.attr == "join" and len(e.args) == 1:
            arg = self.iterable(fn, e.args[0], env)
            if arg.ty != L(L(CHAR)):
                fail(e, "join of something that is not a list of str")
            return V(recv.pre + arg.pre, app("py_join", recv.term, arg.term), L(CHAR))
        if f.attr == "format" and recv.lit is not None:
            import string
            parts, pre = [], list(recv.pre)
            auto = 0
            for text, field, spec, conv in string.Formatter().parse(recv.lit):
                if text:
                    parts.append(f'pystr "{text}"')
                if field is None:
                    continue
                if spec or conv:
                    fail(e, "format specification")
                if field == "":
                    k, auto = auto, auto + 1
                elif field.isdigit():
                    k = int(field)
                else:
                    fail(e, "format field")
                if k >= len(e.args):
                    fail(e, "format: missing argument")
                tree = self.as_str_tree(fn, e.args[k], env)
                t = fn.temp()
                pre.append(("bind", t, tree))
                parts.append(t)
            return V(pre, " ++ ".join(opd(x) for x in parts) if parts else "[]", L(CHAR))
        fail(e, f"str method {f.attr}")

    def bind_args(self, e, names, defaults):
        if len(e.args) > len(names):
            fail(e, "too many arguments")
        out = dict(zip(names, e.args))
        for kw in e.keywords:
            if kw.arg is None or kw.arg not in names or kw.arg in out:
                fail(e, "keyword argument")
            out[kw.arg] = kw.value
        for n in names:
            if n not in out:
                if n not in defaults:
                    fail(e, f"missing argument {n}")
                out[n] = defaults[n]
        return out

    def call_function(self, fn, qual, recv_vals, arg_nodes, env, node):
        if qual not in self.funcs:
            fail(node, f"{qual} is called but is not (yet) translated")
        info = self.funcs[qual]
        ptys = info["params"]
        if len(recv_vals) + len(arg_nodes) != len(ptys):
            fail(node, "number of arguments")
        pre, terms = [], []
        for name, ty in info["extra"]:
            if not env.has(name):
                fail(node, f"{qual} reads the global {name}, which is not being built here")
            coq, t, _ = env.get(name)
            unify(t, ty, node)
            terms.append(coq)
        for v, t in zip(recv_vals, ptys):
            unify(v.ty, t, node)
            pre += v.pre
            terms.append(v.term)
        for a, t in zip(arg_nodes, ptys[len(recv_vals):]):
            v = self.pure(fn, a, env, t)
            unify(v.ty, t, a)
            pre += v.pre
            terms.append(v.term)
        return V(pre, app(info["coq"], *terms), info["ret"], not info["pure"])

    def any_all(self, fn, e, env, name):
        a = e.args[0]
        if isinstance(a, ast.GeneratorExp):
            if len(a.generators) != 1 or a.generators[0].ifs or a.generators[0].is_async:
                fail(e, "generator expression")
            g = a.generators[0]
            it = self.iterable(fn, g.iter, env)
            pat, env2 = self.bind_target(g.target, it.ty[1], env, fn)
            body = self.expr(fn, a.elt, env2)
            if body.comp or body.pre:
                fail(e, "generator expression whose element can raise")
            pred = f"(fun {pat} => {self.truth(body, a.elt)})"
        else:
            it = self.iterable(fn, a, env)
            if isinstance(it.ty[1], tuple) and it.ty[1][0] == "list":
                pred = "truthy_list"
            elif it.ty[1] == BOOL:
                pred = "(fun b => b)"
            else:
                fail(e, f"{name} over values of type {it.ty[1]}")
        return V(it.pre, app("existsb" if name == "any" else "forallb", pred, it.term), BOOL)

    def evolve(self, fn, e, env):
        if len(e.args) == 1 and e.keywords and all(k.arg in DELTA_KEYS for k in e.keywords):
            o = self.pure(fn, e.args[0], env)          # attrs.evolve(position, stones=.., ...)
            if o.ty != POS or len({k.arg for k in e.keywords}) != len(e.keywords):
                fail(e, "attrs.evolve with keywords: a Position expected")
            pre, term = list(o.pre), "delta_empty"
            for k in e.keywords:
                v = self.pure(fn, k.value, env, DELTA_KEYS[k.arg][1])
                unify(v.ty, DELTA_KEYS[k.arg][1], e)
                pre += v.pre
                term = app(DELTA_KEYS[k.arg][0], term, v.term)
            return V(pre, app("evolve_position", o.term, term), POS)
        if len(e.args) != 1 or len(e.keywords) != 1 or e.keywords[0].arg is not None:
            fail(e, "attrs.evolve: expected evolve(obj, **mapping)")
        o = self.pure(fn, e.args[0], env)
        kw = e.keywords[0].value
        if o.ty == POS:
            d = self.pure(fn, kw, env)
            if d.ty != DELTA or not isinstance(kw, ast.Name):
                fail(e, "attrs.evolve(<Position>, **x): x must be the delta dict")
            if fn.alias:
                fail(e, "delta still refers to a list that may change")
            return V(o.pre + d.pre, app("evolve_position", o.term, d.term), POS)
        if o.ty == SC:
            if not (isinstance(kw, ast.Dict) and len(kw.keys) == 1 and kw.keys[0] is not None):
                fail(e, "attrs.evolve(<StoneCounts>, **{name: value}) expected")
            k = self.pure(fn, kw.keys[0], env)
            v = self.pure(fn, kw.values[0], env)
            if k.ty != STR or v.ty != INT:
                fail(e, "attrs.evolve(<StoneCounts>, **{str: int}) expected")
            return V(o.pre + k.pre + v.pre, app("sc_evolve", o.term, k.term, v.term), SC, True)
        fail(e, f"attrs.evolve of a {o.ty}")

    # ------------------------------------------------------------------ statements
    @staticmethod
    def falls_through(stmts):
        for s in stmts:
            if isinstance(s, (ast.Raise, ast.Return, ast.Continue)):
                return False
            if isinstance(s, ast.If) and s.orelse and not Translator.falls_through(s.body) \
                    and not Translator.falls_through(s.orelse):
                return False
            if isinstance(s, ast.Break):
                return False
        return True

    def assigned(self, stmts):
        """python locals (re)bound or updated in place by the statements, in order of first occurrence"""
        out = []

        def add(n):
            if n not in out:
                out.append(n)

        def tgt(t):
            if isinstance(t, ast.Name):
                add(t.id)
            elif isinstance(t, (ast.Tuple, ast.List)):
                for x in t.elts:
                    tgt(x)
            elif isinstance(t, ast.Starred):
                tgt(t.value)
            elif isinstance(t, ast.Subscript) and isinstance(t.value, ast.Name):
                add(t.value.id)
                add(self.cur_alias.get(t.value.id, t.value.id))
            elif isinstance(t, ast.Subscript) and isinstance(t.value, ast.Subscript) \
                    and isinstance(t.value.value, ast.Name):
                add(t.value.value.id)
            elif isinstance(t, ast.Attribute) and isinstance(t.value, ast.Name):
                add(t.value.id)          # log.result = ..
            else:
                fail(t, "assignment target")

        def walk(ss):
            for s in ss:
                for c in ast.walk(s):
                    if isinstance(c, ast.Call) and isinstance(c.func, ast.Attribute) and c.func.attr == "pop" \
                            and isinstance(c.func.value, ast.Name) and not c.args:
                        add(c.func.value.id)              # x = q.pop()
                for c in ast.walk(s) if self.oracle_mode else []:
                    if isinstance(c, ast.Call) and isinstance(c.func, ast.Attribute):
                        if c.func.attr == "analyze" and isinstance(c.func.value, ast.Name):
                            add(c.func.value.id)          # the oracle moves on
                        if c.func.attr == "append" and isinstance(c.func.value, ast.Attribute) \
                                and isinstance(c.func.value.value, ast.Name):
                            add(c.func.value.value.id)    # log.positions.append(..)
                if isinstance(s, ast.Assign):
                    for t in s.targets:
                        tgt(t)
                elif isinstance(s, ast.AugAssign):
                    tgt(s.target)
                elif isinstance(s, ast.AnnAssign):
                    fail(s, "annotated assignment")
                elif isinstance(s, ast.For):
                    tgt(s.target)
                    walk(s.body)
                    walk(s.orelse)
                elif isinstance(s, ast.If):
                    walk(s.body)
                    walk(s.orelse)
                elif isinstance(s, ast.While):
                    walk(s.body)
                    walk(s.orelse)
                elif isinstance(s, ast.Try):
                    walk(s.body)
                    for h in s.handlers:
                        walk(h.body)
                    walk(s.orelse)
                    walk(s.finalbody)
                elif isinstance(s, (ast.With, ast.FunctionDef, ast.ClassDef, ast.Delete,
                                    ast.Global, ast.Nonlocal, ast.Match, ast.Import, ast.ImportFrom)):
                    fail(s, f"statement {type(s).__name__}")
                elif isinstance(s, ast.Expr) and isinstance(s.value, ast.Call):
                    c = s.value
                    if isinstance(c.func, ast.Attribute) and isinstance(c.func.value, ast.Name):
                        if c.func.attr in ("append", "reverse", "add"):
                            add(c.func.value.id)
                        else:   # self.f(.., delta): the callee updates the dict it is given
                            for a in c.args:
                                if isinstance(a, ast.Name) and a.id == "delta":
                                    add(a.id)
        walk(stmts)
        return out

    def definitely(self, stmts):
        """locals bound on every path that falls through the statements (conservative)"""
        out = set()
        for s in stmts:
            if isinstance(s, ast.Assign):
                for t in s.targets:
                    if isinstance(t, ast.Name):
                        out.add(t.id)
                    elif isinstance(t, ast.Tuple):
                        out |= {x.id for x in t.elts if isinstance(x, ast.Name)}
                        out |= {x.value.id for x in t.elts if isinstance(x, ast.Starred) and isinstance(x.value, ast.Name)}
            elif isinstance(s, ast.If) and s.orelse:
                a_ft, b_ft = self.falls_through(s.body), self.falls_through(s.orelse)
                if a_ft and b_ft:
                    out |= self.definitely(s.body) & self.definitely(s.orelse)
                elif a_ft:
                    out |= self.definitely(s.body)
                elif b_ft:
                    out |= self.definitely(s.orelse)
        return out

    def block(self, fn, stmts, env, k, ctx):
        if not stmts:
            return k(env)
        s, rest = stmts[0], stmts[1:]
        return self.stmt(fn, s, env, lambda env2: self.block(fn, rest, env2, k, ctx), ctx, bool(rest))

    def stmt(self, fn, s, env, cont, ctx, has_rest):
        if isinstance(s, ast.Pass) or (isinstance(s, ast.Expr) and isinstance(s.value, ast.Constant)
                                       and isinstance(s.value.value, str)):
            return cont(env)
        if isinstance(s, ast.Raise):
            if s.cause is not None or s.exc is None:
                fail(s, "raise")
            exc = s.exc.func if isinstance(s.exc, ast.Call) else s.exc
            name = _src(exc)
            if isinstance(s.exc, ast.Call):      # the message must not raise itself
                for a in s.exc.args:
                    if not isinstance(a, ast.Constant):
                        m = self.expr(fn, a, env)
                        if m.comp or m.pre or m.ty not in (L(CHAR), STR):
                            fail(s, "exception argument that is not a literal or a str concatenation")
            if name == self.illegal:
                return ("raise", "Illegal")
            if name in EXN:
                return ("raise", f"Crash {name}")
            fail(s, "exception class")
        if isinstance(s, ast.Assert):
            c = self.pure(fn, s.test, env)
            if isinstance(s.msg, ast.JoinedStr):      # evaluated only when the assertion fails; must not raise itself
                for part in s.msg.values:
                    if isinstance(part, ast.FormattedValue):
                        m = self.expr(fn, part.value, env)
                        if m.comp or m.pre or part.format_spec is not None:
                            fail(s, "assert message that can raise")
            elif s.msg is not None and not isinstance(s.msg, ast.Constant):
                fail(s, "assert message")
            return wrap(c.pre, ("if", app("negb", self.truth(c, s.test)), ("raise", "Crash AssertionError"), cont(env)))
        if isinstance(s, ast.Continue):
            if ctx.get("continue") is None:
                fail(s, "continue outside a loop")
            return ctx["continue"](env)
        if isinstance(s, ast.Break):
            if ctx.get("break") is None:
                fail(s, "break outside a while loop")
            return ctx["break"](env)
        if self.oracle_mode and _src(s) in SKIPPED_STATEMENTS:
            return cont(env)
        if isinstance(s, ast.Return):
            if fn.loop_depth:
                if ctx.get("return") is None or s.value is None:
                    fail(s, "return inside a for loop")
                return ctx["return"](env, s)
            return self.do_return(fn, s.value, env, s)
        if isinstance(s, ast.Assign):
            if len(s.targets) != 1:
                fail(s, "chained assignment")
            return self.assign(fn, s.targets[0], s.value, env, cont, s)
        if isinstance(s, ast.AugAssign) and isinstance(s.target, ast.Subscript) \
                and isinstance(s.target.value, ast.Subscript) and isinstance(s.target.value.value, ast.Name):
            return self.aug_nested(fn, s, env, cont)
        if isinstance(s, ast.AugAssign):
            if not isinstance(s.target, ast.Name) or not env.has(s.target.id):
                fail(s, "augmented assignment target")
            binop = ast.BinOp(left=ast.Name(id=s.target.id, ctx=ast.Load()), op=s.op, right=s.value)
            ast.copy_location(binop, s)
            ast.fix_missing_locations(binop)
            return self.assign(fn, s.target, binop, env, cont, s)
        if isinstance(s, ast.Expr) and isinstance(s.value, ast.Call):
            return self.call_stmt(fn, s.value, env, cont)
        if isinstance(s, ast.If):
            return self.if_stmt(fn, s, env, cont, ctx)
        if isinstance(s, ast.For):
            return self.for_stmt(fn, s, env, cont, ctx)
        if isinstance(s, ast.While):
            return self.while_stmt(fn, s, env, cont, ctx)
        if isinstance(s, ast.Try):
            return self.try_stmt(fn, s, env, cont, ctx)
        fail(s, f"statement {type(s).__name__}")

    def aug_nested(self, fn, s, env, cont):
        """t[i][j] op= v  where t is a pair of lists this function created: the list t[i] is updated in place, which
        is visible through t"""
        name = s.target.value.value.id
        if not env.has(name):
            fail(s, "augmented assignment target")
        coq, ty, fresh = env.get(name)
        if not (isinstance(ty, tuple) and ty[0] == "tuple" and len(ty) == 3 and ty[1] == ty[2]
                and isinstance(ty[1], tuple) and ty[1][0] == "list") or not fresh:
            fail(s, f"{name}[i][j] op= v: {name} must be a pair of lists created here")
        self.check_not_aliased(fn, name, s)
        i = self.pure(fn, s.target.value.slice, env)
        inner = fn.temp()
        j = self.pure(fn, s.target.slice, env)
        old = fn.temp()
        v = self.pure(fn, s.value, env)
        if i.ty != INT or j.ty != INT or v.ty != INT or ty[1][1] != INT or not isinstance(s.op, (ast.Add, ast.Sub)):
            fail(s, "nested augmented assignment over non-ints")
        op = "+" if isinstance(s.op, ast.Add) else "-"
        inner2 = fn.temp()
        pre = (i.pre + [("bind", inner, app("py_tuple2_get", coq, i.term))] + j.pre +
               [("bind", old, app("py_getitem", inner, j.term))] + v.pre +
               [("bind", inner2, app("py_setitem", inner, j.term, f"{old} {op} {opd(v.term)}")),
                ("bind", coq, app("py_tuple2_update", coq, i.term, inner2))])
        return wrap(pre, cont(env))

    def do_return(self, fn, value, env, node):
        if fn.ret_ty == DELTA:
            if value is not None:
                fail(node, "return with a value in a function that works through its dict argument")
            return self.exit_delta(fn, env, node)
        if value is None:
            fail(node, "bare return")
        v = self.expr(fn, value, env, fn.ret_ty)
        if v.comp and v.ty == fn.ret_ty:
            return wrap(v.pre, ("tail", v.term))
        if v.comp:
            v = self.coerce(self.force(fn, v), fn.ret_ty, node)
        unify(v.ty, fn.ret_ty, node)
        return wrap(v.pre, ("ret", v.term))

    def exit_delta(self, fn, env, node):
        """end of a function whose result is its dict argument: resolve the list references it holds"""
        if not env.has("delta"):
            fail(node, "no delta")
        coq, ty, _ = env.get("delta")
        pre = []
        for key, local in fn.alias.items():
            lc, lty, _ = env.get(local)
            unify(lty, DELTA_KEYS[key][1], node)
            pre.append(("let", coq, app(DELTA_KEYS[key][0], coq, lc)))
        return wrap(pre, ("ret", coq))

    def check_not_aliased(self, fn, name, node):
        if name in fn.alias.values():
            fail(node, f"{name} is rebound while delta refers to the list it named")

    def assign(self, fn, target, value, env, cont, node):
        if isinstance(target, ast.Name) and isinstance(value, ast.Call) and isinstance(value.func, ast.Attribute) \
                and value.func.attr == "pop" and not value.args and not value.keywords \
                and isinstance(value.func.value, ast.Name) and env.has(value.func.value.id):
            # x = q.pop(): the LAST element; IndexError on an empty list
            qn = value.func.value.id
            qc, qty, qfresh = env.get(qn)
            if not (isinstance(qty, tuple) and qty[0] == "list") or not qfresh or target.id == qn:
                fail(node, "pop() from something that is not a list created here")
            self.check_not_aliased(fn, target.id, node)
            c = self.cname(target.id)
            env2 = env.set(target.id, c, qty[1]).set(qn, qc, qty, True)
            return ("bind", pattern([c, qc]), app("py_pop", qc), cont(env2))
        if self.oracle_mode:
            r = self.oracle_assign(fn, target, value, env, cont, node)
            if r is not None:
                return r
        if isinstance(target, ast.Name):
            self.check_not_aliased(fn, target.id, node)
            if isinstance(value, ast.Dict) and target.id == "delta":
                return self.delta_literal(fn, target, value, env, cont)
            v = self.expr(fn, value, env)
            c = self.cname(target.id)
            ty = v.ty
            if ty == NONE and not env.has(target.id):
                # x = None: Optional[T], T from the first x.append(e) that can be typed here
                hint = None
                for n in ast.walk(fn.body) if fn.body is not None else []:
                    if isinstance(n, ast.Call) and isinstance(n.func, ast.Attribute) and n.func.attr == "append" \
                            and isinstance(n.func.value, ast.Name) and n.func.value.id == target.id and len(n.args) == 1:
                        scratch = Fn(self, fn.module, fn.qual, fn.coq)
                        scratch.ntemp = 10 ** 6
                        try:
                            t = self.force(scratch, self.expr(scratch, n.args[0], env)).ty
                        except Untranslatable:
                            continue
                        if known(t):
                            hint = O(L(t))
                            break
                if hint is None:
                    fail(node, "a variable holding None whose other values cannot be typed")
                return ("let", c, "None", cont(env.set(target.id, c, hint, True)))
            if env.has(target.id) and isinstance(env.get(target.id)[1], tuple) and env.get(target.id)[1][0] == "opt" \
                    and not v.comp and not (isinstance(ty, tuple) and ty[0] == "opt"):
                oty = env.get(target.id)[1]
                if ty == NONE:
                    return wrap(v.pre, ("let", c, "None", cont(env.set(target.id, c, oty, True))))
                return wrap(v.pre, ("let", c, app("Some", v.term), cont(env.set(target.id, c, O(unify(oty[1], ty, node)), v.fresh))))
            if ty == NONE:
                fail(node, "a variable holding None")
            if env.has(target.id):      # a variable keeps its type
                ty = unify(env.get(target.id)[1], ty, node)
            if ty == L(None) and target.id in self.local_hints.get((fn.module, fn.qual), {}):
                ty = self.local_hints[(fn.module, fn.qual)][target.id]
            if ty == L(None) and fn.body is not None:
                # x = []: the element type from the first x.append(e) whose e can be typed here
                for n in ast.walk(fn.body):
                    if isinstance(n, ast.Call) and isinstance(n.func, ast.Attribute) and n.func.attr == "append" \
                            and isinstance(n.func.value, ast.Name) and n.func.value.id == target.id and len(n.args) == 1:
                        scratch = Fn(self, fn.module, fn.qual, fn.coq)
                        scratch.ntemp = 10 ** 6
                        try:
                            t = self.expr(scratch, n.args[0], env).ty
                        except Untranslatable:
                            continue
                        if known(t):
                            ty = L(t)
                            break
            env2 = env.set(target.id, c, ty, v.fresh)
            return wrap(v.pre, ("bind" if v.comp else "let", c, v.term, cont(env2)))
        if isinstance(target, ast.Tuple) and len(target.elts) == 2 and isinstance(target.elts[0], ast.Name) \
                and isinstance(target.elts[1], ast.Starred) and isinstance(target.elts[1].value, ast.Name):
            # head, *rest = l   (ValueError on an empty list)
            h, r = target.elts[0].id, target.elts[1].value.id
            self.check_not_aliased(fn, h, node)
            self.check_not_aliased(fn, r, node)
            v = self.pure(fn, value, env)
            if not (isinstance(v.ty, tuple) and v.ty[0] == "list") or h == r:
                fail(node, "starred unpacking of something that is not a list")
            ch, cr = self.cname(h), self.cname(r)
            env2 = env.set(h, ch, v.ty[1]).set(r, cr, v.ty, True)
            return wrap(v.pre, ("bind", pattern([ch, cr]), app("py_uncons", v.term), cont(env2)))
        if isinstance(target, ast.Tuple):
            if not all(isinstance(x, ast.Name) for x in target.elts):
                fail(node, "nested unpacking")
            for x in target.elts:
                self.check_not_aliased(fn, x.id, node)
            v = self.expr(fn, value, env)
            if isinstance(v.ty, tuple) and v.ty[0] == "list" and len(target.elts) in (2, 3) and known(v.ty):
                # a, b, c = l : ValueError unless len(l) is right
                v = self.force(fn, v)
                v = V(v.pre, app(f"py_unpack{len(target.elts)}", v.term), T(*([v.ty[1]] * len(target.elts))), True)
            if not (isinstance(v.ty, tuple) and v.ty[0] == "tuple" and len(v.ty) == len(target.elts) + 1):
                fail(node, f"unpacking a {v.ty} into {len(target.elts)} names")
            names, env2 = [], env
            for x, t in zip(target.elts, v.ty[1:]):
                c = self.cname(x.id)
                names.append(c)
                env2 = env2.set(x.id, c, t)
            if len(set(names)) != len(names):
                fail(node, "repeated name in unpacking")
            return wrap(v.pre, ("bind" if v.comp else "let", pattern(names), v.term, cont(env2)))
        if isinstance(target, ast.Subscript) and isinstance(target.value, ast.Name) and env.has(target.value.id):
            name = target.value.id
            coq, ty, fresh = env.get(name)
            if ty == DELTA:
                key = target.slice
                if not (isinstance(key, ast.Constant) and key.value in DELTA_KEYS):
                    fail(node, "delta key")
                setter, kty = DELTA_KEYS[key.value]
                if key.value in fn.alias:
                    fail(node, "delta key set twice")
                if isinstance(value, ast.Name) and env.has(value.id) and isinstance(env.get(value.id)[1], tuple) \
                        and env.get(value.id)[1][0] == "list":
                    # a reference to a mutable list: resolved at the function's exit
                    if fn.loop_depth or fn.branch_depth:
                        fail(node, "delta[..] = <list variable> inside a loop or branch")
                    if not env.get(value.id)[2]:
                        fail(node, "delta refers to a list the function did not create")
                    unify(env.get(value.id)[1], kty, node)
                    fn.alias[key.value] = value.id
                    return cont(env)
                v = self.pure(fn, value, env, kty)
                unify(v.ty, kty, node)
                return wrap(v.pre, ("let", coq, app(setter, coq, v.term), cont(env)))
            if isinstance(ty, tuple) and ty[0] == "list":
                if not fresh:
                    fail(node, f"item assignment into {name}, a list this function did not create")
                if isinstance(target.slice, ast.Slice):
                    fail(node, "slice assignment")
                i = self.pure(fn, target.slice, env)
                v = self.pure(fn, value, env, ty[1] if known(ty[1]) else None)
                if i.ty != INT:
                    fail(node, "index that is not an int")
                nty = L(unify(ty[1], v.ty, node))
                env2 = env.set(name, coq, nty, True)
                return wrap(i.pre + v.pre, ("bind", coq, app("py_setitem", coq, i.term, v.term), cont(env2)))
        fail(node, "assignment target")

    def oracle_assign(self, fn, target, value, env, cont, node):
        """self_play.py statement forms; None = not one of them"""
        src = _src(value)
        if isinstance(target, ast.Name) and isinstance(value, ast.Call) and isinstance(value.func, ast.Attribute) \
                and value.func.attr == "analyze" and isinstance(value.func.value, ast.Name) \
                and env.has(value.func.value.id) and env.get(value.func.value.id)[1] == ENGINE:
            # tree = engine.analyze(position): the next answer of the oracle; the engine moves on
            if len(value.args) != 1 or value.keywords:
                fail(node, "engine.analyze(position) expected")
            a = self.pure(fn, value.args[0], env)
            if a.ty != POS:
                fail(node, "engine.analyze of something that is not a position")
            en = value.func.value.id
            ec = env.get(en)[0]
            tc = self.cname(target.id)
            env2 = env.set(target.id, tc, TREE).set(en, ec, ENGINE)
            return wrap(a.pre, ("bind", pattern([tc, ec]), app("engine_analyze", ec), cont(env2)))
        if isinstance(target, ast.Name) and src == "Transcript()":
            c = self.cname(target.id)
            return ("let", c, "tr_new", cont(env.set(target.id, c, TRANSCRIPT, True)))
        if isinstance(target, ast.Attribute) and isinstance(target.value, ast.Name) and env.has(target.value.id) \
                and env.get(target.value.id)[1] == TRANSCRIPT and target.attr in TRANSCRIPT_SETTERS:
            coq, ty, fresh = env.get(target.value.id)
            if not fresh:
                fail(node, "field assignment on a transcript this function did not create")
            fty = ATTRS[(TRANSCRIPT, target.attr)][1]
            v = self.pure(fn, value, env, fty)
            unify(v.ty, fty, node)
            return wrap(v.pre, ("let", coq, app(TRANSCRIPT_SETTERS[target.attr], coq, v.term), cont(env)))
        if isinstance(target, ast.Name) and isinstance(value, ast.Call) and _src(value.func) == "torch.zeros" \
                and len(value.args) == 1 and isinstance(value.args[0], ast.Tuple) and len(value.args[0].elts) == 2 \
                and not value.keywords:
            a, b = [self.pure(fn, x, env) for x in value.args[0].elts]
            if a.ty != INT or b.ty != INT:
                fail(node, "torch.zeros of non-int dimensions")
            c = self.cname(target.id)
            return wrap(a.pre + b.pre, ("bind", c, app("py_zeros2", a.term, b.term), cont(env.set(target.id, c, L(L(FLOAT)), True))))
        if isinstance(target, ast.Name) and isinstance(value, ast.Call) and isinstance(value.func, ast.Attribute) \
                and value.func.attr == "numpy" and isinstance(value.func.value, ast.Name) and not value.args \
                and env.has(value.func.value.id) and env.get(value.func.value.id)[1] == L(L(FLOAT)):
            # np_view = logits.numpy(): the SAME storage under another name
            src_name = value.func.value.id
            if not env.get(src_name)[2] or target.id in fn.name_alias or env.has(target.id):
                fail(node, "numpy view of a tensor this function did not create")
            fn.name_alias[target.id] = src_name
            return cont(env)
        if isinstance(target, ast.Subscript) and isinstance(target.value, ast.Name) and isinstance(target.slice, ast.Tuple) \
                and len(target.slice.elts) == 2:
            name = fn.name_alias.get(target.value.id, target.value.id)
            if not env.has(name) or env.get(name)[1] != L(L(FLOAT)) or not env.get(name)[2]:
                fail(node, "2-d item assignment into something that is not a tensor created here")
            coq = env.get(name)[0]
            i, j = [self.pure(fn, x, env) for x in target.slice.elts]
            v = self.pure(fn, value, env, FLOAT)
            if i.ty != INT or j.ty != INT or v.ty != FLOAT:
                fail(node, "t[i, j] = v with other types")
            row, row2 = fn.temp(), fn.temp()
            pre = (v.pre if False else []) + i.pre + j.pre + v.pre + [
                ("bind", row, app("py_getitem", coq, i.term)), ("bind", row2, app("py_setitem", row, j.term, v.term)),
                ("bind", coq, app("py_setitem", coq, i.term, row2))]
            return wrap(pre, cont(env))
        return None

    def delta_literal(self, fn, target, value, env, cont):
        term = "delta_empty"
        pre = []
        seen = set()
        for k, x in zip(value.keys, value.values):
            if not (isinstance(k, ast.Constant) and k.value in DELTA_KEYS) or k.value in seen:
                fail(value, "delta key")
            seen.add(k.value)
            v = self.pure(fn, x, env, DELTA_KEYS[k.value][1])
            unify(v.ty, DELTA_KEYS[k.value][1], x)
            if isinstance(v.ty, tuple) and v.ty[0] == "list":
                fail(x, "a list inside the delta literal")
            pre += v.pre
            term = app(DELTA_KEYS[k.value][0], term, v.term)
        c = self.cname("delta")
        return wrap(pre, ("let", c, term, cont(env.set("delta", c, DELTA))))

    def call_stmt(self, fn, c, env, cont):
        f = c.func
        if self.oracle_mode and isinstance(f, ast.Attribute) and f.attr == "append" and isinstance(f.value, ast.Attribute) \
                and isinstance(f.value.value, ast.Name) and env.has(f.value.value.id) \
                and env.get(f.value.value.id)[1] == TRANSCRIPT and f.value.attr in TRANSCRIPT_SETTERS:
            # log.positions.append(x): the list field of a transcript created here
            coq, ty, fresh = env.get(f.value.value.id)
            acc, fty = ATTRS[(TRANSCRIPT, f.value.attr)]
            if not fresh or len(c.args) != 1 or c.keywords or fty[0] != "list":
                fail(c, "append to a field of a transcript this function did not create")
            v = self.pure(fn, c.args[0], env, fty[1])
            unify(v.ty, fty[1], c)
            return wrap(v.pre, ("let", coq, app(TRANSCRIPT_SETTERS[f.value.attr], coq, f"{app(acc, coq)} ++ [{v.term}]"), cont(env)))
        if isinstance(f, ast.Attribute) and f.attr == "append" and isinstance(f.value, ast.Name) and env.has(f.value.id) \
                and isinstance(env.get(f.value.id)[1], tuple) and env.get(f.value.id)[1][0] == "opt":
            # x.append(v) where x may be None: AttributeError
            name = f.value.id
            coq, ty, fresh = env.get(name)
            if not (isinstance(ty[1], tuple) and ty[1][0] == "list") or len(c.args) != 1 or c.keywords or not fresh:
                fail(c, "append to an optional list that is shared or not a list")
            v = self.pure(fn, c.args[0], env, ty[1][1] if known(ty[1][1]) else None)
            nty = O(L(unify(ty[1][1], v.ty, c)))
            return wrap(v.pre, ("bind", coq, app("py_opt_append", coq, v.term), cont(env.set(name, coq, nty, True))))
        if isinstance(f, ast.Attribute) and f.attr == "add" and isinstance(f.value, ast.Name) and env.has(f.value.id) \
                and isinstance(env.get(f.value.id)[1], tuple) and env.get(f.value.id)[1][0] == "set" and len(c.args) == 1:
            name = f.value.id
            coq, ty, fresh = env.get(name)
            if not fresh or c.keywords:
                fail(c, "add to a set this function did not create")
            v = self.pure(fn, c.args[0], env)
            nty = ("set", unify(ty[1], v.ty, c))
            return wrap(v.pre, ("let", coq, f"{opd(v.term)} :: {opd(coq)}", cont(env.set(name, coq, nty, True))))
        if isinstance(f, ast.Attribute) and f.attr == "reverse" and isinstance(f.value, ast.Name) and env.has(f.value.id) \
                and not c.args and not c.keywords:
            name = f.value.id
            coq, ty, fresh = env.get(name)
            if not (isinstance(ty, tuple) and ty[0] == "list") or not fresh:
                fail(c, "reverse() of something that is not a list created here")
            return ("let", coq, app("rev", coq), cont(env))
        if isinstance(f, ast.Attribute) and f.attr == "append" and isinstance(f.value, ast.Name) and env.has(f.value.id):
            name = f.value.id
            coq, ty, fresh = env.get(name)
            if not (isinstance(ty, tuple) and ty[0] == "list") or len(c.args) != 1 or c.keywords:
                fail(c, "append")
            if not fresh:
                fail(c, f"append to {name}, a list this function did not create")
            v = self.pure(fn, c.args[0], env, ty[1] if known(ty[1]) else None)
            nty = L(unify(ty[1], v.ty, c))
            env2 = env.set(name, coq, nty, True)
            a = c.args[0]
            if isinstance(a, ast.Name) and env.has(a.id) and isinstance(v.ty, tuple) and v.ty[0] == "list":
                # the container now refers to the list a names: a may not be changed in place until it is rebound
                env2 = env2.set(a.id, env.get(a.id)[0], env.get(a.id)[1], False)
            return wrap(v.pre, ("let", coq, f"{coq} ++ [{v.term}]", cont(env2)))
        if isinstance(f, ast.Attribute):
            # a method that works through the dict it is given: self._move_slide(m, delta)
            recv = self.pure(fn, f.value, env)
            q = METHODS.get((recv.ty, f.attr))
            if q is None or q not in self.funcs or self.funcs[q]["ret"] != DELTA:
                fail(c, "call used as a statement")
            if c.keywords or not c.args or not (isinstance(c.args[-1], ast.Name) and c.args[-1].id == "delta"):
                fail(c, "the dict must be passed as the last argument, by the name delta")
            v = self.call_function(fn, q, [recv], c.args, env, c)
            coq = env.get("delta")[0]
            return wrap(v.pre, ("bind" if v.comp else "let", coq, v.term, cont(env)))
        fail(c, "call used as a statement")

    def if_stmt(self, fn, s, env, cont, ctx):
        t = s.test
        if isinstance(t, ast.Compare) and len(t.ops) == 1 and isinstance(t.ops[0], ast.IsNot) \
                and isinstance(t.comparators[0], ast.Constant) and t.comparators[0].value is None and not s.orelse \
                and len(s.body) == 1 and isinstance(s.body[0], ast.Return) and s.body[0].value is not None \
                and ast.dump(s.body[0].value) == ast.dump(t.left) and not fn.loop_depth \
                and not (isinstance(fn.ret_ty, tuple) and fn.ret_ty[0] == "opt"):
            # if X is not None: return X      (X : Optional[T], the function returns T)
            x = self.pure(fn, t.left, env)
            if not (isinstance(x.ty, tuple) and x.ty[0] == "opt"):
                fail(s, "`is not None` on a value that is not optional")
            unify(x.ty[1], fn.ret_ty, s)
            v = fn.temp()
            return wrap(x.pre, ("matchopt", x.term, v, ("ret", v), cont(env)))
        if isinstance(t, ast.Compare) and len(t.ops) == 1 and isinstance(t.ops[0], ast.Is) \
                and isinstance(t.comparators[0], ast.Constant) and t.comparators[0].value is None and not s.orelse \
                and isinstance(t.left, ast.Attribute) and not self.falls_through(s.body) and not fn.loop_depth:
            # if E is None: <return / raise>   - afterwards E is known to hold a value
            x = self.pure(fn, t.left, env)
            if isinstance(x.ty, tuple) and x.ty[0] == "opt" and not x.pre:
                v = fn.temp()
                tb = self.block(fn, s.body, env, self.unreachable, ctx)
                return ("matchopt", x.term, v, cont(env.narrowed(ast.dump(t.left), v, x.ty[1])), tb)
        env_a = env
        if isinstance(t, ast.Compare) and len(t.ops) == 1 and isinstance(t.ops[0], ast.IsNot) \
                and isinstance(t.comparators[0], ast.Constant) and t.comparators[0].value is None \
                and isinstance(t.left, ast.Name) and env.has(t.left.id) \
                and isinstance(env.get(t.left.id)[1], tuple) and env.get(t.left.id)[1][0] == "opt":
            # if x is not None: <body that uses x as the value it holds>
            name = t.left.id
            if name in self.assigned(s.body):
                fail(s, f"`if {name} is not None:` whose body rebinds {name}")
            xc, xty, xfresh = env.get(name)
            v = fn.temp()
            env_a = env.set(name, v, xty[1], xfresh)
            c = V([], None, BOOL)

            def mk(ta, tb):
                return ("matchopt", xc, v, ta, tb)
        else:
            c = self.pure(fn, s.test, env)
            cond = self.truth(c, s.test)

            def mk(ta, tb):
                return ("if", cond, ta, tb)
        a_ft, b_ft = self.falls_through(s.body), self.falls_through(s.orelse)
        depth = fn.branch_depth
        restore = (lambda e: e.set(name, xc, xty, e.get(name)[2])) if env_a is not env else (lambda e: e)

        def outside(e):      # the rest of the enclosing block is not "inside the branch"
            saved, fn.branch_depth = fn.branch_depth, depth
            try:
                return cont(e)
            finally:
                fn.branch_depth = saved
        fn.branch_depth = depth + 1
        try:
            if not (a_ft and b_ft):
                ta = self.block(fn, s.body, env_a, (lambda e: outside(restore(e))) if a_ft else self.unreachable, ctx)
                tb = self.block(fn, s.orelse, env, outside if b_ft else self.unreachable, ctx)
                return wrap(c.pre, mk(ta, tb))
            # both branches reach the rest: the variables they assign are returned as a tuple and rebound
            for x in s.body + s.orelse:
                for n in ast.walk(x):
                    if isinstance(n, (ast.Continue, ast.Return, ast.Break)):
                        fail(n, "continue / break / return inside a branch that can also fall through")
            both = self.definitely(s.body) & self.definitely(s.orelse)
            names = [n for n in self.assigned(s.body + s.orelse) if env.has(n) or n in both]
            if not names:
                fail(s, "an if statement without effect")
            ends = []

            def k(e):
                ends.append(e)
                return ("ret", ("JOIN", e))
            ta = self.block(fn, s.body, env_a, lambda e: k(restore(e)), ctx)
            tb = self.block(fn, s.orelse, env, k, ctx)
            env2 = env
            for n in names:
                ty, fresh = None, True
                for e in ends:
                    ty = unify(ty, e.get(n)[1], s)
                    fresh = fresh and e.get(n)[2]
                env2 = env2.set(n, self.cname(n), ty, fresh)
            for n in env.names():      # a list that a branch stored into a container is shared from now on
                if n not in names and env.get(n)[2] and not all(e.get(n)[2] for e in ends):
                    env2 = env2.set(n, env.get(n)[0], env.get(n)[1], False)

            def leaf(t):
                if t[0] == "ret" and isinstance(t[1], tuple) and t[1][0] == "JOIN":
                    return ("ret", tuple_term([t[1][1].get(n)[0] for n in names]))
                return t

            def fill(t):
                return map_tree(t, leaf)
            fn.branch_depth = depth
            return wrap(c.pre, ("bind", pattern([self.cname(n) for n in names]), mk(fill(ta), fill(tb)), cont(env2)))
        finally:
            fn.branch_depth = depth

    def try_stmt(self, fn, s, env, cont, ctx):
        """try: x = <expr>  except <E>: <statements that do not fall through>"""
        if s.orelse or s.finalbody or len(s.handlers) != 1 or len(s.body) != 1:
            fail(s, "try statement: one assignment and one handler expected")
        h = s.handlers[0]
        if h.name is not None or not isinstance(h.type, ast.Name) or h.type.id not in EXN:
            fail(s, "exception handler")
        b = s.body[0]
        if not (isinstance(b, ast.Assign) and len(b.targets) == 1 and isinstance(b.targets[0], ast.Name)):
            fail(s, "try body: a single assignment to a name expected")
        if self.falls_through(h.body):
            fail(s, "an exception handler that falls through")
        self.check_not_aliased(fn, b.targets[0].id, s)
        v = self.expr(fn, b.value, env)
        body = wrap(v.pre, ("tail", v.term) if v.comp else ("ret", v.term))
        handler = self.block(fn, h.body, env, self.unreachable, ctx)
        c = self.cname(b.targets[0].id)
        env2 = env.set(b.targets[0].id, c, v.ty, v.fresh)
        return ("bind", c, ("catch", body, h.type.id, handler), cont(env2))

    def while_stmt(self, fn, s, env, cont, ctx):
        """while c: body  ->  Fixpoint on fuel; running out of fuel is the outcome Crash OutOfFuel.  The fuel is an
        annotation of the translator (WHILE_FUEL, an expression over the locals at loop entry); it is not trusted:
        the equivalence theorems must show that OutOfFuel does not occur."""
        if s.orelse:
            fail(s, "while ... else")
        fn.nwhile = getattr(fn, "nwhile", 0) + 1
        key = (fn.module, fn.qual, fn.nwhile)
        if key not in self.while_fuel:
            fail(s, "while loop without a fuel annotation")
        fuel = self.pure(fn, ast.parse(self.while_fuel[key], mode="eval").body, env)
        if fuel.ty != INT or fuel.pre:
            fail(s, "fuel annotation")
        body_assigned = self.assigned(s.body)
        state = [n for n in env.names() if n in body_assigned]
        if not state:
            fail(s, "a while loop without effect")
        lname = f"{fn.coq}_while{fn.nwhile}"
        used = {n.id for b in s.body + [s.test] for n in ast.walk(b) if isinstance(n, ast.Name)}
        free = [n for n in env.names() if n in used and n not in state]
        ends = []

        def k(e):
            ends.append(e)
            return ("tailrec", ("CALL", e))
        fn.loop_depth += 1
        saved_bd, fn.branch_depth = fn.branch_depth, 0
        c = self.pure(fn, s.test, env)

        def brk(e):
            return ("ret", ("BREAK", e))
        has_return = any(isinstance(n, ast.Return) for b in s.body for n in ast.walk(b))

        def rtn(e, node):
            v = self.pure(fn, node.value, e, fn.ret_ty)
            unify(v.ty, fn.ret_ty, node)
            return wrap(v.pre, ("ret", ("RETURN", v.term)))
        body = self.block(fn, s.body, env, k, dict(ctx, **{"continue": k, "break": brk, "return": rtn}))
        fn.branch_depth = saved_bd
        fn.loop_depth -= 1
        env_after = env
        for n in state:
            ty = env.get(n)[1]
            for e in ends:
                ty = unify(ty, e.get(n)[1], s)
            env_after = env_after.set(n, env.get(n)[0], ty, env.get(n)[2])
        env0, env = env, env_after

        def call(e):
            return app(lname, *(["fuel'"] + [e.get(n)[0] for n in free] + [e.get(n)[0] for n in state]))
        def leaf(l):
            if l[0] == "tailrec" and isinstance(l[1], tuple):
                return ("tailrec", call(l[1][1]))
            if l[0] == "ret" and isinstance(l[1], tuple) and l[1][0] == "BREAK":
                t = tuple_term([l[1][1].get(n)[0] for n in state])
                return ("ret", app("inl", t) if has_return else t)
            if l[0] == "ret" and isinstance(l[1], tuple) and l[1][0] == "RETURN":
                return ("ret", app("inr", l[1][1]))
            return l
        body = map_tree(body, leaf, rhs=True)
        st_term = tuple_term([env.get(n)[0] for n in state])
        tree = purify(wrap(c.pre, ("if", self.truth(c, s.test), body, ("ret", app("inl", st_term) if has_return else st_term))))
        st_ty = coq_type(T(*[env.get(n)[1] for n in state]) if len(state) > 1 else env.get(state[0])[1], False)
        if has_return:
            st_ty = f"({st_ty} + {coq_type(fn.ret_ty, False)})"
        params = "".join(f" ({env.get(n)[0]} : {coq_type(env.get(n)[1])})" for n in free + state)
        text = (f"Fixpoint {lname} (fuel : nat){params} {{struct fuel}} : res {st_ty} :=\n"
                f"  match fuel with\n  | O => Crash OutOfFuel\n  | S fuel' =>\n{show(tree, 4, True)}\n  end.")
        fn.aux.append(text)
        callterm = app(lname, app("Z.to_nat", fuel.term), *([env.get(n)[0] for n in free] + [env.get(n)[0] for n in state]))
        if has_return:
            r, v = fn.temp(), fn.temp()
            pat = st_term if len(state) > 1 else env.get(state[0])[0]
            return ("bind", r, callterm, ("matchsum", r, pat, cont(env), v, ("ret", v)))
        return ("bind", pattern([env.get(n)[0] for n in state]), callterm, cont(env))

    @staticmethod
    def unreachable(env):
        raise Untranslatable("internal: fall-through of a block that was classified as not falling through")

    def for_stmt(self, fn, s, env, cont, ctx):
        if s.orelse:
            fail(s, "for ... else")
        it = self.iterable(fn, s.iter, env)
        root = s.iter
        while isinstance(root, (ast.Attribute, ast.Subscript)):
            root = root.value
        body_assigned = self.assigned(s.body)
        if isinstance(root, ast.Name) and root.id in body_assigned:
            fail(s, "the loop body changes the list it iterates")
        for t in ast.walk(s.target):
            if isinstance(t, ast.Name) and t.id in body_assigned:
                fail(s, "the loop body rebinds the loop variable")
        state = [n for n in env.names() if n in body_assigned]
        # locals of the body that exist afterwards in Python are not available after the loop here
        fn.nloop += 1
        lname = f"{fn.coq}_for{fn.nloop}"
        pat, env_body = self.bind_target(s.target, it.ty[1], env, fn)
        target_names = [t.id for t in ast.walk(s.target) if isinstance(t, ast.Name)]
        used = {n.id for b in s.body for n in ast.walk(b) if isinstance(n, ast.Name)}
        free = [n for n in env.names() if n in used and n not in state and n not in target_names]
        for n in target_names:
            if n in state:
                fail(s, "loop variable is also loop state")
        ends = []

        def call(e):
            return app(lname, *([e.get(n)[0] for n in free] + [e.get(n)[0] for n in state] + ["it'"]))

        def k(e):
            ends.append(e)
            return ("tailrec", ("CALL", e))
        fn.loop_depth += 1
        saved_bd = fn.branch_depth
        fn.branch_depth = 0
        body = self.block(fn, s.body, env_body, k, dict(ctx, **{"continue": k, "break": None, "return": None}))
        fn.branch_depth = saved_bd
        fn.loop_depth -= 1
        # state types: what the body makes of them (an empty list gets its element type from the appends)
        env_after = env
        for n in state:
            ty, fresh = env.get(n)[1], env.get(n)[2]
            for e in ends:
                ty = unify(ty, e.get(n)[1], s)
                if fresh and not e.get(n)[2]:
                    fail(s, f"{n} is shared with a container at the end of an iteration and changed in place in the next")
            env_after = env_after.set(n, env.get(n)[0], ty, fresh)

        def fill(t):
            return map_tree(t, lambda l: ("tailrec", call(l[1][1])) if l[0] == "tailrec" and isinstance(l[1], tuple) else l,
                            rhs=True)
        body = purify(fill(body))
        is_pure = tree_pure(body)
        st_ty = coq_type(T(*[env_after.get(n)[1] for n in state]) if len(state) > 1 else env_after.get(state[0])[1], False) \
            if state else "unit"
        params = "".join(f" ({env.get(n)[0]} : {coq_type(env_after.get(n)[1] if n in state else env.get(n)[1])})"
                         for n in free + state)
        st_term = tuple_term([env.get(n)[0] for n in state]) if state else "tt"
        if not state:
            fail(s, "a loop without effect")
        res_ty = (st_ty[1:-1] if st_ty.startswith("(") and atomic(st_ty) else st_ty) if is_pure else f"res {st_ty}"
        text = (f"Fixpoint {lname}{params} (it : {coq_type(it.ty)}) {{struct it}} : {res_ty} :=\n"
                f"  match it with\n"
                f"  | [] => {st_term if is_pure else app('ret', st_term)}\n"
                f"  | {pat} :: it' =>\n{show(body, 4, not is_pure)}\n  end.")
        fn.aux.append(text)
        callterm = app(lname, *([env.get(n)[0] for n in free] + [env.get(n)[0] for n in state] + [it.term]))
        return wrap(it.pre, ("let" if is_pure else "bind", pattern([env.get(n)[0] for n in state]), callterm,
                             cont(env_after)))

    # ------------------------------------------------------------------ functions
    def do_function(self, module, qual, coq, ptys, ret, extra):
        fd = self.find_def(module, qual)
        if fd.args.vararg or fd.args.kwarg or fd.args.kwonlyargs or fd.args.posonlyargs or \
                not all(isinstance(d, ast.Constant) for d in fd.args.defaults):
            fail(fd, "parameter list")
        decos = [_src(d) for d in fd.decorator_list]
        is_cm = decos == ["classmethod"]
        if decos not in ([], ["property"], ["classmethod"]):
            fail(fd, "decorator")
        if is_cm != (bool(ptys) and isinstance(ptys[0], tuple) and ptys[0][0] == "classref"):
            fail(fd, f"{qual}: classmethod expected / not expected")
        names = [a.arg for a in fd.args.args]
        if len(names) != len(ptys):
            fail(fd, f"{qual}: expected {len(ptys)} parameters")
        fn = Fn(self, module, qual, coq)
        fn.ret_ty = ret
        fn.body = fd
        self.cur_alias = fn.name_alias
        fn.locals = {n.id for n in ast.walk(fd) if isinstance(n, ast.Name)} | set(names)
        env = Env()
        params = []
        for n, t in extra:
            env = env.set(n, self.cname(n), t)
            params.append(f"({self.cname(n)} : {coq_type(t)})")
        for n, t in zip(names, ptys):
            env = env.set(n, self.cname(n), t)
            if not (isinstance(t, tuple) and t[0] == "classref"):
                params.append(f"({self.cname(n)} : {coq_type(t)})")
        if len({env.get(n)[0] for n in env.names()}) != len(env.names()):
            fail(fd, "parameter names")

        def end(e):
            if ret == DELTA:
                return self.exit_delta(fn, e, fd)
            fail(fd, f"{qual} can finish without a return statement")
        tree = purify(self.block(fn, fd.body, env, end, {}))
        self.emit(fn, module, qual, coq, params, [t for t in ptys if not (isinstance(t, tuple) and t[0] == "classref")],
                  ret, extra, tree)
        if is_cm:
            self.funcs[qual]["classmethod"] = True

    def emit(self, fn, module, qual, coq, params, ptys, ret, extra, tree):
        is_pure = tree_pure(tree)
        rty = coq_type(ret) if is_pure else f"res {coq_type(ret, False)}"
        head = f"Definition {coq} {' '.join(params)} : {rty} :=" if params else f"Definition {coq} : {rty} :="
        text = f"(* {module}.py: {qual} *)\n" + "".join(a + "\n" for a in fn.aux) + head + "\n" + show(tree, 2, not is_pure) + "."
        self.out.append(text)
        self.funcs[qual] = {"coq": coq, "params": ptys, "ret": ret, "pure": is_pure, "extra": extra, "module": module,
                            "file": self.cur_file}

    def do_all_slides(self, module, qual, coq, ret):
        """the module-level statements that build ALL_SLIDES, as the body of a parameterless function"""
        stmts = []
        for n in self.mods[module].body:
            names = {x.id for x in ast.walk(n) if isinstance(x, ast.Name)}
            if isinstance(n, (ast.FunctionDef, ast.ClassDef, ast.Import, ast.ImportFrom)):
                if isinstance(n, ast.FunctionDef):
                    for x in ast.walk(n):
                        if isinstance(x, ast.Name) and x.id == "ALL_SLIDES" and not isinstance(x.ctx, ast.Load):
                            fail(x, "a function rebinds ALL_SLIDES")
                        if isinstance(x, ast.Global):
                            fail(x, "global statement")
                        if isinstance(x, ast.Call) and isinstance(x.func, ast.Attribute) \
                                and _src(x.func.value) == "ALL_SLIDES":
                            fail(x, "a function calls a method of ALL_SLIDES")
                        if isinstance(x, (ast.Assign, ast.AugAssign)):
                            for t in (x.targets if isinstance(x, ast.Assign) else [x.target]):
                                if isinstance(t, ast.Subscript) and _src(t.value) == "ALL_SLIDES":
                                    fail(x, "a function stores into ALL_SLIDES")
                continue
            if "ALL_SLIDES" in names:
                stmts.append(n)
        if not stmts or not (isinstance(stmts[0], ast.Assign) and _src(stmts[0].targets[0]) == "ALL_SLIDES"):
            raise Untranslatable("module-level construction of ALL_SLIDES not found")
        for n in stmts:
            if not isinstance(n, (ast.Assign, ast.For)):
                fail(n, "module-level statement that mentions ALL_SLIDES")
        # other modules must not touch it
        for m, tree in self.mods.items():
            for x in ast.walk(tree):
                if isinstance(x, (ast.Assign, ast.AugAssign)):
                    for t in (x.targets if isinstance(x, ast.Assign) else [x.target]):
                        base = t.value if isinstance(t, ast.Subscript) else t
                        if _src(base).endswith("ALL_SLIDES") and m != module:
                            fail(x, "ALL_SLIDES is changed outside moves.py")
                if isinstance(x, ast.Call) and isinstance(x.func, ast.Attribute) and \
                        _src(x.func.value).endswith("ALL_SLIDES"):
                    fail(x, "a method of ALL_SLIDES is called")
        fn = Fn(self, module, qual, coq)
        fn.ret_ty = ret
        fn.locals = {n.id for s in stmts for n in ast.walk(s) if isinstance(n, ast.Name)}
        ret_stmt = ast.parse("return ALL_SLIDES").body[0]
        tree = purify(self.block(fn, stmts + [ret_stmt], Env(), self.unreachable, {}))
        self.emit(fn, module, qual, coq, [], [], ret, [], tree)

    def do_directions(self):
        d = None
        for n in self.mods["moves"].body:
            if isinstance(n, ast.Assign) and _src(n.targets[0]) == "DIRECTIONS":
                if d is not None:
                    fail(n, "DIRECTIONS assigned twice")
                d = n.value
            elif not isinstance(n, (ast.FunctionDef, ast.ClassDef)):
                for x in ast.walk(n):
                    if isinstance(x, ast.Name) and x.id == "DIRECTIONS" and not isinstance(x.ctx, ast.Load):
                        fail(n, "DIRECTIONS changed")
        if not isinstance(d, ast.Dict):
            raise Untranslatable("DIRECTIONS: a dict literal expected")
        fn = Fn(self, "moves", "DIRECTIONS", "DIRECTIONS")
        items = []
        for k, v in zip(d.keys, d.values):
            kv = self.expr(fn, k, Env())
            vv = self.expr(fn, v, Env())
            if kv.ty != MTYPE or vv.ty != T(INT, INT) or kv.pre or vv.pre:
                fail(d, "DIRECTIONS: MoveType -> (int, int) expected")
            items.append(f"({kv.term}, {vv.term})")
        self.out.append("(* moves.py: DIRECTIONS (a dict literal; looked up with py_dict_get, KeyError when absent) *)\n"
                        "Definition DIRECTIONS : list (mtype * (Z * Z)) :=\n  [" + "; ".join(items) + "].")

    # ------------------------------------------------------------------ module / class level constants
    def do_const(self, module, key, coq, value, comment):
        """NAME = <expression> at module or class level, as a Definition (plain, or `res` when the expression can raise)"""
        fn = Fn(self, module, key, coq)
        fn.ret_ty = None
        v = self.expr(fn, value, Env())
        if v.ty is None or not known(v.ty) or v.ty == NONE:
            fail(value, f"type of the constant {key}")
        tree = purify(wrap(v.pre, ("tail", v.term) if v.comp else ("ret", v.term)))
        is_pure = tree_pure(tree)
        if isinstance(v.ty, tuple) and v.ty[0] == "dict":
            fail(value, "dict constant")
        rty = coq_type(v.ty) if is_pure else f"res {coq_type(v.ty, False)}"
        self.out.append(f"(* {comment} *)\nDefinition {coq} : {rty} :=\n{show(tree, 2, not is_pure)}.")
        self.consts[key] = {"coq": coq, "ty": v.ty, "pure": is_pure, "file": self.cur_file}
        self.coq_names.add(coq)

    def do_class_consts(self, module, cls):
        """the assignments in the body of a class that is used as a namespace of constants (encoding.Token)"""
        cd = self.find_class(module, cls)
        if cd.bases or cd.decorator_list or cd.keywords:
            fail(cd, f"{cls} is not a plain namespace class")
        self.scope = cls + "."
        try:
            for n in cd.body:
                if isinstance(n, ast.Expr) and isinstance(n.value, ast.Constant):
                    continue
                if not (isinstance(n, ast.Assign) and len(n.targets) == 1 and isinstance(n.targets[0], ast.Name)):
                    fail(n, f"statement in the body of {cls}")
                name = n.targets[0].id
                if f"{cls}.{name}" in self.consts:
                    fail(n, f"{cls}.{name} assigned twice")
                self.do_const(module, f"{cls}.{name}", f"{cls}_{name}", n.value, f"{module}.py: {cls}.{name}")
        finally:
            self.scope = ""
        # nothing else may change the namespace
        for x in ast.walk(self.mods[module]):
            if isinstance(x, (ast.Assign, ast.AugAssign, ast.Delete)):
                for t in (x.targets if not isinstance(x, ast.AugAssign) else [x.target]):
                    base = t
                    while isinstance(base, (ast.Attribute, ast.Subscript)):
                        base = base.value
                    if isinstance(base, ast.Name) and base.id == cls and t is not base:
                        fail(x, f"{cls} is changed after its definition")
            if isinstance(x, ast.Call) and isinstance(x.func, ast.Name) and x.func.id in ("setattr", "delattr"):
                fail(x, "setattr / delattr")

    def module_assign(self, module, name):
        found = None
        for n in self.mods[module].body:
            for x in ast.walk(n) if not isinstance(n, (ast.FunctionDef, ast.ClassDef)) else []:
                if isinstance(x, ast.Name) and x.id == name and not isinstance(x.ctx, ast.Load):
                    if found is not None or not (isinstance(n, ast.Assign) and len(n.targets) == 1
                                                 and n.targets[0] is x):
                        fail(n, f"{name} is assigned more than once or not by a plain assignment")
                    found = n
        for n in ast.walk(self.mods[module]):
            if isinstance(n, ast.Global):
                fail(n, "global statement")
            if isinstance(n, (ast.Assign, ast.AugAssign)):
                for t in (n.targets if isinstance(n, ast.Assign) else [n.target]):
                    if isinstance(t, ast.Subscript) and _src(t.value) == name:
                        fail(n, f"{name} is changed in place")
        if found is None:
            raise Untranslatable(f"{module}.py: no assignment of {name}")
        return found.value

    def do_dict_const(self, module, name, kty, vty):
        d = self.module_assign(module, name)
        if not isinstance(d, ast.Dict):
            fail(d, f"{name}: a dict literal expected")
        fn = Fn(self, module, name, name)
        items, seen = [], set()
        for k, v in zip(d.keys, d.values):
            if k is None:
                fail(d, "dict unpacking")
            kv = self.expr(fn, k, Env())
            vv = self.expr(fn, v, Env())
            if kv.comp or vv.comp or kv.pre or vv.pre:
                fail(d, f"{name}: an entry can raise")
            unify(kv.ty, kty, k)
            unify(vv.ty, vty, v)
            if kv.term in seen:
                fail(k, "repeated key (the later entry would win)")
            seen.add(kv.term)
            items.append(f"({kv.term}, {vv.term})")
        self.out.append(f"(* {module}.py: {name} (a dict literal; looked up with py_dict_get, KeyError when absent) *)\n"
                        f"Definition {name} : list ({coq_type(kty, False)} * {coq_type(vty, False)}) :=\n  ["
                        + ";\n   ".join(items) + "].")
        self.consts[name] = {"coq": name, "ty": ("dict", kty, vty), "pure": True, "file": self.cur_file}
        self.coq_names.add(name)

    def begin_output(self, prefix, file=None):
        """start a further generated file: what was generated so far is referred to by qualified names"""
        for info in list(self.funcs.values()) + list(self.consts.values()):
            if "." not in info["coq"]:
                info["coq"] = info.get("file", "GameGen") + "." + info["coq"]
        if not self.prefix:
            self.prefix = prefix
        self.out = []
        if file:
            self.cur_file = file

    def run_encoding(self):
        """second output: tak/model/encoding.py `encode` (+ the Token vocabulary and TOP_PIECES) -> gen/EncodingGen.v"""
        self.begin_output("GameGen.", "EncodingGen")
        m = "encoding"
        for name in ("MAX_RESERVES", "MAX_CAPSTONES"):
            self.do_const(m, name, name, self.module_assign(m, name), f"{m}.py: {name}")
        self.do_class_consts(m, "Token")
        self.do_dict_const(m, "TOP_PIECES", T(BOOL, KIND), INT)
        self.coq_names |= {"encode", "decode", "encode_move"}
        for name in ("MOVES_BY_SIZE", "MOVES_TO_ID", "MAX_MOVE_ID"):
            self.do_const(m, name, name, self.module_assign(m, name), f"{m}.py: {name}")
        self.do_function(m, "encode_move", "encode_move", [INT, MOVE], INT, [])
        self.do_function(m, "encode", "encode", [POS, BOOL], L(INT), [])
        self.tensor_mode = True
        self.do_function(m, "decode", "decode", [L(INT)], POS, [])
        self.tensor_mode = False
        digest = hashlib.sha256(self.src[m].encode()).hexdigest()[:16]
        head = (
            "(* GENERATED by harness/py2coq.py from python/tak/model/encoding.py of the tree under test - do not edit.\n"
            "   `encode`, the Token vocabulary (computed the way the class body computes it) and TOP_PIECES, written\n"
            "   against model/PySem.v; Position.to_move / Color.flip are the functions of gen/GameGen.v.\n"
            f"   sha256 of the source: {digest} *)\n"
            "From Coq Require Import ZArith String List Bool.\n"
            "From TV Require Import model.Tak model.Road model.PySem.\n"
            "From TV Require gen.GameGen.\n"
            "Import ListNotations.\nOpen Scope Z_scope.\n")
        return head + "\n" + "\n\n".join(self.out) + "\n"

    def run_tps(self):
        """third output: tak/ptn/tps.py -> gen/TpsGen.v.  A str is the list of its code points."""
        self.begin_output("GameGen.", "TpsGen")
        m = "tps"
        self.str_codepoints = True
        self.illegal = "IllegalTPS"
        ok = False
        for n in self.mods[m].body:
            if isinstance(n, ast.ClassDef) and n.name == "IllegalTPS":
                ok = [_src(b) for b in n.bases] == ["Exception"] and all(isinstance(x, ast.Pass) for x in n.body)
        if not ok:
            raise Untranslatable("tps.py: class IllegalTPS(Exception): pass expected")
        imports = [_src(n) for n in self.mods[m].body if isinstance(n, (ast.Import, ast.ImportFrom))]
        if imports != ["import tak"]:
            raise Untranslatable(f"tps.py: imports are {imports}, `import tak` expected")
        # fuel of the two while loops of _format_row: each iteration of the outer loop advances i by at least one,
        # each iteration of the inner loop advances x by one, both stay below len(row)
        self.while_fuel = {(m, "_format_row", 1): "len(row) + 1", (m, "_format_row", 2): "len(row) + 1"}
        targets = [("parse_row", [L(CHAR)], L(L(PIECE))), ("parse_tps", [L(CHAR)], POS),
                   ("_format_square", [L(PIECE)], L(CHAR)), ("_format_row", [L(L(PIECE))], L(CHAR)),
                   ("format_tps", [POS], L(CHAR))]
        self.coq_names |= {t[0] for t in targets}
        for name, ptys, ret in targets:
            self.do_function(m, name, name, ptys, ret, [])
        digest = hashlib.sha256(self.src[m].encode()).hexdigest()[:16]
        head = (
            "(* GENERATED by harness/py2coq.py from python/tak/ptn/tps.py of the tree under test - do not edit.\n"
            "   parse_tps, parse_row, format_tps, _format_row, _format_square written against model/PySem.v; a str is the\n"
            "   list of its Unicode code points, `Illegal` is `raise IllegalTPS(..)`, the two while loops of _format_row run\n"
            "   on fuel (Crash OutOfFuel when it runs out).  Position.from_squares / Config are those of gen/GameGen.v.\n"
            f"   sha256 of the source: {digest} *)\n"
            "From Coq Require Import ZArith String List Bool.\n"
            "From TV Require Import model.Tak model.Road model.PySem.\n"
            "From TV Require gen.GameGen.\n"
            "Import ListNotations.\nOpen Scope Z_scope.\n")
        return head + "\n" + "\n\n".join(self.out) + "\n"

    def run_selfplay(self):
        """fourth output: tak/self_play.py Transcript.results / Transcript.logits / play_one_game -> gen/SelfPlayGen.v;
        needs run() and run_encoding() (encode_move, MAX_MOVE_ID) first"""
        self.begin_output("GameGen.", "SelfPlayGen")
        m = "self_play"
        self.oracle_mode = True
        cd = self.find_class(m, "Transcript")
        got = [n.target.id for n in cd.body if isinstance(n, ast.AnnAssign)]
        if got != ["positions", "moves", "probs", "values", "result", "stats"] or [_src(d) for d in cd.decorator_list] != ["define"]:
            fail(cd, "Transcript: fields positions, moves, probs, values, result, stats expected")
        for n in cd.body:
            if isinstance(n, ast.AnnAssign) and n.target.id != "stats":
                want = "None" if n.target.id == "result" else "field(factory=list)"
                if _src(n.value) != want:
                    fail(n, f"Transcript.{n.target.id}: default {want} expected")
        cc = self.find_class(m, "SelfPlayConfig")
        have = [n.target.id for n in cc.body if isinstance(n, ast.AnnAssign)]
        if not {"size", "resignation_threshold", "ply_limit"} <= set(have):
            fail(cc, "SelfPlayConfig: size, resignation_threshold, ply_limit expected")
        # the loop runs at most ply_limit + 2 times (the ply grows by one per iteration, the limit test comes first);
        # the annotation is not trusted: gen_play_one_game_eq shows OutOfFuel does not occur
        self.while_fuel = {(m, "play_one_game", 1): "max(cfg.ply_limit + 2, 1)"}
        self.coq_names |= {"results", "logits", "play_one_game"}
        self.do_function(m, "Transcript.results", "results", [TRANSCRIPT], L(FLOAT), [])
        self.do_function(m, "Transcript.logits", "logits", [TRANSCRIPT], L(L(FLOAT)), [])
        self.do_function(m, "play_one_game", "play_one_game", [SPCFG, ENGINE], TRANSCRIPT, [])
        self.oracle_mode = False
        digest = hashlib.sha256(self.src[m].encode()).hexdigest()[:16]
        head = (
            "(* GENERATED by harness/py2coq.py from python/tak/self_play.py of the tree under test - do not edit.\n"
            "   Transcript.results, Transcript.logits and play_one_game written against model/PySem.v and\n"
            "   model/SelfPlaySem.v.  The engine is an ORACLE (a stream of `otree` answers, one per engine.analyze);\n"
            "   floats are rationals; the `while True` loop runs on fuel max(ply_limit + 2, 1) (Crash OutOfFuel when it\n"
            "   runs out); the hand-over of engine.stats is not translated.\n"
            f"   sha256 of the source: {digest} *)\n"
            "From Coq Require Import ZArith QArith Qabs String List Bool.\n"
            "From TV Require Import model.Tak model.Road model.PySem model.SelfPlay model.SelfPlaySem.\n"
            "From TV Require gen.GameGen gen.EncodingGen.\n"
            "Import ListNotations.\nOpen Scope Z_scope.\n")
        return head + "\n" + "\n\n".join(self.out) + "\n"

    def run_ptn(self):
        """fifth output: tak/ptn/ptn.py format_move (+ place_rmap, slide_map, slide_rmap) -> gen/PtnGen.v"""
        self.begin_output("GameGen.", "PtnGen")
        m = "ptn"
        self.str_codepoints = True
        self.do_dict_const(m, "place_rmap", MTYPE, L(CHAR))
        self.do_dict_const(m, "slide_map", L(CHAR), MTYPE)
        self.do_const(m, "slide_rmap", "slide_rmap", self.module_assign(m, "slide_rmap"), f"{m}.py: slide_rmap")
        self.local_hints[(m, "format_move")] = {"bits": L(PYVAL)}      # the list holds strings and one int
        self.coq_names.add("format_move")
        self.do_function(m, "format_move", "format_move", [MOVE], L(CHAR), [])
        self.str_codepoints = False
        digest = hashlib.sha256(self.src[m].encode()).hexdigest()[:16]
        head = (
            "(* GENERATED by harness/py2coq.py from python/tak/ptn/ptn.py of the tree under test - do not edit.\n"
            "   format_move with place_rmap / slide_map / slide_rmap, written against model/PySem.v; a str is the list of its\n"
            "   code points, the list `bits` holds strings and ints (pyval).  parse_move / PTN.parse (regular expressions)\n"
            "   are not translated.\n"
            f"   sha256 of the source: {digest} *)\n"
            "From Coq Require Import ZArith String List Bool.\n"
            "From TV Require Import model.Tak model.Road model.PySem.\n"
            "From TV Require gen.GameGen.\n"
            "Import ListNotations.\nOpen Scope Z_scope.\n")
        return head + "\n" + "\n\n".join(self.out) + "\n"

    # ------------------------------------------------------------------ driver
    def run(self):
        # Position._walk: every popped square is already seen, or is marked and rejected, or is a road square expanded for
        # the first and only time (four pushes): 5 * size^2 + len(seeds) + 1 iterations suffice (proofs/RoadPyProofs.v)
        self.while_fuel[("game", "Position._walk", 1)] = "5 * self.size * self.size + len(seeds) + 1"
        self.coq_names |= {t[2] for t in TARGETS} | {"DIRECTIONS"} | \
            {f"{e}_value" for e in ENUMS} | {f"{e}_of_value" for e in ENUMS}
        self.check_pinned()
        self.do_enums()
        for module, qual, coq, ptys, ret, extra in TARGETS:
            if qual == "MoveType.direction":
                self.do_directions()
            if qual == "Config.flat_count":
                cd = self.find_class("game", "Config")
                for n in cd.body:
                    if isinstance(n, ast.Assign) and len(n.targets) == 1 and isinstance(n.targets[0], ast.Name) \
                            and n.targets[0].id in ("DEFAULT_PIECES", "DEFAULT_CAPS"):
                        name = n.targets[0].id
                        if not isinstance(n.value, ast.List):
                            fail(n, "a list literal expected")
                        self.do_const("game", f"Config.{name}", f"Config_{name}", n.value, f"game.py: Config.{name}")
            if qual == "<ALL_SLIDES>":
                self.do_all_slides(module, qual, coq, ret)
            else:
                self.do_function(module, qual, coq, ptys, ret, extra)
        return self.text()

    def text(self):
        digest = hashlib.sha256("".join(self.src[m] for m in sorted(BASE_MODULES)).encode()).hexdigest()[:16]
        head = (
            "(* GENERATED by harness/py2coq.py from python/tak/pieces.py, moves.py, game.py of the tree under test -\n"
            "   do not edit.  A shallow embedding: one Gallina function per Python function, written against\n"
            "   model/PySem.v (the Python semantics of indexing, slicing, item assignment, exceptions ...).\n"
            "   Position.has_road is not translated (it enters as Road.has_road).\n"
            f"   sha256 of the three sources: {digest} *)\n"
            "From Coq Require Import ZArith String List Bool.\n"
            "From TV Require Import model.Tak model.Road model.PySem.\n"
            "Import ListNotations.\nOpen Scope Z_scope.\n")
        return head + "\n" + "\n\n".join(self.out) + "\n"


STUB = ("(* GENERATED by harness/py2coq.py: the translation FAILED, so the definitions are absent and every proof about\n"
        "   them fails to compile (nothing is re-checked against stale text).\n   reason: {why} *)\n"
        "Definition translation_failed : unit := tt.\n")


BASE_MODULES = ("pieces", "moves", "game")
EXTRA_MODULES = {"encoding": "model/encoding.py", "tps": "ptn/tps.py", "self_play": "self_play.py", "ptn": "ptn/ptn.py"}


def read_sources(repo_python, extra=()):
    d = Path(repo_python) / "tak"
    out = {m: (d / f"{m}.py").read_text() for m in BASE_MODULES}
    out["__init__"] = (d / "__init__.py").read_text()
    for m in extra:
        out[m] = (d / EXTRA_MODULES[m]).read_text()
    return out


def _guarded(f):
    try:
        return f(), None
    except Untranslatable as e:
        why = str(e).replace("*)", "* )").replace("(*", "( *").replace('"', "'")
        return STUB.format(why=why), str(e)
    except (SyntaxError, OSError, RecursionError, KeyError, IndexError, AttributeError, TypeError, ValueError) as e:
        why = f"{type(e).__name__}: {e}".replace("*)", "* )").replace("(*", "( *").replace('"', "'")
        return STUB.format(why=why), f"{type(e).__name__}: {e}"


def translate(repo_python):
    """gen/GameGen.v: (coq text, error or None)"""
    return _guarded(lambda: Translator(read_sources(repo_python)).run())


def translate_encoding(repo_python):
    """gen/EncodingGen.v: (coq text, error or None); needs the translation of game.py / moves.py / pieces.py first"""
    def f():
        t = Translator(read_sources(repo_python, extra=("encoding",)))
        t.run()
        return t.run_encoding()
    return _guarded(f)


def translate_tps(repo_python):
    """gen/TpsGen.v: (coq text, error or None)"""
    def f():
        t = Translator(read_sources(repo_python, extra=("tps",)))
        t.run()
        return t.run_tps()
    return _guarded(f)


def translate_selfplay(repo_python):
    """gen/SelfPlayGen.v: (coq text, error or None)"""
    def f():
        t = Translator(read_sources(repo_python, extra=("encoding", "self_play")))
        t.run()
        t.run_encoding()
        return t.run_selfplay()
    return _guarded(f)


def translate_ptn(repo_python):
    """gen/PtnGen.v: (coq text, error or None)"""
    def f():
        t = Translator(read_sources(repo_python, extra=("ptn",)))
        t.run()
        return t.run_ptn()
    return _guarded(f)


def main():
    repo_python = sys.argv[1] if len(sys.argv) > 1 else "/repo/python"
    which = sys.argv[2] if len(sys.argv) > 2 else "game"
    text, err = {"game": translate, "encoding": translate_encoding, "tps": translate_tps, "selfplay": translate_selfplay, "ptn": translate_ptn}[which](repo_python)
    sys.stdout.write(text)
    if err:
        sys.stderr.write("TRANSLATION FAILED: " + err + "\n")
        return 1
    return 0


if __name__ == "__main__":
    sys.exit(main())
