"""Confirm a seeded change produced by an independent agent, then file it under /verif/seeded/.

  python -m harness.confirm_seed C02 1 [C02 2 ...]

In the agent's scratch worktree /tmp/seed/<id> (HEAD of /repo): the demo must pass on the
unchanged tree; with patch_k applied the pinned suite must still report the 35 baseline passes
and the demo must fail.  Only then is it copied to /verif/seeded/<id>-<k>/ (patch.diff, demo.py,
notes.md, meta.json).  The worktree is left unchanged."""
import json
import shutil
import subprocess
import sys
from pathlib import Path

VERIF = Path(__file__).resolve().parents[1]
SUITE = ["/venv/bin/python", "-m", "pytest", "-q", "-p", "no:cacheprovider", "--timeout=900", "--continue-on-collection-errors"]


def sh(cmd, cwd, env=None, timeout=1800):
    import os
    e = dict(os.environ)
    if env:
        e.update(env)
    r = subprocess.run(cmd, cwd=cwd, capture_output=True, text=True, env=e, timeout=timeout)
    return r.returncode, (r.stdout + r.stderr)


def demo(wt, f):
    rc, out = sh(["/venv/bin/python", str(f)], wt / "python", {"PYTHONPATH": str(wt / "python")})
    return rc, out[-600:]


def confirm(pid, k):
    wt = Path(f"/tmp/seed/{pid}")
    seed = wt / "SEED"
    patch, dm, notes = seed / f"patch_{k}.diff", seed / f"demo_{k}.py", seed / f"notes_{k}.md"
    prop = pid[-3:]
    res = {"property": prop, "k": k, "round": pid[:-3] or "R1"}
    sh(["git", "checkout", "--", "."], wt)
    # rebase the worktree onto the current /repo HEAD so the patch is confirmed against what the checks see
    head = subprocess.run(["git", "-C", "/repo", "rev-parse", "HEAD"], capture_output=True, text=True).stdout.strip()
    sh(["git", "checkout", "--detach", head, "-q"], wt)
    rc0, out0 = demo(wt, dm)
    res["demo_without_patch"] = rc0
    rc, out = sh(["git", "apply", str(patch)], wt)
    if rc != 0:
        res["error"] = "patch does not apply: " + out[-300:]
        return res
    try:
        rcs, outs = sh(SUITE, wt)
        tail = outs.strip().splitlines()[-1] if outs.strip() else ""
        res["suite_with_patch"] = tail
        rc1, out1 = demo(wt, dm)
        res["demo_with_patch"] = rc1
        res["demo_output_tail"] = out1[-400:]
    finally:
        sh(["git", "checkout", "--", "."], wt)
    ok = rc0 == 0 and rc1 != 0 and "35 passed" in tail and "failed" not in tail
    res["confirmed"] = ok
    if ok:
        d = VERIF / "seeded" / f"{pid}-{k}"
        d.mkdir(parents=True, exist_ok=True)
        shutil.copy(patch, d / "patch.diff")
        shutil.copy(dm, d / "demo.py")
        if notes.exists():
            shutil.copy(notes, d / "notes.md")
        meta = {
            "property": prop,
            "source": "independent sub-agent given only the property text and a scratch worktree",
            "needs_to_manifest": (notes.read_text()[:1500] if notes.exists() else ""),
            "confirmed_by": {
                "base_commit": head,
                "demo_without_patch_exit": rc0, "demo_with_patch_exit": rc1, "suite_with_patch": tail,
                "commands": ["git apply patch.diff", " ".join(SUITE), "PYTHONPATH=python /venv/bin/python demo.py"],
            },
        }
        (d / "meta.json").write_text(json.dumps(meta, indent=1))
    return res


if __name__ == "__main__":
    a = sys.argv[1:]
    for i in range(0, len(a), 2):
        print(json.dumps(confirm(a[i], int(a[i + 1])), indent=1))
