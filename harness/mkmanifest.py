"""writes MANIFEST.json from the table below (python -m harness.mkmanifest)"""
import json
from pathlib import Path

VERIF = Path(__file__).resolve().parents[1]

COMMON_NOTE = ("Trusted: Coq 8.16.1 kernel + vm_compute; the hand-written executable Gallina model is tied to the code by "
               "regenerated constants (gen/Consts.v) and by a differential correspondence evaluated inside Coq on the inputs the "
               "implementation just ran on; harness emitters/generators; no axioms declared; no extraction. ")

# id -> (claimed?, full/partial text, technique, level_note extra, design_ref)
PROPS = {
    "C03": (True, "Full. For every position with size^2 squares: every canonical move the rules accept is in all_moves (exactly once: "
            "NoDup and count_occ = 1), everything generated is an entry of the id table of the size (all sizes; with ids below the head "
            "width for 3-6), the table entries the rules accept are exactly the canonical legal moves, so filtering the table (what "
            "the search does) reaches each legal move once. 'Legal' is the executable rules `move`, proved equal to the rulebook "
            "relation in C01. The generator is a pseudo-legal superset by design; the property asks for completeness and uniqueness.",
            "Coq theorem (list membership/NoDup over flat_map) + regenerated constants + differential correspondence in Coq (lists compared in order) + independent move-universe oracle",
            "The harness's independent enumerator of the move universe and ill-formed stream used by the search oracle.", "6/C03"),
    "C05": (True, "Full for the listed functions under the stated CPython semantics of the IR constructs. A heap-effect IR of "
            "Position.move (_move_place/_move_slide inlined), from_squares, from_config, parse_tps (parse_row inlined) and "
            "transform_position is REGENERATED from the source on every run by a fail-closed ast translator; theorem: a program all "
            "of whose stores target objects allocated by its own activation leaves every pre-existing heap object unchanged, whether "
            "it returns or raises part-way, for every oracle stream, fuel, heap and argument list; the generated programs satisfy the "
            "discipline by computation; corollary over every interleaving of accepted and refused calls on retained positions. "
            "Heap-graph correspondence (id() sharing graphs of traced real calls replayed on the IR inside Coq) plus a game-tree "
            "oracle with deep snapshots.",
            "Coq theorem over a heap-effect IR regenerated from the source (translator tie) + heap-graph correspondence in Coq",
            "The ast translator harness/heap_ir.py and the CPython semantics it assigns to list operations; a caller mutating the "
            "exposed lists directly is out of the property's scope.", "6/C05"),
    "C06": (True, "Full. On the domain the vocabulary can index (sizes 3-6, reserves 0..49, capstones 0..1, only tops may be "
            "walls/capstones; every position reachable in a game with such counts is proved to be in it): decode(encode p) = "
            "(board, side to move, reserves), injectivity, colour swap changes only the side-to-move token, all tokens are bytes, "
            "batch rows = per-position encodings padded with 0 under a mask of exactly the real tokens (and EMPTY = pad value, so "
            "the mask is essential). Token values are read from the regenerated constants, so the proofs are re-checked against the "
            "live vocabulary.",
            "Coq theorem (induction over the board with decode's current-square accumulator) + regenerated vocabulary + differential correspondence in Coq",
            "torch tensor <-> list conversions in the harness; Python negative indexing modelled faithfully outside the domain.", "6/C06"),
    "C15": (True, "Full. The eight regenerated matrices are the dihedral group of the square (distinct maps, closed under composition and "
            "inverse, signed permutation linear parts, bijections of the board preserving adjacency, for every size); for every "
            "symmetry, every position with size^2 squares and EVERY move (legal, illegal, off-board, malformed): transform then move "
            "= move then transform as option results, hence legality is preserved both ways; winner (roads may change axis), ply, "
            "side to move and reserves are invariant; symmetries(p) starts with (id, p), has pairwise distinct positions and is "
            "exactly the orbit.",
            "Coq theorem (slide loop invariant under a board permutation; road paths mapped through the symmetry) + regenerated matrices + differential correspondence in Coq",
            "numpy integer matmul/astype as used by symmetry.py (validated by the correspondence); identity must stay first in SYMMETRIES.", "6/C15"),
    "C16": (True, "Partial. The dataflow IR of the forward/__init__ methods (Resblock, Torso, embeddings, Transformer, both heads), "
            "of encoding._encode_batch and of every mask producer and model call site (batch classes, ReplayBufferBatch, "
            "Server.run_model, ModelWrapper.evaluate) is REGENERATED from the source on every run by a fail-closed ast translator "
            "and proved (by computation) to denote the hand model; over that model, for abstract per-token operators and an "
            "attention core that sees only the visible keys: padded = unpadded by induction over layers, rows never interact, the "
            "causal output at token i depends on the prefix only, the head reads token 0, every producer marks exactly the padding; "
            "softmax/tanh give a probability vector and a value in [-1,1] over Coq's Reals. What the model cannot exhibit: the "
            "numerics of torch's kernels (fused fast paths, reduced precision) - validated numerically over real models and all "
            "call paths (not a proof; threshold 1e-4, measured noise < 6e-6).",
            "Coq theorem over a dataflow IR regenerated from the source (translator tie); numerical validation of the operator semantics",
            "Translator harness/xformer_ir.py; assumed semantics of nn.MultiheadAttention masks (masked keys get weight exactly 0) and "
            "of LayerNorm/Linear/Embedding acting per token; Reals axioms sig_forall_dec, sig_not_dec, functional_extensionality_dep "
            "in C16_evaluate_is_distribution_partial only.", "6/C16"),
    "C17": (True, "Partial. Over ALL event sequences (arrivals, timer expiries, model completions) of a state-machine model of "
            "worker_loop/Evaluate with the bounded queue, blocked putters and the gather/drain batching rule: service order is arrival "
            "order, each request is answered at most once, with the model's value on its own position (given per-row padding "
            "invariance, which C16 supplies), nothing is lost, everything is answered at quiescence, a pending request at depth k is "
            "answered within k+1 (tight: 2 + k/capacity) model completions; the float32 byte codec round-trips. What the model cannot "
            "exhibit: real thread scheduling, the gRPC transport, cancellation races, equal timer deadlines.",
            "Coq theorem (invariant over all event sequences of a state machine) + schedule-level differential correspondence on a virtual-time asyncio loop",
            "Virtual-time event loop and inline executor of the harness; shims for grpc/protobuf; gather timeout 1 ms is a literal in the model (tie behavioural only).", "6/C17"),
    "C19": (True, "Partial. The file-system operation sequence of SavingHook.save_snapshot and the read set of load_state / "
            "load_or_init_model are REGENERATED from the source on every run (fail-closed ast translator) and tied to the model; "
            "over a file-system model with writes split into truncate+complete: for EVERY history of saves (periodic, on request, "
            "end of run, repeated saves of a step, interrupted-then-resumed runs) and EVERY crash prefix, resume yields a complete "
            "snapshot (the previous or the new one), never a partial one and never scratch once a save completed; save/load exact "
            "per component under a codec round-trip hypothesis; replay window = last min(k,cap) batches; serve/train mode round trip "
            "exact. Process-crash granularity only: fsync/power-loss reordering is outside the model. One known finding "
            "(serve-precision-snapshot) is reported by the check.",
            "Coq theorem (invariant over histories and crash prefixes of a file-system model) + FS-op IR regenerated from the source (translator tie) + crash-injection correspondence",
            "Translator harness/save_ir.py; patched os/shutil/open/torch.save fault injector; torch.save/load and yaml round-trip their payloads (checked bit-exact); os.rename/replace/symlink atomic at process-crash granularity.", "6/C19"),
    "C07": (True, "Full. Theorems for every size n: the id table lists exactly the well-formed moves (table_spec), without "
            "repetition, encode/decode are mutual inverses between [0,|table n|) and the move universe; width bound proved for "
            "sizes 3-6 by computation. Tie is exhaustive: every id and move of sizes 0-6 compared with the model inside Coq.",
            "Coq theorem (induction over drop sequences, NoDup of flat_map) + regenerated constants + exhaustive differential correspondence in Coq",
            "Python dict/list semantics behind MOVES_TO_ID; head width read from a constructed PolicyValue.", "6/C07"),
}

ALL = [f"C{i:02d}" for i in range(1, 21)]


def main():
    checks, na = [], []
    for pid in ALL:
        ent = PROPS.get(pid)
        if not ent or not ent[0]:
            na.append({"property_id": pid, "reason": (ent[1] if ent else "check not built yet in this round (work in progress; "
                                                      "the design in DESIGN.md section 6 applies the proof technique to it)")})
            continue
        _, text, tech, note, ref = ent
        checks.append({
            "property_id": pid,
            "quick_cmd": f"./check {pid} --tier quick",
            "thorough_cmd": f"./check {pid} --tier thorough",
            "evidence_file": f"evidence/{pid}.json",
            "replay_cmd_template": f"./check {pid} --replay {{path}}",
            "engine": "coq-model",
            "level_claimed": {"category": "proof", "text": text, "design_ref": f"DESIGN.md section {ref}"},
            "level_note": COMMON_NOTE + note,
            "technique": tech,
        })
    man = {
        "version": 1,
        "setup_cmd": "./setup.sh",
        "hooks": {
            "guard": "NELHAGE_TAKTICIAN_PYTHON_VERIF",
            "enable": "no source hooks are needed: the harness wraps/subclasses from outside (env var is set by ./check but read by nothing in /repo)",
            "baseline_off_cmd": "cd /repo && /venv/bin/python -m pytest -ra -q -p no:cacheprovider --timeout=900 --continue-on-collection-errors",
            "source_commits": [],
            "add_only": True,
        },
        "engines": [{
            "name": "coq-model", "path": "coq/",
            "serves_properties": [c["property_id"] for c in checks],
            "kind_free_text": "Coq 8.16.1 development (model/, spec/, proofs/, props/), built by coq_makefile; correspondence cases generated into build/<id>/cases and evaluated with vm_compute",
        }],
        "checks": checks,
        "not_applicable": na,
        "notes": "fix: commits in /repo repair defects F1-F9 (see known_findings.txt and DESIGN.md section 7).",
    }
    (VERIF / "MANIFEST.json").write_text(json.dumps(man, indent=1) + "\n")


if __name__ == "__main__":
    main()
