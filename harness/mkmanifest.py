"""writes MANIFEST.json from the table below (python -m harness.mkmanifest)"""
import json
from pathlib import Path

VERIF = Path(__file__).resolve().parents[1]

COMMON_NOTE = ("Trusted: Coq 8.16.1 kernel + vm_compute; the hand-written executable Gallina model is tied to the code by "
               "regenerated constants (gen/Consts.v) and by a differential correspondence evaluated inside Coq on the inputs the "
               "implementation just ran on; harness emitters/generators; no axioms declared; no extraction. ")

# id -> (claimed?, full/partial text, technique, level_note extra, design_ref)
PROPS = {
    "C05": (True, "Full for the listed functions under the stated CPython semantics of the IR constructs. A heap-effect IR of "
            "Position.move (_move_place/_move_slide inlined), from_squares, from_config, parse_tps (parse_row inlined) and "
            "transform_position is REGENERATED from the source on every run by a fail-closed ast translator; theorem: a program all "
            "of whose stores target objects allocated by its own activation leaves every pre-existing heap object unchanged, whether "
            "it returns or raises part-way, for every oracle stream, fuel, heap and argument list; the generated programs satisfy the "
            "discipline by computation; corollary over every interleaving of accepted and refused calls on retained positions. "
            "Heap-graph correspondence (id() sharing graphs of traced real calls replayed on the IR inside Coq) plus a game-tree "
            "oracle with deep snapshots.",
            "Coq theorem over a heap-effect IR regenerated from the source (translator tie) + heap-graph correspondence in Coq",
            "The ast translator harness/heap_ir.py and the CPython semantics it assigns to list operations; a caller mutating the "
            "exposed lists directly is out of the property's scope.", "6/C05"),
    "C06": (True, "Full. On the domain the vocabulary can index (sizes 3-6, reserves 0..49, capstones 0..1, only tops may be "
            "walls/capstones; every position reachable in a game with such counts is proved to be in it): decode(encode p) = "
            "(board, side to move, reserves), injectivity, colour swap changes only the side-to-move token, all tokens are bytes, "
            "batch rows = per-position encodings padded with 0 under a mask of exactly the real tokens (and EMPTY = pad value, so "
            "the mask is essential). Token values are read from the regenerated constants, so the proofs are re-checked against the "
            "live vocabulary.",
            "Coq theorem (induction over the board with decode's current-square accumulator) + regenerated vocabulary + differential correspondence in Coq",
            "torch tensor <-> list conversions in the harness; Python negative indexing modelled faithfully outside the domain.", "6/C06"),
    "C16": (True, "Partial. The dataflow IR of the forward/__init__ methods (Resblock, Torso, embeddings, Transformer, both heads), "
            "of encoding._encode_batch and of every mask producer and model call site (batch classes, ReplayBufferBatch, "
            "Server.run_model, ModelWrapper.evaluate) is REGENERATED from the source on every run by a fail-closed ast translator "
            "and proved (by computation) to denote the hand model; over that model, for abstract per-token operators and an "
            "attention core that sees only the visible keys: padded = unpadded by induction over layers, rows never interact, the "
            "causal output at token i depends on the prefix only, the head reads token 0, every producer marks exactly the padding; "
            "softmax/tanh give a probability vector and a value in [-1,1] over Coq's Reals. What the model cannot exhibit: the "
            "numerics of torch's kernels (fused fast paths, reduced precision) - validated numerically over real models and all "
            "call paths (not a proof; threshold 1e-4, measured noise < 6e-6).",
            "Coq theorem over a dataflow IR regenerated from the source (translator tie); numerical validation of the operator semantics",
            "Translator harness/xformer_ir.py; assumed semantics of nn.MultiheadAttention masks (masked keys get weight exactly 0) and "
            "of LayerNorm/Linear/Embedding acting per token; Reals axioms sig_forall_dec, sig_not_dec, functional_extensionality_dep "
            "in C16_evaluate_is_distribution_partial only.", "6/C16"),
    "C07": (True, "Full. Theorems for every size n: the id table lists exactly the well-formed moves (table_spec), without "
            "repetition, encode/decode are mutual inverses between [0,|table n|) and the move universe; width bound proved for "
            "sizes 3-6 by computation. Tie is exhaustive: every id and move of sizes 0-6 compared with the model inside Coq.",
            "Coq theorem (induction over drop sequences, NoDup of flat_map) + regenerated constants + exhaustive differential correspondence in Coq",
            "Python dict/list semantics behind MOVES_TO_ID; head width read from a constructed PolicyValue.", "6/C07"),
}

ALL = [f"C{i:02d}" for i in range(1, 21)]


def main():
    checks, na = [], []
    for pid in ALL:
        ent = PROPS.get(pid)
        if not ent or not ent[0]:
            na.append({"property_id": pid, "reason": (ent[1] if ent else "check not built yet in this round (work in progress; "
                                                      "the design in DESIGN.md section 6 applies the proof technique to it)")})
            continue
        _, text, tech, note, ref = ent
        checks.append({
            "property_id": pid,
            "quick_cmd": f"./check {pid} --tier quick",
            "thorough_cmd": f"./check {pid} --tier thorough",
            "evidence_file": f"evidence/{pid}.json",
            "replay_cmd_template": f"./check {pid} --replay {{path}}",
            "engine": "coq-model",
            "level_claimed": {"category": "proof", "text": text, "design_ref": f"DESIGN.md section {ref}"},
            "level_note": COMMON_NOTE + note,
            "technique": tech,
        })
    man = {
        "version": 1,
        "setup_cmd": "./setup.sh",
        "hooks": {
            "guard": "NELHAGE_TAKTICIAN_PYTHON_VERIF",
            "enable": "no source hooks are needed: the harness wraps/subclasses from outside (env var is set by ./check but read by nothing in /repo)",
            "baseline_off_cmd": "cd /repo && /venv/bin/python -m pytest -ra -q -p no:cacheprovider --timeout=900 --continue-on-collection-errors",
            "source_commits": [],
            "add_only": True,
        },
        "engines": [{
            "name": "coq-model", "path": "coq/",
            "serves_properties": [c["property_id"] for c in checks],
            "kind_free_text": "Coq 8.16.1 development (model/, spec/, proofs/, props/), built by coq_makefile; correspondence cases generated into build/<id>/cases and evaluated with vm_compute",
        }],
        "checks": checks,
        "not_applicable": na,
        "notes": "fix: commits in /repo repair defects F1-F9 (see known_findings.txt and DESIGN.md section 7).",
    }
    (VERIF / "MANIFEST.json").write_text(json.dumps(man, indent=1) + "\n")


if __name__ == "__main__":
    main()
