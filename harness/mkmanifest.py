"""writes MANIFEST.json from the table below (python -m harness.mkmanifest)"""
import json
from pathlib import Path

VERIF = Path(__file__).resolve().parents[1]

COMMON_NOTE = ("Trusted: Coq 8.16.1 kernel + vm_compute; the hand-written executable Gallina model is tied to the code by "
               "regenerated constants (gen/Consts.v) and by a differential correspondence evaluated inside Coq on the inputs the "
               "implementation just ran on; harness emitters/generators; no axioms declared; no extraction. ")

# id -> (claimed?, full/partial text, technique, level_note extra, design_ref)
PROPS = {
    "C01": (True, "Full. For every position with size 3..8, size^2 squares and only tops walls/capstones, and EVERY move value (any "
            "integer coordinates, any type, any integer list as drops): move accepts exactly when the rulebook relation legal_step "
            "(declarative, pointwise in coordinates, written independently of the algorithm) allows it, with exactly the prescribed "
            "successor; legal_step is functional; the model has no third outcome and the correspondence maps any exception other than "
            "IllegalMove to a constructor that never matches. Since wave 2 the same theorems are also stated about gen/GameGen.v, a "
            "shallow embedding of Position.move/_move_place/_move_slide REGENERATED from the source on every run against an explicit "
            "model of Python's indexing, slicing and exceptions (PySem.v): the translated source is proved equal to the hand model "
            "and never to crash (no IndexError, no negative-index wrap), so 'no other error escapes' is a theorem about the code "
            "as translated, not a sampled observation.",
            "Coq theorem (slide loop invariant; soundness + completeness against a declarative rulebook relation) about a model regenerated from the source by a translator (py2coq) + regenerated constants + differential correspondence in Coq",
            "Translator harness/py2coq.py and model/PySem.v (Python list indexing/slicing/exception semantics), both validated on every run against CPython and the implementation.", "6/C01"),
    "C02": (True, "Full. For every position with size >= 1 and size^2 squares: the flood fill reaches the opposite edge exactly when a "
            "path of on-board, orthogonally linked squares whose TOP piece is a flat or capstone of the colour joins the edges "
            "(road as existence of a path; generic closure theorem with early exit); has_road and winner equal the outcome relation "
            "of the property text (both roads -> player who just moved; flats when full or a reserve is empty; draw; not over); "
            "has_road agrees with winner.",
            "Coq theorem (reachability closure <-> existence of a path, loop-erasure counting argument) + regenerated constants + differential correspondence in Coq",
            "Reachability modelled as neighbour closure, not the Python work-list (results compared, not algorithms); The actual work-list of _walk is modelled statement by statement (RoadPy.v) and proved equal to the closure model with fuel 5*size^2+size+1; _walk, is_road, has_road, winner, flat_counts are REGENERATED from the source (gen/GameGen.v, py2coq) and proved equal to those models (C02_source_*).", "6/C02"),
    "C03": (True, "Full. For every position with size^2 squares: every canonical move the rules accept is in all_moves (exactly once: "
            "NoDup and count_occ = 1), everything generated is an entry of the id table of the size (all sizes; with ids below the head "
            "width for 3-6), the table entries the rules accept are exactly the canonical legal moves, so filtering the table (what "
            "the search does) reaches each legal move once. 'Legal' is the executable rules `move`, proved equal to the rulebook "
            "relation in C01. The generator is a pseudo-legal superset by design; the property asks for completeness and uniqueness.",
            "Coq theorem (list membership/NoDup over flat_map) + regenerated constants + differential correspondence in Coq (lists compared in order) + independent move-universe oracle",
            "The harness's independent enumerator of the move universe and ill-formed stream used by the search oracle; all_moves, all_moves_for_size and ALL_SLIDES are additionally regenerated from the source (gen/GameGen.v) and proved equal to the model's lists.", "6/C03"),
    "C04": (True, "Full. Invariant (conservation of stones and capstones per colour, non-negative reserves, only tops are walls or "
            "capstones, ply >= 0 and side to move by parity, board empty at ply 0 / one black flat at ply 1 / one flat of each colour "
            "at ply 2) holds initially for every configuration (size 3..8, any non-negative counts), is preserved by every accepted "
            "move with ply + 1, hence along every finite sequence of accepted moves (induction over the move list); reachable positions "
            "are well-formed (C01's hypothesis).",
            "Coq theorem (invariant by induction over move sequences) + differential correspondence in Coq + closure of tiny configurations",
            "3x3 closures are explored to a fixed point only for the smallest piece counts; larger ones to a stated cap; the step theorem is also stated about the move function regenerated from the source (gen/GameGen.v).", "6/C04"),
    "C05": (True, "Full for the listed functions under the stated CPython semantics of the IR constructs. A heap-effect IR of "
            "Position.move (_move_place/_move_slide inlined), from_squares, from_config, parse_tps (parse_row inlined) and "
            "transform_position is REGENERATED from the source on every run by a fail-closed ast translator; theorem: a program all "
            "of whose stores target objects allocated by its own activation leaves every pre-existing heap object unchanged, whether "
            "it returns or raises part-way, for every oracle stream, fuel, heap and argument list; the generated programs satisfy the "
            "discipline by computation; corollary over every interleaving of accepted and refused calls on retained positions. "
            "Heap-graph correspondence (id() sharing graphs of traced real calls replayed on the IR inside Coq) plus a game-tree "
            "oracle with deep snapshots.",
            "Coq theorem over a heap-effect IR regenerated from the source (translator tie) + heap-graph correspondence in Coq",
            "The ast translator harness/heap_ir.py and the CPython semantics it assigns to list operations; a caller mutating the "
            "exposed lists directly is out of the property's scope.", "6/C05"),
    "C06": (True, "Full. On the domain the vocabulary can index (sizes 3-6, reserves 0..49, capstones 0..1, only tops may be "
            "walls/capstones; every position reachable in a game with such counts is proved to be in it): decode(encode p) = "
            "(board, side to move, reserves), injectivity, colour swap changes only the side-to-move token, all tokens are bytes, "
            "batch rows = per-position encodings padded with 0 under a mask of exactly the real tokens (and EMPTY = pad value, so "
            "the mask is essential). Token values are read from the regenerated constants, so the proofs are re-checked against the "
            "live vocabulary.",
            "Coq theorem (induction over the board with decode's current-square accumulator) about a model also regenerated from the source by a translator (py2coq) + regenerated vocabulary + differential correspondence in Coq",
            "torch tensor <-> list conversions in the harness; Python negative indexing modelled faithfully outside the domain. encode and decode are additionally REGENERATED from the source (gen/EncodingGen.v, py2coq against PySem.v) and proved equal to the model for every position / every token list below 2^52 entries, so the C06 theorems are also stated about the translated source (C06_source_*); _encode_batch/encode_batch are regenerated too (gen/EncodeBatchGen.v, torch2coq over TorchLite.v) and proved equal to the model's batch function for every list of positions.", "6/C06"),
    "C08": (True, "Full for the bookkeeping. A node-tree model with exact rationals, one simulation = one structural recursion over the "
            "descent path, the evaluator answers, root noise and sampler choices as input streams: the invariant Good (visits = 1 + "
            "children's, value = own evaluation - children's values, terminal nodes visits*outcome with outcome by winner, children "
            "one-to-one in table order with the accepted table moves whose prior reaches the cutoff, child position = move parent m, "
            "child priors = raw priors renormalised) holds initially, is preserved by every simulation for every evaluator and every "
            "valid choice stream, k simulations add exactly k root visits (fresh tree: exactly n; re-used: max), |value| <= visits "
            "for evaluations in [-1,1], the searched position is untouched. Wall-clock time_limit is not modelled (runs use 0).",
            "Coq theorem (tree invariant preserved by simulate, induction over the descent path) + trace-based differential correspondence in Coq",
            "Recording evaluator / recorded torch.multinomial choices / fake Dirichlet in the harness; float32 priors compared within 1e-5 relative inside Coq, values dyadic hence exact. MCTS.update, populate, descend, analyze_tree, analyze, get_move, select_root_move and tree_probs are REGENERATED from the source (gen/MctsGen.v, mcts2coq over MctsSem.v/PySem.v) and proved equal to the model end to end: the regenerated search loop run for the simulation budget returns the tree of the model's analyze (C08_source_*); that Node objects form a tree without aliasing, time_limit > 0 and the stats counters stay trace-tied.", "6/C08"),
    "C09": (True, "Partial. Exact-arithmetic theorems: at every expanded node of a Good tree q_i is in [-1,1], child priors are positive "
            "and sum to 1 (given the evaluator gives a legal move the cutoff), lambda^2 > 0, before any visit the policy is the prior, "
            "after a visit it is solve(policy_inputs); every child move is accepted by the rules in the parent position, so the "
            "returned move is legal. The inputs (prior, q, lambda) the implementation hands to the solver at every call are compared "
            "with the model's inside Coq; 'to the accuracy the solver guarantees' rests on C10, whose float behaviour is not proved.",
            "Coq theorem over the tree invariant + correspondence of every solver call's inputs in Coq + rational oracle of the returned distribution",
            "Solver output accuracy is C10's; the multiplier is compared BIT FOR BIT with a binary64 SpecFloat mirror (model/LambdaF64.v) of c*sqrt(N)/(N+K) and of its float32 cast; policy queries repeated after the search with other C and after continuing a subtree. Node.policy_probs is REGENERATED from the source (gen/MctsGen.v) and proved equal to the model's policy_inputs/policy_probs with the multiplier equal to the binary64 mirror; the regenerated select_root_move / get_move return a move the rules accept (C09_source_*). An extreme-policy family (cutoff 1e-12, priors 1e-9..1e-12 on the best child) reaches the solver's collapse regime through the real search and is judged by C10's acceptance rule.", "6/C09"),
    "C10": (True, "Partial. The bisection is written once, generic in the arithmetic; proved in exact rationals (no Reals axioms): f "
            "strictly decreasing above max q, the initial bracket contains the root, bisection keeps it bracketed with width "
            "lambda/2^k, the Python exit rule returns within 32 iterations (the AssertionError is unreachable), the output is "
            "lambda*pi/(alpha-q) for one alpha > max q (finite, positive), the sum is within 1e-3 of one or the root lies within 1e-6 "
            "of alpha; for the native exit rule the same conditionally on returning. The float32 behaviour (exit sum==last_sum, "
            "overflow, cancellation) is decided by a bit-exact SpecFloat binary32 mirror of tak.cpp compared bit for bit with the "
            "native solver, and by a rational oracle sweep over the property's regime - not by a theorem.",
            "Coq theorem in exact rational arithmetic + bit-exact SpecFloat mirror compared with the native solver inside Coq + source-shape tie + oracle sweep",
            "g++ build of the real tak.cpp; torch float32 elementwise ops mirrored by SpecFloat (24,128); source fragments scraped by regex (a renamed variable breaks the tie). Float-level theorems about the binary32 mirror (proofs/SolverFloat.v, over Flocq BinarySingleNaN): alpha never drops below max q, weights are never negative/NaN, the isfinite fallback returns finite weights, and WHENEVER the native loop returns all weights are finite and non-negative (defect F3 cannot recur); termination within 32 iterations at float level and the value of the sum are not proved. Those four theorems use the stdlib Reals axioms sig_forall_dec, sig_not_dec, functional_extensionality_dep and Classical_Prop.classic (through Flocq's B2R); the exact-arithmetic theorems stay closed.", "6/C10"),
    "C11": (True, "Full. play_one_game modelled over a stream of engine answers (candidates, probabilities, value, v_zero, sampled "
            "index) with the code's precedence (ply-limit test, then rules, then analysis, recording, resignation): the four lists are "
            "aligned and are the engine's answers; the first position is the initial one and each next position = move (previous) "
            "(a recorded candidate), ply = index; play stops at the first over-limit / terminal position or at |v_zero| >= threshold "
            "and not earlier; result = winner by the rules, the side the sign of v_zero favours on resignation, None for draws and "
            "the limit; labels +1/-1 by side to move relative to the winner, 0 throughout when None. Candidate legality and "
            "probabilities being a distribution are hypotheses here (C08/C09 supply them for the real engine).",
            "Coq theorem (loop = relational run, induction over the answer stream) + differential correspondence in Coq with scripted engines forcing every ending class",
            "Scripted engine objects and recorded torch.multinomial in the harness; float values dyadic. play_one_game, Transcript.results and Transcript.logits are additionally REGENERATED from the source (gen/SelfPlayGen.v, py2coq against PySem.v, the engine as an oracle stream) and proved equal to the model (C11_source_*); for the real engine the hypotheses are discharged from C08/C09 (C11_real_engine_*).", "6/C11"),
    "C12": (True, "Full. encode_games (rows in game then ply order with padded tokens, mask, dense policy row with each candidate's "
            "probability at its move id and 0 elsewhere, value, label) and dedup_batch (keys = masked token strings, first-occurrence "
            "order, fieldwise arithmetic means over occurrences, tokens and mask of the first occurrence, identity on duplicate-free "
            "batches) modelled on lists over Q with the per-position token encoding as a Section variable (C06 is the theorem about "
            "it).", "Coq theorem (list induction; first-occurrence order and means over Q) + differential correspondence in Coq with dyadic targets",
            "dedup_batch / encode_games run from the real source; targets dyadic so float32 sums are exact, means compared within 1 ulp32. Both functions are additionally REGENERATED from the source (gen/BatchGen.v, torch2coq against TorchLite.v, validated against torch on every run) and proved equal to the model on rectangular batches (C12_source_*); with the real encoding the keys are (board, side, reserves) (C12_dedup_distinct_positions).", "6/C12"),
    "C13": (True, "Full. format/parse modelled statement by statement over code points (str.split/join proved characterised): "
            "parse(format p) = p for every well-formed position with standard reserves; format(parse s) = s for canonical text; the "
            "accepted text means what the TPS standard says pointwise (square (x,y) = the x-th expanded cell of rank size-1-y read "
            "bottom to top with the mark on the top piece; ply from move number and player) - which excludes mirrored or transposed "
            "readings; every must-refuse class is rejected; the model never crashes or answers Unspecified.",
            "Coq theorem (parser = declarative cell/row shape, decimal printer round trip) about a model also regenerated from the source by a translator (py2coq) + differential correspondence in Coq incl. grammar-directed mutations and an independent writer",
            "Python str methods isascii/isdigit/split and int() modelled on code points (validated by the correspondence). parse_tps, parse_row, format_tps, _format_row, _format_square are additionally REGENERATED from the source (gen/TpsGen.v, py2coq against PySem.v) and proved equal to the model for every string / every position below the str() digit limit, so the C13 theorems are also stated about the translated source (C13_source_*).", "6/C13"),
    "C14": (True, "Full on the specified fragment. parse(format m) = m for EVERY move of sizes 3..8 (proved generally, and compared "
            "exhaustively), stability, parse s = m iff the PTN grammar relation denotes (s, m), the Unspecified class is exactly the "
            "lenient spellings, must-refuse classes rejected, and for any text rendered from tags and moves with comments, move "
            "numbers, annotations, result markers and arbitrary white space parse_game returns the tags and exactly the moves in "
            "order. Regexes and glyph maps are regenerated constants.",
            "Coq theorem (recursive-descent matcher = grammar relation; renderer/parse_game round trip) + regenerated regexes + differential correspondence in Coq (exhaustive over moves and short strings)",
            "A standard declarative regex semantics (spec/RegexSpec.v) ties the REGENERATED regex texts to the hand matchers: the printed ASTs equal the strings scraped from ptn.py and the move matcher, the token filters and the comment substitution are proved equal to that semantics (the greedy \\s+ split and the tag findall scan only per match: _partial); \\s,\\d exact tables checked against re on every run, \\w on ASCII only. format_move (gen/PtnGen.v, py2coq) and parse_move / PTN.parse (gen/PtnParseGen.v, ptn2coq over the regex semantics) are REGENERATED from the source and proved equal to the model for every string (parse_move) / every text the \\w model covers (PTN.parse) (C14_source_*).", "6/C14"),
    "C15": (True, "Full. The eight regenerated matrices are the dihedral group of the square (distinct maps, closed under composition and "
            "inverse, signed permutation linear parts, bijections of the board preserving adjacency, for every size); for every "
            "symmetry, every position with size^2 squares and EVERY move (legal, illegal, off-board, malformed): transform then move "
            "= move then transform as option results, hence legality is preserved both ways; winner (roads may change axis), ply, "
            "side to move and reserves are invariant; symmetries(p) starts with (id, p), has pairwise distinct positions and is "
            "exactly the orbit.",
            "Coq theorem (slide loop invariant under a board permutation; road paths mapped through the symmetry) + regenerated matrices + differential correspondence in Coq",
            "identity must stay first in SYMMETRIES. SYMMETRIES, transform_position, transform_move and symmetries are REGENERATED from the source (gen/SymmetryGen.v, sym2coq against NumpyLite.v + PySem.v, both validated against numpy/CPython on every run) and proved equal to the model, never crashing on boards of size^2 >= 1 squares (C15_source_*).", "6/C15"),
    "C16": (True, "Partial. The dataflow IR of the forward/__init__ methods (Resblock, Torso, embeddings, Transformer, both heads), "
            "of encoding._encode_batch and of every mask producer and model call site (batch classes, ReplayBufferBatch, "
            "Server.run_model, ModelWrapper.evaluate) is REGENERATED from the source on every run by a fail-closed ast translator "
            "and proved (by computation) to denote the hand model; over that model, for abstract per-token operators and an "
            "attention core that sees only the visible keys: padded = unpadded by induction over layers, rows never interact, the "
            "causal output at token i depends on the prefix only, the head reads token 0, every producer marks exactly the padding; "
            "softmax/tanh give a probability vector and a value in [-1,1] over Coq's Reals. What the model cannot exhibit: the "
            "numerics of torch's kernels (fused fast paths, reduced precision) - validated numerically over real models and all "
            "call paths (not a proof; threshold 1e-4, measured noise < 6e-6).",
            "Coq theorem over a dataflow IR regenerated from the source (translator tie); numerical validation of the operator semantics",
            "Translator harness/xformer_ir.py; assumed semantics of nn.MultiheadAttention masks (masked keys get weight exactly 0) and "
            "of LayerNorm/Linear/Embedding acting per token; Reals axioms sig_forall_dec, sig_not_dec, functional_extensionality_dep "
            "in C16_evaluate_is_distribution_partial only.", "6/C16"),
    "C17": (True, "Partial. Over ALL event sequences (arrivals, timer expiries, model completions) of a state-machine model of "
            "worker_loop/Evaluate with the bounded queue, blocked putters and the gather/drain batching rule: service order is arrival "
            "order, each request is answered at most once, with the model's value on its own position (given per-row padding "
            "invariance, which C16 supplies), nothing is lost, everything is answered at quiescence, a pending request at depth k is "
            "answered within k+1 (tight: 2 + k/capacity) model completions; the float32 byte codec round-trips. What the model cannot "
            "exhibit: real thread scheduling, the gRPC transport, cancellation races, equal timer deadlines.",
            "Coq theorem (invariant over all event sequences of a state machine) + schedule-level differential correspondence on a virtual-time asyncio loop",
            "Virtual-time event loop and inline executor of the harness; shims for grpc/protobuf. Queue capacity, batch threshold, gather timeout and the result-to-request pairing are READ from a protocol IR regenerated from worker_loop/run_model/Evaluate/GRPCNetwork.evaluate on every run (gen/ServerIR.v, harness/server_ir.py; the denotation recognises exactly the loop shape the model interprets).", "6/C17"),
    "C18": (True, "Partial. A protocol model (parent, bounded cmd/games queues, workers Starting/Idle/Reading/Playing/Done/Exited, "
            "fault events Raise/Kill, torn queue messages, stop with join timeout) over ALL event sequences: count invariant, a normal "
            "return has exactly N distinct transcripts of this request's ids, queues empty and no worker holding an id between "
            "requests, a fault leaves a non-zero exit code, once a worker has failed the parent returns N or raises within "
            "outstanding+1 completions of its timed get (under the explicit hypothesis that no worker dies mid-write; without it the "
            "statement is refuted - the known finding torn-put-hang), stop terminates all workers. OS process and pipe behaviour is "
            "runtime; real spawn processes with fault injection are compared with the model's prediction.",
            "Coq theorem (invariants and bounded progress over all event sequences of a protocol model) + fault-injection correspondence with real processes",
            "multiprocessing.Queue is FIFO and get(timeout) returns unless a message is torn; scenario harness with a watchdog (hang = observed outcome, parent CPU time never counts as progress). A protocol IR of run_job/entrypoint/play_many/stop/play_many_games is regenerated from the source on every run (gen/WorkersIR.v, harness/workers_ir.py) and its step function is proved to coincide with the hand model's (one named tie lemma per guard).", "6/C18"),
    "C19": (True, "Partial. The file-system operation sequence of SavingHook.save_snapshot and the read set of load_state / "
            "load_or_init_model are REGENERATED from the source on every run (fail-closed ast translator) and tied to the model; "
            "over a file-system model with writes split into truncate+complete: for EVERY history of saves (periodic, on request, "
            "end of run, repeated saves of a step, interrupted-then-resumed runs) and EVERY crash prefix, resume yields a complete "
            "snapshot (the previous or the new one), never a partial one and never scratch once a save completed; save/load exact "
            "per component under a codec round-trip hypothesis; replay window = last min(k,cap) batches; serve/train mode round trip "
            "exact. Process-crash granularity only: fsync/power-loss reordering is outside the model. One known finding "
            "(serve-precision-snapshot) is reported by the check.",
            "Coq theorem (invariant over histories and crash prefixes of a file-system model) + FS-op IR regenerated from the source (translator tie) + crash-injection correspondence",
            "Translator harness/save_ir.py; patched os/shutil/open/torch.save fault injector; torch.save/load and yaml round-trip their payloads (checked bit-exact); os.rename/replace/symlink atomic at process-crash granularity.", "6/C19"),
    "C20": (True, "Full for the logic. chunks/epoch/truncation/generator state machine/replay-buffer merge modelled on lists with the "
            "generator as a Section variable assumed to return a permutation: every epoch yields each stored row exactly once in "
            "batches of the configured size with only the last shorter, all fields permuted by the same permutation, merged buffers "
            "are padded with zeros under a false mask in buffer order, equal seeds give equal streams, fast-forward n = consume n, "
            "a pickled and restored dataset restarts the stream. That torch.randperm permutes and is a function of the generator "
            "state is assumed and checked on every observed call.",
            "Coq theorem (Permutation / chunking lemmas, induction on epochs) + differential correspondence in Coq with the observed permutations as the oracle",
            "torch.randperm / torch.Generator behaviour (observed, validated per call). The Dataset and ReplayBufferDataset methods are REGENERATED from the source (gen/DatasetGen.v, data2coq against TorchData.v, validated against torch on every run) and proved equal to the model on the stated domain, without Crash (C20_source_*).", "6/C20"),
    "C07": (True, "Full. Theorems for every size n: the id table lists exactly the well-formed moves (table_spec), without "
            "repetition, encode/decode are mutual inverses between [0,|table n|) and the move universe; width bound proved for "
            "sizes 3-6 by computation. Tie is exhaustive: every id and move of sizes 0-6 compared with the model inside Coq.",
            "Coq theorem (induction over drop sequences, NoDup of flat_map) + regenerated constants + exhaustive differential correspondence in Coq",
            "Python dict/list semantics behind MOVES_TO_ID; head width read from a constructed PolicyValue.", "6/C07"),
}

ALL = [f"C{i:02d}" for i in range(1, 21)]


def main():
    checks, na = [], []
    for pid in ALL:
        ent = PROPS.get(pid)
        if not ent or not ent[0]:
            na.append({"property_id": pid, "reason": (ent[1] if ent else "check not built yet in this round (work in progress; "
                                                      "the design in DESIGN.md section 6 applies the proof technique to it)")})
            continue
        _, text, tech, note, ref = ent
        checks.append({
            "property_id": pid,
            "quick_cmd": f"./check {pid} --tier quick",
            "thorough_cmd": f"./check {pid} --tier thorough",
            "evidence_file": f"evidence/{pid}.json",
            "replay_cmd_template": f"./check {pid} --replay {{path}}",
            "engine": "coq-model",
            "level_claimed": {"category": "proof", "text": text, "design_ref": f"DESIGN.md section {ref}"},
            "level_note": COMMON_NOTE + note,
            "technique": tech,
        })
    man = {
        "version": 1,
        "setup_cmd": "./setup.sh",
        "hooks": {
            "guard": "NELHAGE_TAKTICIAN_PYTHON_VERIF",
            "enable": "no source hooks are needed: the harness wraps/subclasses from outside (env var is set by ./check but read by nothing in /repo)",
            "baseline_off_cmd": "cd /repo && /venv/bin/python -m pytest -ra -q -p no:cacheprovider --timeout=900 --continue-on-collection-errors",
            "source_commits": [],
            "add_only": True,
        },
        "engines": [{
            "name": "coq-model", "path": "coq/",
            "serves_properties": [c["property_id"] for c in checks],
            "kind_free_text": "Coq 8.16.1 development (model/, spec/, proofs/, props/), built by coq_makefile; correspondence cases generated into build/<id>/cases and evaluated with vm_compute",
        }],
        "checks": checks,
        "not_applicable": na,
        "notes": "fix: commits in /repo repair defects F1-F9 (see known_findings.txt and DESIGN.md section 7).",
    }
    (VERIF / "MANIFEST.json").write_text(json.dumps(man, indent=1) + "\n")


if __name__ == "__main__":
    main()
