"""C19 translator (fail-closed, Python `ast`): the file-system operation
sequence of `SavingHook.save_snapshot` (with `save_snapshot` and
`xformer.loading.save_model` inlined) and the read set of
`TrainingRun.load_or_init_model` / `load_state` / `loading.load_snapshot`
-> coq/gen/SaveIR.v.  Any statement or expression shape that is not listed
here raises TranslateError (the check records a broken obligation
`translate:C19`).  Nothing is executed; only the source text is read."""
import ast
from pathlib import Path

from . import core


class TranslateError(Exception):
    pass


def _src(node):
    return ast.unparse(node)


def _fail(node, why):
    raise TranslateError(f"{why}: line {getattr(node, 'lineno', '?')}: {_src(node)[:160]}")


# symbolic values -----------------------------------------------------------
# ("path", P)            P in PFinal PTmp PLatest PLatestTmp   (run_dir relative, depth 1)
# ("file", P, "name")    a file directly below P
# ("base", P)            os.path.basename(P)
# ("expr", "dotted")     an opaque object expression such as state.model
# ("rundir",)            the run directory itself
# ("fh", ("file",..), mode)

TMP = {"PFinal": "PTmp", "PLatest": "PLatestTmp"}

DATA = {
    "state.model.state_dict()": "CModel",
    "state.model.cfg": "CConfig",
    "state.opt.state_dict()": "COpt",
    "state.replay_buffer": "CReplay",
    "state.elapsed": "CElapsed",
}
LOAD_TARGET = {  # where a loaded value goes -> component
    "state.model.load_state_dict": "CModel",
    "state.opt.load_state_dict": "COpt",
    "state.replay_buffer": "CReplay",
    "state.elapsed": "CElapsed",
}
RUN_DIRS = {"self.run_dir", "self.config.run_dir"}


def _dotted(node, env):
    """dotted name of an attribute chain / call with the root variable substituted from env"""
    if isinstance(node, ast.Name):
        v = env.get(node.id)
        if v is None:
            return node.id
        if v[0] == "expr":
            return v[1]
        return None
    if isinstance(node, ast.Attribute):
        b = _dotted(node.value, env)
        return None if b is None else f"{b}.{node.attr}"
    if isinstance(node, ast.Call) and not node.args and not node.keywords:
        b = _dotted(node.func, env)
        return None if b is None else f"{b}()"
    return None


def _is_call(node, name):
    return isinstance(node, ast.Call) and _src(node.func) == name


def _pathval(node, env):
    """evaluate a path-valued expression symbolically"""
    if isinstance(node, ast.Name):
        v = env.get(node.id)
        if v is None or v[0] not in ("path", "file", "base", "rundir"):
            _fail(node, "not a known path variable")
        return v
    d = _dotted(node, env)
    if d in RUN_DIRS:
        return ("rundir",)
    if _is_call(node, "os.path.join"):
        if len(node.args) != 2 or node.keywords:
            _fail(node, "os.path.join with other than two arguments")
        base = _pathval(node.args[0], env)
        leaf = node.args[1]
        if base == ("rundir",):
            if isinstance(leaf, ast.Constant) and leaf.value == "latest":
                return ("path", "PLatest")
            if isinstance(leaf, ast.JoinedStr):
                vals = leaf.values
                ok = (len(vals) == 2 and isinstance(vals[0], ast.Constant) and vals[0].value == "step_"
                      and isinstance(vals[1], ast.FormattedValue) and vals[1].conversion == -1
                      and _dotted(vals[1].value, env) == "state.elapsed.step"
                      and isinstance(vals[1].format_spec, ast.JoinedStr)
                      and len(vals[1].format_spec.values) == 1
                      and isinstance(vals[1].format_spec.values[0], ast.Constant)
                      and vals[1].format_spec.values[0].value == "06d")
                if ok:
                    return ("path", "PFinal")
            _fail(node, "unknown name below the run directory")
        if base[0] == "path":
            if isinstance(leaf, ast.Constant) and isinstance(leaf.value, str) and leaf.value \
                    and "/" not in leaf.value and leaf.value not in (".", ".."):
                return ("file", base[1], leaf.value)
            _fail(node, "file name is not a plain string literal")
        _fail(node, "os.path.join on an unsupported base")
    if isinstance(node, ast.BinOp) and isinstance(node.op, ast.Add):
        base = _pathval(node.left, env)
        if (base[0] == "path" and base[1] in TMP and isinstance(node.right, ast.Constant)
                and node.right.value == ".tmp"):
            return ("path", TMP[base[1]])
        _fail(node, "unsupported path concatenation")
    if _is_call(node, "os.path.basename"):
        if len(node.args) != 1:
            _fail(node, "basename arity")
        base = _pathval(node.args[0], env)
        if base[0] != "path":
            _fail(node, "basename of a non-directory path")
        return ("base", base[1])
    _fail(node, "unsupported path expression")


def _dirpath(node, env):
    v = _pathval(node, env)
    if v[0] != "path":
        _fail(node, "expected a run_dir-relative directory/link path")
    return v[1]


def _kw(call, allowed):
    got = {k.arg: _src(k.value) for k in call.keywords}
    if got != allowed:
        _fail(call, f"keyword arguments {got} != {allowed}")


class Translator:
    def __init__(self, repo: Path):
        self.repo = Path(repo)
        self.files = {
            "saving": self.repo / "python/tak/alphazero/hooks/saving.py",
            "trainer": self.repo / "python/tak/alphazero/trainer.py",
            "loading": self.repo / "python/xformer/loading.py",
        }
        self.mods = {k: ast.parse(p.read_text()) for k, p in self.files.items()}

    def func(self, mod, name, cls=None):
        body = self.mods[mod].body
        if cls:
            cs = [n for n in body if isinstance(n, ast.ClassDef) and n.name == cls]
            if len(cs) != 1:
                raise TranslateError(f"class {cls} not found exactly once in {mod}")
            body = cs[0].body
        fs = [n for n in body if isinstance(n, ast.FunctionDef) and n.name == name]
        if len(fs) != 1:
            raise TranslateError(f"function {name} not found exactly once in {mod}")
        f = fs[0]
        if f.args.vararg or f.args.kwarg or f.args.kwonlyargs or f.args.defaults or f.decorator_list:
            _fail(f, "unsupported signature")
        return f

    # ---- save side ---------------------------------------------------------
    def call_inline(self, mod, name, call, env, cls=None):
        f = self.func(mod, name, cls)
        params = [a.arg for a in f.args.args]
        if call.keywords or len(call.args) != len(params):
            _fail(call, "inlined call: argument list does not match the definition")
        new = {}
        for p, a in zip(params, call.args):
            d = _dotted(a, env)
            if d is not None and d not in RUN_DIRS and not (isinstance(a, ast.Name) and env.get(a.id, ("expr",))[0] != "expr"):
                new[p] = ("expr", d)
            else:
                new[p] = _pathval(a, env)
        return self.stmts(mod, f.body, new)

    def stmts(self, mod, body, env):
        out = []
        for st in body:
            out += self.stmt(mod, st, env)
        return out

    def stmt(self, mod, st, env):
        # docstrings / print
        if isinstance(st, ast.Expr) and isinstance(st.value, ast.Constant):
            return []
        if isinstance(st, ast.Expr) and _is_call(st.value, "print"):
            return []
        # if self.run_dir is None: return
        if (isinstance(st, ast.If) and not st.orelse and len(st.body) == 1 and isinstance(st.body[0], ast.Return)
                and st.body[0].value is None and _src(st.test) == "self.run_dir is None"):
            return []
        if isinstance(st, ast.Assign):
            if len(st.targets) != 1 or not isinstance(st.targets[0], ast.Name):
                _fail(st, "unsupported assignment target")
            env[st.targets[0].id] = _pathval(st.value, env)
            return []
        if isinstance(st, ast.If):
            t = st.test
            if (isinstance(t, ast.UnaryOp) and isinstance(t.op, ast.Not) and _is_call(t.operand, "os.path.isdir")
                    and len(t.operand.args) == 1 and not st.orelse):
                p = _dirpath(t.operand.args[0], env)
                return [("SIfNotIsDir", p, self.stmts(mod, st.body, env))]
            # if not (flag and os.path.isdir(DIR)):
            if (isinstance(t, ast.UnaryOp) and isinstance(t.op, ast.Not) and isinstance(t.operand, ast.BoolOp)
                    and isinstance(t.operand.op, ast.And) and len(t.operand.values) == 2 and not st.orelse
                    and isinstance(t.operand.values[0], ast.Name)
                    and env.get(t.operand.values[0].id, ("",))[0] == "published"
                    and _is_call(t.operand.values[1], "os.path.isdir") and len(t.operand.values[1].args) == 1):
                _, link, d = env[t.operand.values[0].id]
                p = _dirpath(t.operand.values[1].args[0], env)
                if p != d:
                    _fail(st, "the publication flag and the isdir test name different directories")
                return [("SIfNotPublished", link, p, self.stmts(mod, st.body, env))]
            _fail(st, "unsupported conditional")
        if isinstance(st, ast.Try) and len(st.body) == 1 and isinstance(st.body[0], ast.Assign):
            # try: flag = os.readlink(LINK) == os.path.basename(DIR)   except OSError: flag = False
            a = st.body[0]
            h = st.handlers[0] if len(st.handlers) == 1 else None
            ok = (h is not None and not st.orelse and not st.finalbody and len(a.targets) == 1
                  and isinstance(a.targets[0], ast.Name) and isinstance(a.value, ast.Compare)
                  and len(a.value.ops) == 1 and isinstance(a.value.ops[0], ast.Eq)
                  and _is_call(a.value.left, "os.readlink") and len(a.value.left.args) == 1
                  and not a.value.left.keywords
                  and h.type is not None and _src(h.type) == "OSError" and len(h.body) == 1
                  and isinstance(h.body[0], ast.Assign) and len(h.body[0].targets) == 1
                  and _src(h.body[0].targets[0]) == a.targets[0].id and _src(h.body[0].value) == "False")
            if not ok:
                _fail(st, "unsupported try statement")
            link = _dirpath(a.value.left.args[0], env)
            t = _pathval(a.value.comparators[0], env)
            if t[0] != "base":
                _fail(a, "readlink is not compared with os.path.basename(<step directory>)")
            env[a.targets[0].id] = ("published", link, t[1])
            return []
        if isinstance(st, ast.Try):
            ok = (len(st.body) == 1 and isinstance(st.body[0], ast.Expr) and _is_call(st.body[0].value, "os.unlink")
                  and len(st.handlers) == 1 and st.handlers[0].type is not None
                  and _src(st.handlers[0].type) == "FileNotFoundError"
                  and len(st.handlers[0].body) == 1 and isinstance(st.handlers[0].body[0], ast.Pass)
                  and not st.orelse and not st.finalbody)
            if not ok:
                _fail(st, "unsupported try statement")
            c = st.body[0].value
            if len(c.args) != 1 or c.keywords:
                _fail(c, "os.unlink arity")
            return [("SUnlinkQuiet", _dirpath(c.args[0], env))]
        if isinstance(st, ast.With):
            # with open(FILE, "w") as fh: yaml.dump(DATA, fh)
            if len(st.items) != 1 or len(st.body) != 1:
                _fail(st, "unsupported with statement")
            it = st.items[0]
            c = it.context_expr
            if not (_is_call(c, "open") and len(c.args) == 2 and not c.keywords and isinstance(c.args[1], ast.Constant)
                    and c.args[1].value == "w" and isinstance(it.optional_vars, ast.Name)):
                _fail(st, "unsupported context manager")
            fv = _pathval(c.args[0], env)
            if fv[0] != "file":
                _fail(c, "open of something that is not a file below a snapshot directory")
            b = st.body[0]
            if not (isinstance(b, ast.Expr) and _is_call(b.value, "yaml.dump") and len(b.value.args) == 2
                    and not b.value.keywords and _src(b.value.args[1]) == it.optional_vars.id):
                _fail(b, "body of the with statement is not yaml.dump(data, fh)")
            return [("SWrite", fv[1], fv[2], self.data(b.value.args[0], env))]
        if isinstance(st, ast.Expr) and isinstance(st.value, ast.Call):
            c = st.value
            name = _src(c.func)
            if name == "shutil.rmtree":
                _kw(c, {"ignore_errors": "True"})
                if len(c.args) != 1:
                    _fail(c, "rmtree arity")
                return [("SRmTree", _dirpath(c.args[0], env))]
            if name == "os.makedirs":
                _kw(c, {"exist_ok": "True"})
                if len(c.args) != 1:
                    _fail(c, "makedirs arity")
                return [("SMkDirs", _dirpath(c.args[0], env))]
            if name == "torch.save":
                if len(c.args) != 2 or c.keywords:
                    _fail(c, "torch.save arity")
                fv = _pathval(c.args[1], env)
                if fv[0] != "file":
                    _fail(c, "torch.save target is not a file below a snapshot directory")
                return [("SWrite", fv[1], fv[2], self.data(c.args[0], env))]
            if name in ("os.rename", "os.replace"):
                if len(c.args) != 2 or c.keywords:
                    _fail(c, name + " arity")
                return [("SRename" if name == "os.rename" else "SReplace",
                         _dirpath(c.args[0], env), _dirpath(c.args[1], env))]
            if name == "os.unlink":
                if len(c.args) != 1 or c.keywords:
                    _fail(c, "unlink arity")
                return [("SUnlink", _dirpath(c.args[0], env))]
            if name == "os.symlink":
                if len(c.args) != 2 or c.keywords:
                    _fail(c, "symlink arity")
                t = _pathval(c.args[0], env)
                if t[0] != "base":
                    _fail(c, "symlink target is not os.path.basename(<step directory>)")
                return [("SSymlinkBase", t[1], _dirpath(c.args[1], env))]
            if name == "save_snapshot" and mod == "saving":
                return self.call_inline("saving", "save_snapshot", c, env)
            if name == "loading.save_model" and mod == "saving":
                return self.call_inline("loading", "save_model", c, env)
        _fail(st, "unsupported statement")

    def data(self, node, env):
        d = _dotted(node, env)
        if d not in DATA:
            _fail(node, "saved value is not one of the known state components")
        return DATA[d]

    def save_prog(self):
        f = self.func("saving", "save_snapshot", cls="SavingHook")
        if [a.arg for a in f.args.args] != ["self", "state"]:
            _fail(f, "unexpected parameters")
        # the hook's callers: after_step / after_run call self.save_snapshot(state) and nothing else touches the fs
        return self.stmts("saving", f.body, {"state": ("expr", "state")})

    # ---- load side ---------------------------------------------------------
    def load_reads(self):
        f = self.func("trainer", "load_or_init_model", cls="TrainingRun")
        first = f.body[0]
        ok = (isinstance(first, ast.If) and not first.orelse
              and len(first.body) == 2 and isinstance(first.body[0], ast.Assign) and isinstance(first.body[1], ast.If))
        if not ok:
            _fail(first, "load_or_init_model does not start with the run_dir/latest probe")
        # the guard of the resume branch, atom by atom (which configuration reaches run_dir/latest at all)
        atoms = first.test.values if isinstance(first.test, ast.BoolOp) and isinstance(first.test.op, ast.And) else [first.test]
        conds = []
        for a in atoms:
            c = {"self.config.run_dir": "CRunDir", "self.config.load_model": "CLoadModel",
                 "not self.config.load_model": "CNotLoadModel", "not self.config.run_dir": "CNotRunDir"}.get(_src(a))
            if c is None:
                _fail(a, "unknown condition on the resume branch")
            conds.append(c)
        self.branches = [(conds + ["CExistsLatest"], "ALoadState")]
        rest = f.body[1:]
        ok = (len(rest) == 1 and isinstance(rest[0], ast.If) and _src(rest[0].test) == "self.config.load_model"
              and len(rest[0].orelse) == 1 and _src(rest[0].orelse[0]) == "self.state.model.init_weights()"
              and rest[0].body and _src(rest[0].body[0]) == "loading.load_snapshot(self.state.model, self.config.load_model)")
        if not ok:
            _fail(rest[0] if rest else f, "unsupported fall-back branches (load_model / init_weights)")
        for st in rest[0].body[1:]:
            for n in ast.walk(st):
                if isinstance(n, ast.Call) and _src(n.func) not in ("os.path.join", "os.path.exists", "torch.load",
                                                                    "self.state.opt.load_state_dict"):
                    _fail(n, "unsupported call in the load_model branch")
        self.branches += [(["CLoadModel"], "ALoadInitial"), ([], "AInitWeights")]
        env = {}
        self.stmt("trainer", first.body[0], env)
        probe = first.body[1]
        var = first.body[0].targets[0].id
        if env.get(var) != ("path", "PLatest"):
            _fail(first.body[0], "the probed path is not run_dir/latest")
        ok = (_is_call(probe.test, "os.path.exists") and len(probe.test.args) == 1 and _src(probe.test.args[0]) == var
              and not probe.orelse and len(probe.body) == 2 and isinstance(probe.body[1], ast.Return)
              and probe.body[1].value is None and isinstance(probe.body[0], ast.Expr)
              and _is_call(probe.body[0].value, "load_state"))
        if not ok:
            _fail(probe, "unsupported resume branch")
        call = probe.body[0].value
        if [_src(a) for a in call.args] != ["self.state", var] or call.keywords:
            _fail(call, "load_state arguments")
        for rest in f.body[1:]:
            for n in ast.walk(rest):
                if isinstance(n, ast.Call) and _src(n.func) == "load_state":
                    _fail(n, "a second call of load_state")
        ls = self.func("trainer", "load_state")
        if [a.arg for a in ls.args.args] != ["state", "snapshot_path"]:
            _fail(ls, "load_state parameters")
        env = {"state": ("expr", "state"), "snapshot_path": ("path", "PLatest")}
        return self.reads("trainer", ls.body, env)

    def read_file(self, node, env, mode_ok=("r",)):
        """torch.load(FILE, ...) -> file name"""
        if _is_call(node, "torch.load"):
            if len(node.args) != 1 or any(k.arg != "map_location" for k in node.keywords):
                _fail(node, "torch.load arguments")
            fv = _pathval(node.args[0], env)
            if fv[0] != "file" or fv[1] != "PLatest":
                _fail(node, "torch.load from outside the snapshot directory")
            return fv[2]
        return None

    def reads(self, mod, body, env):
        out = []
        for st in body:
            if isinstance(st, ast.Expr) and isinstance(st.value, ast.Call):
                c = st.value
                name = _src(c.func)
                if name == "loading.load_snapshot" and mod == "trainer":
                    f = self.func("loading", "load_snapshot")
                    params = [a.arg for a in f.args.args]
                    if len(params) != 2 or len(c.args) != 2 or c.keywords:
                        _fail(c, "load_snapshot arguments")
                    d = _dotted(c.args[0], env)
                    new = {params[0]: ("expr", d), params[1]: _pathval(c.args[1], env)}
                    out += self.reads("loading", f.body, new)
                    continue
                d = _dotted(c.func, env)
                if d in LOAD_TARGET and len(c.args) == 1 and not c.keywords:
                    a = c.args[0]
                    if isinstance(a, ast.Name) and env.get(a.id, ("",))[0] == "loaded":
                        out.append((env[a.id][1], LOAD_TARGET[d]))
                        continue
                    fn = self.read_file(a, env)
                    if fn is not None:
                        out.append((fn, LOAD_TARGET[d]))
                        continue
                _fail(st, "unsupported load statement")
            if isinstance(st, ast.Assign) and len(st.targets) == 1:
                tgt = st.targets[0]
                fn = self.read_file(st.value, env)
                if fn is not None and isinstance(tgt, ast.Name):
                    env[tgt.id] = ("loaded", fn)
                    continue
                d = _dotted(tgt, env)
                if fn is not None and d in LOAD_TARGET:
                    out.append((fn, LOAD_TARGET[d]))
                    continue
                _fail(st, "unsupported load assignment")
            if isinstance(st, ast.With) and len(st.items) == 1 and len(st.body) == 1:
                c = st.items[0].context_expr
                fhv = st.items[0].optional_vars
                if (_is_call(c, "open") and 1 <= len(c.args) <= 2 and not c.keywords and isinstance(fhv, ast.Name)
                        and (len(c.args) == 1 or (isinstance(c.args[1], ast.Constant) and c.args[1].value == "r"))):
                    fv = _pathval(c.args[0], env)
                    b = st.body[0]
                    if (fv[0] == "file" and fv[1] == "PLatest" and isinstance(b, ast.Assign) and len(b.targets) == 1
                            and _is_call(b.value, "yaml.unsafe_load") and len(b.value.args) == 1
                            and _src(b.value.args[0]) == fhv.id and _dotted(b.targets[0], env) in LOAD_TARGET):
                        out.append((fv[2], LOAD_TARGET[_dotted(b.targets[0], env)]))
                        continue
                _fail(st, "unsupported with statement on the load side")
            _fail(st, "unsupported statement on the load side")
        return out


# ---- emission --------------------------------------------------------------
def _stmt_coq(s):
    k = s[0]
    if k == "SIfNotIsDir":
        return f"SIfNotIsDir {s[1]} [{'; '.join(_stmt_coq(x) for x in s[2])}]"
    if k == "SIfNotPublished":
        return f"SIfNotPublished {s[1]} {s[2]} [{'; '.join(_stmt_coq(x) for x in s[3])}]"
    if k == "SWrite":
        return f'SWrite {s[1]} "{s[2]}" {s[3]}'
    return " ".join([k] + list(s[1:]))


TYPES = '''Inductive comp := CModel | CConfig | COpt | CReplay | CElapsed.
(* run_dir-relative names: step_NNNNNN, step_NNNNNN.tmp, latest, latest.tmp *)
Inductive pexp := PFinal | PTmp | PLatest | PLatestTmp.
Inductive stmt :=
| SIfNotIsDir (p : pexp) (body : list stmt)   (* if not os.path.isdir(p): body *)
| SIfNotPublished (link p : pexp) (body : list stmt)
      (* try: f = os.readlink(link) == os.path.basename(p)  except OSError: f = False
         if not (f and os.path.isdir(p)): body *)
| SRmTree (p : pexp)                          (* shutil.rmtree(p, ignore_errors=True) *)
| SMkDirs (p : pexp)                          (* os.makedirs(p, exist_ok=True) *)
| SWrite (d : pexp) (file : string) (c : comp) (* torch.save(c, d/file)  or  with open(d/file, "w") as fh: yaml.dump(c, fh) *)
| SRename (a b : pexp)                        (* os.rename(a, b) *)
| SUnlink (p : pexp)                          (* os.unlink(p) *)
| SUnlinkQuiet (p : pexp)                     (* try: os.unlink(p) except FileNotFoundError: pass *)
| SSymlinkBase (target link : pexp)           (* os.symlink(os.path.basename(target), link) *)
| SReplace (a b : pexp).                      (* os.replace(a, b) *)
(* load_or_init_model: the first branch whose conditions all hold is taken *)
Inductive rcond := CRunDir | CNotRunDir | CLoadModel | CNotLoadModel | CExistsLatest.
Inductive ract := ALoadState | ALoadInitial | AInitWeights.'''


def translate(repo=None):
    t = Translator(repo or core.REPO)
    prog = t.save_prog()
    reads = t.load_reads()
    for fn, _ in reads:
        if '"' in fn or "\\" in fn:
            raise TranslateError("file name needs escaping: " + fn)
    text = (
        "(* GENERATED by harness/save_ir.py from python/tak/alphazero/hooks/saving.py,\n"
        "   python/tak/alphazero/trainer.py, python/xformer/loading.py - do not edit.\n"
        "   save_prog = SavingHook.save_snapshot with save_snapshot and loading.save_model inlined;\n"
        "   load_reads = the files load_state / load_snapshot read from run_dir/latest, reached only\n"
        "   when os.path.exists(run_dir/latest) (load_or_init_model). *)\n"
        "From Coq Require Import List String.\nImport ListNotations.\nOpen Scope string_scope.\n\n"
        + TYPES + "\n\n"
        "Definition save_prog : list stmt :=\n  [ " + ";\n    ".join(_stmt_coq(s) for s in prog) + " ].\n\n"
        "Definition load_reads : list (string * comp) :=\n  [ "
        + "; ".join(f'("{fn}", {c})' for fn, c in reads) + " ].\n\n"
        "Definition resume_probe : pexp := PLatest.\n\n"
        "Definition resume_branches : list (list rcond * ract) :=\n  [ "
        + "; ".join(f"([{'; '.join(cs)}], {a})" for cs, a in t.branches) + " ].\n"
    )
    return text, prog, reads


def regen(repo=None):
    text, prog, reads = translate(repo)
    changed = core.write_if_changed(core.COQ / "gen" / "SaveIR.v", text)
    return changed, prog, reads


if __name__ == "__main__":
    print(translate()[0])
