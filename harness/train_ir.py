"""C19 translator, second half (fail-closed, Python `ast`): from
python/tak/alphazero/trainer.py -> coq/gen/TrainIR.v
  * window_prog   - the replay-window statements of TrainingRun.train_step
  * serve_prog / train_prog - serve_mode / train_mode as capture / convert / load steps, IN SOURCE ORDER
  * train_step_events, loop_pre / loop_body / loop_post, run_async_events - the order of train_mode, the
    optimisation loop, serve_mode, the hook calls, and optimiser construction vs load_or_init_model.
Unknown shapes raise TranslateError.  Nothing is executed."""
import ast
from pathlib import Path

from . import core
from .save_ir import TranslateError, _fail, _src

BUF = "self.state.replay_buffer"
CAP = "self.config.replay_buffer_steps"
MODEL = "self.state.model"
CMP = {ast.Gt: "CGt", ast.GtE: "CGe", ast.Lt: "CLt", ast.LtE: "CLe", ast.Eq: "CEq", ast.NotEq: "CNe"}
FLIP = {"CGt": "CLt", "CGe": "CLe", "CLt": "CGt", "CLe": "CGe", "CEq": "CEq", "CNe": "CNe"}
HOOKS = {"before_run", "after_run", "before_rollout", "before_train", "after_step", "finalize"}


def _method(cls, name):
    fs = [n for n in cls.body if isinstance(n, (ast.FunctionDef, ast.AsyncFunctionDef)) and n.name == name]
    if len(fs) != 1:
        raise TranslateError(f"TrainingRun.{name} not found exactly once")
    return fs[0]


def _int(node):
    if node is None:
        return None
    if isinstance(node, ast.Constant) and isinstance(node.value, int) and not isinstance(node.value, bool):
        return node.value
    if isinstance(node, ast.UnaryOp) and isinstance(node.op, ast.USub) and isinstance(node.operand, ast.Constant) \
            and isinstance(node.operand.value, int):
        return -node.operand.value
    _fail(node, "slice bound is not an integer literal")


def _opt(v):
    return "None" if v is None else f"(Some {core.cz(v)})"


# ---- window -----------------------------------------------------------------
def window_stmt(st):
    """one statement of the window, or None if the statement does not touch the replay buffer"""
    src = _src(st)
    if BUF not in src and "replay_buffer" not in src:
        return None
    if isinstance(st, ast.Expr) and isinstance(st.value, ast.Call) and _src(st.value.func) == BUF + ".append":
        if len(st.value.args) != 1 or st.value.keywords or _src(st.value.args[0]) != "batch":
            _fail(st, "append of something that is not the new batch")
        return "WAppend"
    if isinstance(st, ast.If) and not st.orelse and len(st.body) == 1 and isinstance(st.test, ast.Compare) \
            and len(st.test.ops) == 1 and type(st.test.ops[0]) in CMP:
        l, r = _src(st.test.left), _src(st.test.comparators[0])
        c = CMP[type(st.test.ops[0])]
        if l == f"len({BUF})" and r == CAP:
            pass
        elif r == f"len({BUF})" and l == CAP:
            c = FLIP[c]
        else:
            _fail(st, "window guard does not compare len(replay_buffer) with replay_buffer_steps")
        b = st.body[0]
        if not (isinstance(b, ast.Assign) and len(b.targets) == 1 and _src(b.targets[0]) == BUF
                and isinstance(b.value, ast.Subscript) and _src(b.value.value) == BUF
                and isinstance(b.value.slice, ast.Slice) and b.value.slice.step is None):
            _fail(b, "window body is not replay_buffer = replay_buffer[lo:hi]")
        return f"WIfSlice {c} {_opt(_int(b.value.slice.lower))} {_opt(_int(b.value.slice.upper))}"
    # read-only uses (building the dataset, statistics) are fine; any other write is not
    for n in ast.walk(st):
        if isinstance(n, (ast.Assign, ast.AugAssign, ast.Delete)):
            tg = n.targets if isinstance(n, (ast.Assign, ast.Delete)) else [n.target]
            if any(BUF in _src(t) for t in tg):
                _fail(st, "unsupported write to the replay buffer")
        if isinstance(n, ast.Call) and _src(n.func).startswith(BUF + "."):
            _fail(st, "unsupported method call on the replay buffer")
    return None


# ---- serve_mode / train_mode ------------------------------------------------------
def _to_call(call):
    """model.to(...) -> 'MTo DServe true' etc."""
    kw = {k.arg: _src(k.value) for k in call.keywords}
    args = [_src(a) for a in call.args]
    dev = False
    if kw.get("device") == "self.config.device":
        dev = True
        kw.pop("device")
    elif "device" in kw:
        _fail(call, "conversion to a device other than config.device")
    d = kw.pop("dtype", None)
    if d is None and len(args) == 1:
        d = args[0]
        args = []
    if kw or args or d not in ("self.config.serve_dtype", "self.config.train_dtype"):
        _fail(call, "unsupported arguments of model.to")
    return f"MTo {'DServe' if d.endswith('serve_dtype') else 'DTrain'} {'true' if dev else 'false'}"


def mode_stmts(fn):
    out = []
    for st in fn.body:
        if isinstance(st, ast.Expr) and isinstance(st.value, ast.Constant):
            continue
        if isinstance(st, ast.Assign) and len(st.targets) == 1 and _src(st.targets[0]) == "self.train_params":
            v = st.value
            ok = (isinstance(v, ast.DictComp) and len(v.generators) == 1 and not v.generators[0].ifs
                  and _src(v.generators[0].iter) == MODEL + ".state_dict().items()"
                  and isinstance(v.generators[0].target, ast.Tuple) and len(v.generators[0].target.elts) == 2)
            if not ok:
                _fail(st, "unsupported construction of train_params")
            kn, vn = (_src(e) for e in v.generators[0].target.elts)
            if _src(v.key) != kn or _src(v.value) != f"{vn}.cpu()":
                _fail(st, "train_params entries are not k: v.cpu()")
            out.append("MCapture")
            continue
        if isinstance(st, ast.Expr) and isinstance(st.value, ast.Call):
            # a chain  model.to(..)[.load_state_dict(self.train_params)]  read left to right
            chain = []
            c = st.value
            while isinstance(c, ast.Call) and isinstance(c.func, ast.Attribute):
                chain.append(c)
                c = c.func.value
            if _src(c) != MODEL:
                _fail(st, "a call that does not start at self.state.model")
            for call in reversed(chain):
                name = call.func.attr
                if name == "to":
                    out.append(_to_call(call))
                elif name == "load_state_dict":
                    if [_src(a) for a in call.args] != ["self.train_params"] or call.keywords:
                        _fail(call, "load_state_dict of something else than train_params / with options")
                    out.append("MLoad")
                else:
                    _fail(call, "unsupported method on the model")
            continue
        _fail(st, "unsupported statement in serve_mode/train_mode")
    return out


# ---- order of events ----------------------------------------------------------------
def _has_call(node, text):
    return any(isinstance(n, ast.Call) and _src(n.func) == text for n in ast.walk(node))


def events(stmts, where):
    """events of a statement list in source order"""
    out = []
    for st in stmts:
        if where == "train_step":
            w = window_stmt(st)
            if w is not None:
                if not out or out[-1] != "EWindow":
                    out.append("EWindow")
                continue
            if isinstance(st, ast.For) and _has_call(st, "self.state.opt.step"):
                for bad in ("self.serve_mode", "self.train_mode", "self.load_or_init_model"):
                    if _has_call(st, bad):
                        _fail(st, "mode switch inside the optimisation loop")
                out.append("EOptimise")
                continue
            if isinstance(st, ast.AugAssign) and _src(st.target) == "self.state.elapsed.step":
                out.append("EStepInc")
                continue
        if isinstance(st, ast.For) and _src(st.iter) == "self.config.hooks" and len(st.body) == 1 \
                and isinstance(st.body[0], ast.Expr) and isinstance(st.body[0].value, ast.Call) \
                and isinstance(st.body[0].value.func, ast.Attribute) \
                and _src(st.body[0].value.func.value) == _src(st.target):
            name = st.body[0].value.func.attr
            if name not in HOOKS:
                _fail(st, "unknown hook")
            out.append(f'EHook "{name}"')
            continue
        found = []
        for n in ast.walk(st):
            if isinstance(n, ast.Call):
                f = _src(n.func)
                ev = {"xformer.Transformer": "EBuildModel", "torch.optim.AdamW": "EBuildOpt",
                      "self.load_or_init_model": "ELoadOrInit", "self.serve_mode": "EServeMode",
                      "self.train_mode": "ETrainMode", "self.train_loop": "ETrainLoop",
                      "self.train_step": "ETrainStep"}.get(f)
                if ev:
                    found.append((n.lineno, n.col_offset, ev))
                elif isinstance(n.func, ast.Attribute) and _src(n.func.value) == "self" \
                        and n.func.attr not in ("should_exit",):
                    _fail(n, f"call of an unknown method of the run in {where}")
                elif f.endswith(".opt.step") or f.endswith(".load_state_dict") or ".model.to" in f:
                    _fail(n, f"state-changing call outside its place in {where}")
                elif isinstance(n.func, ast.Attribute) and n.func.attr in HOOKS:
                    _fail(n, "hook call in an unsupported form")
        if found and isinstance(st, (ast.For, ast.While, ast.If, ast.Try, ast.With)):
            _fail(st, f"event inside a compound statement in {where}")
        out += [e for _, _, e in sorted(found)]
    return out


def translate(repo=None):
    repo = Path(repo or core.REPO)
    mod = ast.parse((repo / "python/tak/alphazero/trainer.py").read_text())
    cls = [n for n in mod.body if isinstance(n, ast.ClassDef) and n.name == "TrainingRun"]
    if len(cls) != 1:
        raise TranslateError("class TrainingRun not found exactly once")
    cls = cls[0]
    ts = _method(cls, "train_step")
    window = [w for w in (window_stmt(st) for st in ts.body) if w is not None]
    ts_events = events(ts.body, "train_step")
    serve = mode_stmts(_method(cls, "serve_mode"))
    train = mode_stmts(_method(cls, "train_mode"))
    tl = _method(cls, "train_loop")
    tries = [n for n in tl.body if isinstance(n, ast.Try)]
    if len(tries) != 1 or tries[0].handlers or tries[0].orelse:
        raise TranslateError("train_loop: expected exactly one try/finally")
    for st in tl.body:
        if st is not tries[0] and events([st], "train_loop"):
            _fail(st, "event outside the try block of train_loop")
    if events(tries[0].finalbody, "train_loop"):
        _fail(tries[0], "event in the finally block of train_loop")
    body = tries[0].body
    whiles = [i for i, n in enumerate(body) if isinstance(n, ast.While)]
    if len(whiles) != 1 or _src(body[whiles[0]].test) != "not self.should_exit()" or body[whiles[0]].orelse:
        raise TranslateError("train_loop: expected exactly one `while not self.should_exit()` loop")
    w = whiles[0]
    pre, loop, post = events(body[:w], "train_loop"), events(body[w].body, "train_loop"), events(body[w + 1:], "train_loop")
    ra = events(_method(cls, "run_async").body, "run_async")

    def lst(xs):
        return "[" + "; ".join(xs) + "]"
    text = (
        "(* GENERATED by harness/train_ir.py from python/tak/alphazero/trainer.py - do not edit. *)\n"
        "From Coq Require Import List String ZArith.\nImport ListNotations.\nOpen Scope string_scope.\nOpen Scope Z_scope.\n\n"
        "Inductive cmp := CGt | CGe | CLt | CLe | CEq | CNe.\n"
        "Inductive wstmt :=\n"
        "| WAppend                                       (* self.state.replay_buffer.append(batch) *)\n"
        "| WIfSlice (c : cmp) (lo hi : option Z).         (* if len(buf) <c> config.replay_buffer_steps: buf = buf[lo:hi] *)\n"
        "Inductive dsel := DServe | DTrain.\n"
        "Inductive mstmt :=\n"
        "| MCapture                                      (* self.train_params = {k: v.cpu() for (k, v) in model.state_dict().items()} *)\n"
        "| MTo (d : dsel) (with_device : bool)            (* model.to([device=config.device,] dtype=config.<d>_dtype) *)\n"
        "| MLoad.                                        (* model.load_state_dict(self.train_params) *)\n"
        "Inductive ev :=\n"
        "| EBuildModel | EBuildOpt | ELoadOrInit | EServeMode | ETrainMode | ETrainLoop | ETrainStep\n"
        "| EHook (name : string) | EWindow | EStepInc | EOptimise.\n\n"
        f"Definition window_prog : list wstmt := {lst(window)}.\n"
        f"Definition serve_prog : list mstmt := {lst(serve)}.\n"
        f"Definition train_prog : list mstmt := {lst(train)}.\n"
        f"Definition train_step_events : list ev := {lst(ts_events)}.\n"
        f"Definition loop_pre : list ev := {lst(pre)}.\n"
        f"Definition loop_body : list ev := {lst(loop)}.\n"
        f"Definition loop_post : list ev := {lst(post)}.\n"
        f"Definition run_async_events : list ev := {lst(ra)}.\n"
    )
    return text


def regen(repo=None):
    return core.write_if_changed(core.COQ / "gen" / "TrainIR.v", translate(repo))


STUB_DEFS = ("Definition window_prog : list wstmt := [].\nDefinition serve_prog : list mstmt := [].\n"
             "Definition train_prog : list mstmt := [].\nDefinition train_step_events : list ev := [].\n"
             "Definition loop_pre : list ev := [].\nDefinition loop_body : list ev := [].\n"
             "Definition loop_post : list ev := [].\nDefinition run_async_events : list ev := [].\n")


if __name__ == "__main__":
    print(translate())
