"""C20 - dataset epochs are aligned permutations; the file dataset's stream is reproducible.

Implementation under test: `xformer.data.Dataset` (file dataset) and
`tak.alphazero.data.ReplayBufferDataset`.  Every case carries the stored data,
the configuration, a usage history, every answer `torch.randperm` gave while the
implementation ran (observed through a recording wrapper, keyed by the torch
generator state it was called with) and the batches the implementation yielded;
`model/Dataset.v` recomputes the batches inside Coq from the same oracle answers.
"""
import hashlib
import json
import pickle
import shutil
import tempfile
from pathlib import Path

from .. import core
from ..core import cz, clist, copt, czlist, cstr

ID = "C20"
THEOREMS = [
    "C20_chunks_concat", "C20_chunks_sizes", "C20_batches_are_chunks", "C20_batch_sizes",
    "C20_epoch_is_permutation", "C20_every_epoch_is_permutation",
    "C20_fields_aligned", "C20_fields_aligned_rowwise",
    "C20_truncation", "C20_no_truncation",
    "C20_replay_epoch_is_permutation", "C20_merge_padding", "C20_padding_is_zero", "C20_merge_padding_rowwise",
    "C20_seed_determines_stream", "C20_fastforward_eq_consume", "C20_fastforward_skips_stream",
    "C20_pickle_restarts", "C20_pickle_restarts_stream",
            "C20_source_new_eq", "C20_source_next_epoch_eq", "C20_source_fastforward_eq", "C20_source_iter_eq", "C20_source_pickle_eq", "C20_source_cat_eq", "C20_source_rb_iter_eq", "C20_source_epoch_is_permutation", "C20_source_fastforward_eq_consume", "C20_source_pickle_restarts", "C20_source_merge_padding", "C20_source_rb_epoch_is_permutation"]
MODEL_TARGETS = ["model/Dataset.vo", "model/Harness.vo"]
TRUSTED_BASE = [
    "torch.randperm(n, generator=g) returns a permutation of 0..n-1 and is a function of the generator state "
    "(Section hypothesis randperm_perm; every observed call is validated by the correspondence, in Python and in Coq)",
    "torch.save/torch.load round-trip a dict of tensors; torch.load(path) returns the file's current contents, the same at "
    "construction and at unpickling unless the file is rewritten (Section variable `load`; the harness rewrites a file only in the "
    "explicit `rewrite` step of the shared-file scripts, and datasets created before it are not unpickled after it)",
    "tensor indexing v[perm], v[i:i+bs], v[:k], torch.cat, slice assignment modelled as list operations (validated by the correspondence)",
    "pickle of an attrs class calls __getstate__/__setstate__ (validated: pickle.dumps/loads histories)",
]
ASSUMPTIONS = [
    "domain of the theorems and of the correspondence: batch_size >= 1, batches None or >= 0, at least one field, all fields with "
    "the same number of rows; batch_size = 0 raises ValueError in range(); negative batch sizes / batches are not part of the "
    "property's quantifier and are not exercised (the model totalises them with Python's slice semantics)",
    "replay buffers: every buffer has the keys of the first one, positions/mask are 2-D of equal shape, and a buffer without rows "
    "is not wider than every non-empty buffer (the list model has no width for an empty block)",
    "device/pin_memory/batch_class are pass-through on cpu and not modelled; only cpu is exercised",
]

HEADER = ("From Coq Require Import ZArith List Bool.\nFrom TV Require Import model.Dataset.\nImport ListNotations.")

DT_CODES = {"uint8": 0, "int64": 1, "int32": 2, "float32": 3, "bool": 4, "float64": 5, "int16": 6}


# --------------------------------------------------------------------------
# tensors <-> nested lists
# --------------------------------------------------------------------------
def _torch():
    import torch
    return torch


def mk_tensor(f):
    torch = _torch()
    t = torch.tensor(f["values"], dtype=getattr(torch, f["dtype"]))
    return t.reshape(f["shape"])


def rows_of(t):
    """tensor with leading dimension n -> n rows of integers (floats by bit pattern, bools 0/1)"""
    torch = _torch()
    n = t.shape[0]
    if n == 0:
        return []
    if t.numel() == 0:
        return [[] for _ in range(n)]
    t = t.detach().cpu().contiguous()
    if t.dtype == torch.float32:
        t = t.view(torch.int32)
    elif t.dtype == torch.float64:
        t = t.view(torch.int64)
    elif t.dtype == torch.bool:
        t = t.long()
    return t.reshape(n, -1).tolist()


def dt_code(t):
    return DT_CODES.get(str(t.dtype).replace("torch.", ""), 99)


def dict_rows(d):
    return [(k, rows_of(v)) for k, v in d.items()]


def c_rows(rows):
    return clist([czlist(r) for r in rows])


def c_dict(items):
    return clist([f"({cstr(k)}, {c_rows(rows)})" for k, rows in items])


def c_batches(bs):
    return clist([c_dict(b) for b in bs])


class Recorder:
    """wraps torch.randperm; records (generator state before, n, answer, state after) of every call"""

    def __init__(self):
        self.torch = _torch()
        self.orig = self.torch.randperm
        self.calls = []
        self.states = {}

    def sid(self, st):
        h = hashlib.sha1(st.numpy().tobytes()).hexdigest()
        return self.states.setdefault(h, len(self.states))

    def seed_state(self, seed):
        return self.sid(self.torch.Generator().manual_seed(seed).get_state())

    def __call__(self, n, *a, generator=None, **kw):
        g = generator if generator is not None else self.torch.default_generator
        before = self.sid(g.get_state())
        r = self.orig(n, *a, generator=generator, **kw)
        after = self.sid(g.get_state())
        self.calls.append((before, int(n), [int(x) for x in r.tolist()], after, generator is not None))
        return r

    def __enter__(self):
        self.torch.randperm = self
        return self

    def __exit__(self, *a):
        self.torch.randperm = self.orig


def is_perm(p, n):
    return len(p) == n and sorted(p) == list(range(n))


# --------------------------------------------------------------------------
# file dataset: generation, implementation run, case emission, oracle
# --------------------------------------------------------------------------
NAMES = ["ints", "squares", "inputs", "targets", "mask", "positions", "a", "b", "x_1", "values"]


def gen_field(rng, name, n, dtype=None, shape=None):
    dtype = dtype or rng.choice(["uint8", "uint8", "int64", "int64", "int32", "float32", "bool"])
    if shape is None:
        r = rng.random()
        if r < 0.5:
            shape = [n]
        elif r < 0.9:
            shape = [n, rng.choice([0, 1, 2, 3, 5])]
        else:
            shape = [n, rng.choice([1, 2]), rng.choice([1, 2, 3])]
    cnt = 1
    for s in shape:
        cnt *= s
    if dtype == "uint8":
        vals = [rng.choice([0, 1, 2, 127, 128, 200, 255]) if rng.random() < 0.5 else rng.randrange(256) for _ in range(cnt)]
    elif dtype == "bool":
        vals = [rng.random() < 0.5 for _ in range(cnt)]
    elif dtype == "float32":
        vals = [rng.randrange(-64, 64) / 8.0 for _ in range(cnt)]
    elif dtype == "int32":
        vals = [rng.randrange(-1000, 1000) for _ in range(cnt)]
    else:
        vals = [rng.choice([rng.randrange(-5, 6), rng.randrange(-2 ** 40, 2 ** 40)]) for _ in range(cnt)]
    return {"name": name, "dtype": dtype, "shape": shape, "values": vals}


def pick_n(rng, quick, big_ok=True):
    r = rng.random()
    if r < 0.25:
        return rng.randrange(0, 9)
    if r < 0.7:
        return rng.randrange(9, 61)
    if quick or not big_ok or r < 0.985:
        return rng.randrange(61, 201)
    return rng.randrange(201, 5001)


def pick_bs(rng, n):
    r = rng.random()
    divs = [d for d in range(1, n + 1) if n % d == 0] or [1]
    if r < 0.3:
        return rng.choice(divs)
    if r < 0.4:
        return max(1, n)
    if r < 0.5:
        return n + 1 + rng.randrange(3)
    if r < 0.6:
        return 1 if n <= 40 else rng.randrange(2, 8)
    return rng.randrange(1, n + 3) if n <= 40 else rng.randrange(n // 30 + 2, n + 3)


def gen_file_spec(rng, quick):
    n = pick_n(rng, quick)
    big = n > 200
    nf = 1 if big else rng.choice([1, 2, 2, 3, 3, 4])
    names = rng.sample(NAMES, nf)
    fields = []
    for i, nm in enumerate(names):
        if big:
            fields.append(gen_field(rng, nm, n, dtype=rng.choice(["uint8", "int64"]), shape=[n]))
        else:
            fields.append(gen_field(rng, nm, n))
    bs = pick_bs(rng, n)
    nb_full = (n + bs - 1) // bs
    r = rng.random()
    if r < 0.45:
        batches = None
    elif r < 0.55:
        batches = 0 if rng.random() < 0.3 else nb_full
    else:
        batches = rng.randrange(0, nb_full + 3)
    seed = rng.choice([0, 1, 0x12345678, rng.randrange(2 ** 31), rng.randrange(2 ** 62)])
    ops = []
    nops = 1 if big else rng.choice([1, 2, 3, 3, 4, 5, 6])
    for _ in range(nops):
        r = rng.random()
        if r < 0.5:
            ops.append(["iter", 0])
        elif r < 0.65:
            ops.append(["take", rng.randrange(1, 4)])
        elif r < 0.82:
            ops.append(["ff", rng.randrange(0, 4)])
        else:
            ops.append(["pickle", 0])
    if not any(o[0] in ("iter", "take") for o in ops):
        ops.append(["iter", 0])
    return {"kind": "file", "fields": fields, "batch_size": bs, "batches": batches, "seed": seed, "ops": ops}


def spec_hash(spec):
    return hashlib.sha1(json.dumps(spec, sort_keys=True).encode()).hexdigest()[:12]


def save_spec(spec, tmpdir, extra=None):
    torch = _torch()
    d = {f["name"]: mk_tensor(f) for f in spec["fields"]}
    if extra:
        d.update(extra)
    p = str(Path(tmpdir) / f"ds_{spec_hash(spec)}_{len(d)}.pt")
    torch.save(d, p)
    return p, d


def run_file_impl(spec, tmpdir):
    """run the history on the real Dataset; returns the observation dict"""
    from xformer import data as xdata
    path, stored = save_spec(spec, tmpdir)
    obs, dts = [], []
    with Recorder() as rec:
        seed_state = rec.seed_state(spec["seed"])
        ds = xdata.Dataset(path, batch_size=spec["batch_size"], batches=spec["batches"], seed=spec["seed"])
        for k, v in stored.items():
            dts.append((dt_code(v), dt_code(ds.data[k])))
        for kind, arg in spec["ops"]:
            out = []
            if kind == "iter":
                out = [dict_rows(b.data) for b in ds]
            elif kind == "take":
                it = iter(ds)
                for _ in range(arg):
                    try:
                        out.append(dict_rows(next(it).data))
                    except StopIteration:
                        break
                it.close()
            elif kind == "ff":
                ds.fastforward_epochs(arg)
            elif kind == "pickle":
                ds = pickle.loads(pickle.dumps(ds))
            obs.append(out)
    return {"seed_state": seed_state, "calls": rec.calls, "obs": obs, "dtypes": dts,
            "stored": [(f["name"], rows_of(stored[f["name"]])) for f in spec["fields"]]}


def oracle_table(calls):
    """first answer per (state, n); returns (table, inconsistent keys)"""
    tbl, bad = {}, []
    for before, n, perm, after, _ in calls:
        k = (before, n)
        if k in tbl:
            if tbl[k] != (perm, after):
                bad.append(k)
        else:
            tbl[k] = (perm, after)
    return tbl, bad


OPC = {"iter": 0, "take": 1, "ff": 2, "pickle": 3}

FILE_CTYPE = "oracle * Z * dataset * config * list zop * list (list batch) * list (Z * Z)"
FILE_CHECK = ("fun c => let '(t, s0, raw, cf, os, obs, dts) := c in "
              "list_eqb batches_eqb (run_file t s0 raw cf os) obs "
              "&& forallb (fun p => (loaded_dtype (fst p) =? snd p)) dts "
              "&& forallb (fun e => let '(_, n, p, _) := e in is_perm_b p n) t")
FILE_SHOW = "fun c => let '(t, s0, raw, cf, os, obs, dts) := c in run_file t s0 raw cf os"


def file_case_term(spec, o):
    tbl, _ = oracle_table(o["calls"])
    t = clist([f"({cz(k[0])}, {cz(k[1])}, {czlist(v[0])}, {cz(v[1])})" for k, v in tbl.items()])
    cf = f"(mkConfig [] {cz(spec['batch_size'])} {copt(None if spec['batches'] is None else cz(spec['batches']))} {cz(spec['seed'])})"
    ops = clist([f"({OPC[k]}, {cz(a)})" for k, a in spec["ops"]])
    obs = clist([c_batches(e) for e in o["obs"]])
    dts = clist([f"({a}, {b})" for a, b in o["dtypes"]])
    return f"({t}, {cz(o['seed_state'])}, {c_dict(o['stored'])}, {cf}, {ops}, {obs}, {dts})"


def oracle_file(spec, tmpdir):
    """the property's own statement, tested on the implementation alone (no model).
    Returns None or (clause, detail)."""
    torch = _torch()
    from xformer import data as xdata
    bs, batches = spec["batch_size"], spec["batches"]
    if bs < 1 or (batches is not None and batches < 0):
        return None
    n0 = spec["fields"][0]["shape"][0]
    rid = "__rowid"
    path, stored = save_spec(spec, tmpdir, extra={rid: torch.arange(n0)})
    n = n0 if batches is None else min(n0, batches * bs)

    def mk():
        return xdata.Dataset(path, batch_size=bs, batches=batches, seed=spec["seed"])

    def ep(ds):
        return [{k: v.clone() for k, v in b.data.items()} for b in ds]

    def same(e1, e2):
        return len(e1) == len(e2) and all(
            set(a) == set(b) and all(a[k].dtype == b[k].dtype and torch.equal(a[k], b[k]) for k in a) for a, b in zip(e1, e2))

    ds = mk()
    eps = [ep(ds) for _ in range(3)]
    for ei, e in enumerate(eps):
        ids = [int(x) for b in e for x in b[rid].tolist()]
        if sorted(ids) != list(range(n)):
            return ("each stored row exactly once per epoch (after truncation to batches*batch_size rows)",
                    {"epoch": ei, "row_ids_yielded": ids[:60], "expected_rows": n})
        sizes = [len(b[rid]) for b in e]
        want = [bs] * (n // bs) + ([n % bs] if n % bs else [])
        if sizes != want:
            return ("batches of the configured size, only the last one shorter", {"epoch": ei, "sizes": sizes[:40], "expected": want[:40]})
        for k, v in stored.items():
            ref = v.long() if v.dtype == torch.uint8 else v
            for b in e:
                if set(b) != set(stored):
                    return ("all fields of a row kept together", {"epoch": ei, "keys": sorted(b)})
            got = torch.cat([b[k] for b in e]) if e else ref[:0]
            if got.dtype != ref.dtype or not torch.equal(got, ref[torch.tensor(ids, dtype=torch.long)]):
                return ("all fields of a row kept together", {"epoch": ei, "field": k, "row_ids": ids[:40],
                                                               "yielded": rows_of(got)[:10]})
    ds2 = mk()
    for ei in range(2):
        if not same(ep(ds2), eps[ei]):
            return ("equal seeds give equal streams", {"epoch": ei})
    ds3 = mk()
    ds3.fastforward_epochs(2)
    if not same(ep(ds3), eps[2]):
        return ("fast-forwarding n epochs equals consuming n epochs", {"n": 2})
    ds4 = pickle.loads(pickle.dumps(ds))
    if not same(ep(ds4), eps[0]):
        return ("a pickled and restored dataset restarts the same stream", {"consumed_before_pickle": 3})
    return None  # (that consecutive epochs differ is not part of C20's statement)


# --------------------------------------------------------------------------
# replay buffer dataset
# --------------------------------------------------------------------------
def gen_rb_spec(rng, quick):
    nb = rng.choice([1, 2, 2, 3, 3, 4, 5])
    wmax = rng.choice([3, 6, 10, 18])
    extra_keys = rng.choice([["moves", "values"], ["moves", "values"], ["values"], ["moves", "values", "plies"], []])
    mw = rng.randrange(1, 5)
    widths = [rng.randrange(1, wmax + 1) for _ in range(nb)]
    if rng.random() < 0.15:
        widths = [widths[0]] * nb
    bufs = []
    for bi in range(nb):
        r = rng.randrange(1, 8 if quick else 14)
        if nb > 1 and bi > 0 and rng.random() < 0.06 and widths[bi] <= max(widths[:bi]):
            r = 0
        w = widths[bi]
        fields = {}
        fields["positions"] = {"name": "positions", "dtype": "int64", "shape": [r, w],
                               "values": [rng.randrange(0, 256) for _ in range(r * w)]}
        mv = []
        for _ in range(r):
            ln = rng.randrange(1, w + 1) if rng.random() < 0.8 else None
            mv += [(rng.random() < 0.5) if ln is None else (j < ln) for j in range(w)]
        fields["mask"] = {"name": "mask", "dtype": "bool", "shape": [r, w], "values": mv}
        if "moves" in extra_keys:
            fields["moves"] = gen_field(rng, "moves", r, dtype="float32", shape=[r, mw])
        if "values" in extra_keys:
            fields["values"] = gen_field(rng, "values", r, dtype="float32", shape=[r])
        if "plies" in extra_keys:
            fields["plies"] = gen_field(rng, "plies", r, dtype="int64", shape=[r])
        order = list(fields)
        rng.shuffle(order)
        fl = [fields[k] for k in order]
        if bi > 0 and rng.random() < 0.15:
            fl.append(gen_field(rng, "unused_extra", r, dtype="int64", shape=[r]))
        bufs.append(fl)
    total = sum(b[0]["shape"][0] for b in bufs)
    return {"kind": "replay", "buffers": bufs, "batch_size": pick_bs(rng, total)}


def run_rb_impl(spec):
    from tak.alphazero import data as rbdata
    bufs = [{f["name"]: mk_tensor(f) for f in b} for b in spec["buffers"]]
    with Recorder() as rec:
        ds = rbdata.ReplayBufferDataset(bufs, batch_size=spec["batch_size"], device="cpu")
        flat = ds.flat_replay_buffer
        n_before = len(rec.calls)
        batches = list(ds)
        calls = rec.calls[n_before:]
    return {"bufs": [dict_rows(b) for b in bufs], "flat": dict_rows(flat), "obs": [dict_rows(b.data) for b in batches],
            "calls": calls, "perm": calls[0][2] if calls else [],
            "flat_dtypes": {k: dt_code(v) for k, v in flat.items()}, "bufs_t": bufs, "flat_t": flat, "batches_t": batches}


RB_CTYPE = "list dataset * list Z * Z * dataset * list batch"
RB_CHECK = ("fun c => let '(bufs, perm, bs, flat, obs) := c in "
            "dict_eqb (cat_replay_buffer bufs) flat "
            "&& batches_eqb (rb_epoch bufs (map Z.to_nat perm) bs) obs "
            "&& is_perm_b perm (Z.of_nat (length (get_field POSITIONS flat)))")
RB_SHOW = ("fun c => let '(bufs, perm, bs, flat, obs) := c in (cat_replay_buffer bufs, rb_epoch bufs (map Z.to_nat perm) bs)")


def rb_case_term(spec, o):
    return (f"({clist([c_dict(b) for b in o['bufs']])}, {czlist(o['perm'])}, {cz(spec['batch_size'])}, "
            f"{c_dict(o['flat'])}, {c_batches(o['obs'])})")


def oracle_rb(spec, o=None):
    """property statement on the implementation alone: padding marked by the mask, content unchanged,
    row order = buffer order, each row once per epoch with its fields together"""
    torch = _torch()
    o = o or run_rb_impl(spec)
    bufs, flat, batches = o["bufs_t"], o["flat_t"], o["batches_t"]
    W = max(b["positions"].size(1) for b in bufs)
    off = 0
    if flat["positions"].dtype != torch.long or flat["mask"].dtype != torch.bool:
        return ("merged positions are long and the mask is bool", {"dtypes": o["flat_dtypes"]})
    for bi, b in enumerate(bufs):
        r, w = b["positions"].shape
        fp, fm = flat["positions"][off:off + r], flat["mask"][off:off + r]
        if fp.shape != (r, W) or fm.shape != (r, W):
            return ("merged rows have the widest width", {"buffer": bi, "shape": list(fp.shape)})
        if not torch.equal(fp[:, :w], b["positions"]) or not torch.equal(fm[:, :w], b["mask"]):
            return ("masked content unchanged, row order = buffer order", {"buffer": bi, "offset": off})
        if fm[:, w:].any() or (fp[:, w:] != 0).any():
            return ("padding is zero and marked by the mask (mask false)", {"buffer": bi, "width": w, "merged_width": W,
                                                                          "mask_rows": rows_of(fm)[:6]})
        for k in bufs[0]:
            if k not in ("positions", "mask") and not torch.equal(flat[k][off:off + r], b[k]):
                return ("other fields concatenated in buffer order", {"buffer": bi, "field": k})
        off += r
    if flat["positions"].size(0) != off:
        return ("row count of the merge", {"rows": flat["positions"].size(0), "expected": off})
    bs = spec["batch_size"]
    if bs >= 1:
        sizes = [len(b.data["positions"]) for b in batches]
        want = [bs] * (off // bs) + ([off % bs] if off % bs else [])
        if sizes != want:
            return ("batches of the configured size, only the last one shorter", {"sizes": sizes, "expected": want})
        perm = o["perm"]
        if len(o["calls"]) == 1 and is_perm(perm, off):
            idx = torch.tensor(perm, dtype=torch.long)
            for k, v in flat.items():
                got = torch.cat([b.data[k] for b in batches]) if batches else v[:0]
                if not torch.equal(got, v[idx]):
                    return ("each stored row exactly once per epoch, all fields of a row kept together", {"field": k, "perm": perm[:40]})
        else:
            # no single observed perm: every yielded (positions, mask, ...) row tuple must be a stored row tuple, as multisets
            def tuples(d):
                cols = [rows_of(d[k]) for k in sorted(d)]
                return sorted(map(repr, zip(*cols))) if cols and cols[0] else []
            got = {k: (torch.cat([b.data[k] for b in batches]) if batches else flat[k][:0]) for k in flat}
            if tuples(got) != tuples(flat):
                return ("each stored row exactly once per epoch, all fields of a row kept together", {"randperm_calls": len(o["calls"])})
    return None


# --------------------------------------------------------------------------
# several datasets on one file (sharing must not matter: `load` is a function of the path's contents)
# --------------------------------------------------------------------------
def gen_multi_spec(rng, quick):
    """2-3 Dataset objects with different (batches, batch_size, seed) on ONE saved file, created in a random
    order, their epochs interleaved, one of them pickled/restored in between; optionally the file is then
    rewritten with different contents and further datasets are created on the same path."""
    n = rng.choice([2, 3, 4, 5, 6, 8, 9, 12, 16, rng.randrange(2, 41)])
    names = rng.sample(NAMES, rng.choice([1, 1, 2]))

    def contents(rows):
        return [{"name": "rowid", "dtype": "int64", "shape": [rows], "values": list(range(rows))}] + \
               [gen_field(rng, nm, rows) for nm in names]

    nd = rng.choice([2, 2, 3])
    configs = []
    for i in range(nd):
        bs = pick_bs(rng, n)
        configs.append({"batch_size": bs, "batches": None, "seed": rng.choice([0, 7, 0x12345678, rng.randrange(2 ** 31)])})
    # at least one untruncated and one strictly truncating sibling
    t = rng.randrange(nd)
    u = (t + 1 + rng.randrange(nd - 1)) % nd
    bs = rng.randrange(1, max(2, n // 2 + 1))
    configs[t]["batch_size"] = bs
    configs[t]["batches"] = rng.randrange(0, max(1, (n - 1) // bs) + 1)
    configs[u]["batches"] = None
    for i in range(nd):
        if i not in (t, u) and rng.random() < 0.5:
            configs[i]["batches"] = rng.randrange(0, n // configs[i]["batch_size"] + 2)
    if rng.random() < 0.3:
        configs[u]["seed"] = configs[t]["seed"]

    def rand_op(i):
        r = rng.random()
        if r < 0.5:
            return ["iter", i, 0]
        if r < 0.62:
            return ["take", i, rng.randrange(1, 3)]
        if r < 0.77:
            return ["ff", i, rng.randrange(0, 3)]
        return ["pickle", i, 0]

    order = list(range(nd))
    rng.shuffle(order)
    script, alive = [], []
    for i in order:
        script.append(["new", i, 0])
        alive.append(i)
        for _ in range(rng.choice([0, 0, 1, 2])):
            script.append(rand_op(rng.choice(alive)))
    for _ in range(rng.randrange(3, 8)):
        script.append(rand_op(rng.choice(alive)))
    if not any(o[0] == "pickle" for o in script):
        script.append(["pickle", rng.choice(alive), 0])
    for i in alive:
        script.append(["iter", i, 0])
    spec = {"kind": "multi", "fields": contents(n), "configs": configs, "script": script, "fields2": None}
    if rng.random() < 0.5:
        n2 = rng.choice([n, n + 1, max(1, n - 1), rng.randrange(1, 20)])
        spec["fields2"] = contents(n2)
        script.append(["rewrite", 0, 0])
        fresh = []
        for _ in range(rng.choice([1, 1, 2])):
            j = len(configs)
            bs2 = pick_bs(rng, n2)
            configs.append({"batch_size": bs2, "batches": rng.choice([None, None, rng.randrange(0, n2 // bs2 + 2)]),
                            "seed": rng.choice([0, 7, rng.randrange(2 ** 31)])})
            script.append(["new", j, 0])
            fresh.append(j)
            script.append(["iter", j, 0])
        for _ in range(rng.randrange(0, 4)):
            # datasets created before the rewrite keep their in-memory data; they are not pickled afterwards
            i = rng.choice(alive + fresh)
            o = rand_op(i)
            if o[0] == "pickle" and i in alive:
                o = ["iter", i, 0]
            script.append(o)
    return spec


def run_multi_impl(spec, tmpdir):
    """run the script on real Dataset objects sharing one path; returns per-dataset observations"""
    torch = _torch()
    from xformer import data as xdata
    path = str(Path(tmpdir) / f"multi_{spec_hash(spec)}.pt")
    stored = {f["name"]: mk_tensor(f) for f in spec["fields"]}
    torch.save(stored, path)
    version = 0
    ds, per = {}, {}
    with Recorder() as rec:
        for kind, i, arg in spec["script"]:
            if kind == "rewrite":
                stored = {f["name"]: mk_tensor(f) for f in spec["fields2"]}
                torch.save(stored, path)
                version = 1
                continue
            if kind == "new":
                c = spec["configs"][i]
                seed_state = rec.seed_state(c["seed"])
                ds[i] = xdata.Dataset(path, batch_size=c["batch_size"], batches=c["batches"], seed=c["seed"])
                per[i] = {"version": version, "seed_state": seed_state, "ops": [], "obs": [],
                          "dtypes": [(dt_code(v), dt_code(ds[i].data[k])) for k, v in stored.items()],
                          "stored": [(k, rows_of(v)) for k, v in stored.items()],
                          "stored_t": {k: (v.long() if v.dtype == torch.uint8 else v) for k, v in stored.items()}}
                continue
            out = []
            if kind == "iter":
                out = [dict_rows(b.data) for b in ds[i]]
            elif kind == "take":
                it = iter(ds[i])
                for _ in range(arg):
                    try:
                        out.append(dict_rows(next(it).data))
                    except StopIteration:
                        break
                it.close()
            elif kind == "ff":
                ds[i].fastforward_epochs(arg)
            elif kind == "pickle":
                ds[i] = pickle.loads(pickle.dumps(ds[i]))
            per[i]["ops"].append([kind, arg])
            per[i]["obs"].append(out)
    return {"calls": rec.calls, "per": per}


def oracle_multi(spec, o):
    """row-id oracle on the implementation alone: every completely consumed epoch of every dataset yields each row
    of ITS OWN (truncated) view of the file exactly once, fields together, sizes as configured"""
    for i, d in sorted(o["per"].items()):
        c = spec["configs"][i]
        n0 = len(d["stored"][0][1])
        n = n0 if c["batches"] is None else min(n0, c["batches"] * c["batch_size"])
        bs = c["batch_size"]
        for (kind, _), e in zip(d["ops"], d["obs"]):
            if kind != "iter":
                continue
            cols = {}
            for b in e:
                for k, rows in b:
                    cols.setdefault(k, []).extend(rows)
            ids = [r[0] for r in cols.get("rowid", [])]
            if sorted(ids) != list(range(n)):
                return ("each stored row exactly once per epoch (several datasets on one file)",
                        {"dataset": i, "config": c, "file_version": d["version"], "row_ids_yielded": ids[:60], "expected_rows": n})
            sizes = [len(b[0][1]) for b in e]
            if sizes != [bs] * (n // bs) + ([n % bs] if n % bs else []):
                return ("batches of the configured size, only the last one shorter", {"dataset": i, "sizes": sizes[:40]})
            for k, rows in d["stored"]:
                if cols.get(k, []) != [rows[j] for j in ids]:
                    return ("all fields of a row kept together (several datasets on one file)", {"dataset": i, "field": k})
    return None


def multi_cases(spec, o):
    """one Coq case (the file-dataset case type) per dataset: ITS config, ITS history, the UNTRUNCATED contents
    the file had when it was constructed; the randperm table is shared (keyed by generator state)"""
    out = []
    h = spec_hash(spec)
    for i, d in sorted(o["per"].items()):
        c = spec["configs"][i]
        sub = {"batch_size": c["batch_size"], "batches": c["batches"], "seed": c["seed"], "ops": d["ops"]}
        oo = {"calls": o["calls"], "seed_state": d["seed_state"], "stored": d["stored"], "obs": d["obs"], "dtypes": d["dtypes"]}
        meta = {"kind": "multi", "hash": f"{h}-{i}", "input": spec, "dataset": i, "config": c, "file_version": d["version"],
                "history": d["ops"], "impl_batches": [e[:4] for e in d["obs"]][:8]}
        out.append((file_case_term(sub, oo), meta))
    return out


def _pinned_multi():
    f = [{"name": "rowid", "dtype": "int64", "shape": [6], "values": list(range(6))},
         {"name": "inputs", "dtype": "uint8", "shape": [6, 2], "values": list(range(100, 112))}]
    f2 = [{"name": "rowid", "dtype": "int64", "shape": [4], "values": list(range(4))},
          {"name": "inputs", "dtype": "uint8", "shape": [4, 2], "values": list(range(200, 208))}]
    trunc = {"batch_size": 2, "batches": 1, "seed": 7}
    full = {"batch_size": 4, "batches": None, "seed": 7}
    out = []
    for order in ((0, 1), (1, 0)):
        out.append({"kind": "multi", "fields": f, "fields2": None, "configs": [trunc, full],
                    "script": [["new", order[0], 0], ["new", order[1], 0], ["iter", 0, 0], ["iter", 1, 0], ["pickle", 1, 0],
                               ["iter", 1, 0], ["iter", 0, 0]]})
    out.append({"kind": "multi", "fields": f, "fields2": f2, "configs": [full, {"batch_size": 3, "batches": None, "seed": 1}],
                "script": [["new", 0, 0], ["iter", 0, 0], ["rewrite", 0, 0], ["new", 1, 0], ["iter", 1, 0], ["iter", 0, 0]]})
    return out


# --------------------------------------------------------------------------
# interleaved iterators of ONE dataset object (zip(ds, ds), an epoch interrupted by another one, nested epochs)
# --------------------------------------------------------------------------
def _inter_scripts(rng, nb):
    """scripts over iterator ids 0..2: ["start", j, 0] = iter(ds); ["next", j, k] = up to k batches; ["drain", j, 0].
    A generator draws its permutation at its FIRST next, so the draw order is the order of first nexts."""
    i = rng.randrange(1, nb) if nb >= 2 else 1
    j = rng.randrange(1, nb) if nb >= 2 else 1
    pat = rng.choice(["zip", "zip", "interrupt", "interrupt", "interrupt", "nested3", "nested3", "random", "sequential", "abandon"])
    if pat == "zip":            # for (x, y) in zip(ds, ds)
        sc = [["start", 0, 0], ["start", 1, 0]]
        for _ in range(nb + 1):
            sc += [["next", 0, 1], ["next", 1, 1]]
    elif pat == "interrupt":    # an outer epoch interrupted after i batches by a complete inner epoch, then resumed
        sc = [["start", 0, 0], ["next", 0, i], ["start", 1, 0], ["drain", 1, 0], ["drain", 0, 0]]
    elif pat == "nested3":
        sc = [["start", 0, 0], ["next", 0, i], ["start", 1, 0], ["next", 1, j], ["start", 2, 0], ["drain", 2, 0],
              ["drain", 1, 0], ["drain", 0, 0]]
    elif pat == "random":
        k = rng.choice([2, 3])
        sc = [["start", x, 0] for x in range(k)]
        for _ in range(rng.randrange(2, 3 * nb + 3)):
            sc.append(["next", rng.randrange(k), rng.randrange(1, 3)])
        order = list(range(k))
        rng.shuffle(order)
        sc += [["drain", x, 0] for x in order]
    elif pat == "sequential":
        sc = [["start", 0, 0], ["drain", 0, 0], ["start", 1, 0], ["drain", 1, 0]]
    else:                       # abandoned mid-epoch, then a fresh epoch
        sc = [["start", 0, 0], ["next", 0, i], ["start", 1, 0], ["drain", 1, 0]]
    return pat, sc


def gen_inter_spec(rng, target):
    if target == "file":
        n = rng.choice([1, 2, 3, 4, 5, 6, 7, 8, 9, 12, 16, rng.randrange(1, 25)])
        fields = [{"name": "rowid", "dtype": "int64", "shape": [n], "values": list(range(n))}] + \
                 [gen_field(rng, nm, n) for nm in rng.sample(NAMES, rng.choice([1, 1, 2]))]
        bs = rng.randrange(1, max(2, n // 2 + 1)) if rng.random() < 0.8 else pick_bs(rng, n)
        batches = None if rng.random() < 0.7 else rng.randrange(1, n // bs + 2)
        rows = n if batches is None else min(n, batches * bs)
        nb = (rows + bs - 1) // bs
        pat, sc = _inter_scripts(rng, nb)
        return {"kind": "inter", "target": "file", "pattern": pat, "fields": fields, "batch_size": bs, "batches": batches,
                "seed": rng.choice([0, 7, 0x12345678, rng.randrange(2 ** 31)]), "script": sc}
    base = gen_rb_spec(rng, True)
    rid = 0
    for b in base["buffers"]:
        r = b[0]["shape"][0]
        b[:] = [f for f in b if f["name"] != "unused_extra"]
        b.append({"name": "rowid", "dtype": "int64", "shape": [r], "values": list(range(rid, rid + r))})
        rid += r
    bs = rng.randrange(1, max(2, rid // 2 + 1)) if rng.random() < 0.8 else pick_bs(rng, rid)
    nb = (rid + bs - 1) // bs
    pat, sc = _inter_scripts(rng, nb)
    return {"kind": "inter", "target": "replay", "pattern": pat, "buffers": base["buffers"], "batch_size": bs, "script": sc}


def _pinned_inter():
    f = [{"name": "rowid", "dtype": "int64", "shape": [6], "values": list(range(6))},
         {"name": "squares", "dtype": "int64", "shape": [6], "values": [i * i for i in range(6)]}]
    b1 = [{"name": "positions", "dtype": "int64", "shape": [3, 2], "values": [1, 2, 3, 4, 5, 6]},
          {"name": "mask", "dtype": "bool", "shape": [3, 2], "values": [True] * 6},
          {"name": "rowid", "dtype": "int64", "shape": [3], "values": [0, 1, 2]}]
    b2 = [{"name": "positions", "dtype": "int64", "shape": [3, 3], "values": list(range(10, 19))},
          {"name": "mask", "dtype": "bool", "shape": [3, 3], "values": [True, True, False] * 3},
          {"name": "rowid", "dtype": "int64", "shape": [3], "values": [3, 4, 5]}]
    zipsc = [["start", 0, 0], ["start", 1, 0]] + [["next", 0, 1], ["next", 1, 1]] * 4
    inter = [["start", 0, 0], ["next", 0, 1], ["start", 1, 0], ["drain", 1, 0], ["drain", 0, 0]]
    nest = [["start", 0, 0], ["next", 0, 1], ["start", 1, 0], ["next", 1, 2], ["start", 2, 0], ["drain", 2, 0], ["drain", 1, 0], ["drain", 0, 0]]
    out = []
    for pat, sc in (("zip", zipsc), ("interrupt", inter), ("nested3", nest)):
        out.append({"kind": "inter", "target": "file", "pattern": pat, "fields": f, "batch_size": 2, "batches": None, "seed": 7, "script": sc})
        out.append({"kind": "inter", "target": "replay", "pattern": pat, "buffers": [b1, b2], "batch_size": 2, "script": sc})
    return out


def run_inter_impl(spec, tmpdir):
    """several live iterators of one dataset object; returns, per iterator, the batches it yielded (in its own order),
    whether it was exhausted, and the order in which the iterators drew their permutation (first next)"""
    if spec["target"] == "file":
        from xformer import data as xdata
        path, stored_t = save_spec(spec, tmpdir)
    else:
        from tak.alphazero import data as rbdata
        bufs = [{f["name"]: mk_tensor(f) for f in b} for b in spec["buffers"]]
    its, out, done, draw = {}, {}, {}, []
    with Recorder() as rec:
        if spec["target"] == "file":
            seed_state = rec.seed_state(spec["seed"])
            ds = xdata.Dataset(path, batch_size=spec["batch_size"], batches=spec["batches"], seed=spec["seed"])
            dts = [(dt_code(v), dt_code(ds.data[k])) for k, v in stored_t.items()]
            stored = [(k, rows_of(v)) for k, v in stored_t.items()]
            view = [(k, rows_of(v)) for k, v in ds.data.items()]
        else:
            seed_state, dts = None, []
            ds = rbdata.ReplayBufferDataset(bufs, batch_size=spec["batch_size"], device="cpu")
            stored = None
            view = dict_rows(ds.flat_replay_buffer)
        n0 = len(rec.calls)
        for kind, j, k in spec["script"]:
            if kind == "start":
                its[j], out[j], done[j] = iter(ds), [], False
                continue
            todo = k if kind == "next" else 10 ** 9
            while todo > 0 and not done[j]:
                if j not in draw:
                    draw.append(j)
                try:
                    b = next(its[j])
                except StopIteration:
                    done[j] = True
                    break
                out[j].append(dict_rows(b.data))
                todo -= 1
        calls = rec.calls[n0:]
    return {"out": out, "done": done, "draw": draw, "calls": calls, "all_calls": rec.calls, "seed_state": seed_state, "dtypes": dts,
            "stored": stored, "view": view, "bufs": None if spec["target"] == "file" else [dict_rows(b) for b in bufs]}


def oracle_inter(spec, o):
    """the property's clause per ITERATOR, on the implementation alone: an exhausted iterator has yielded every row of the
    dataset exactly once, fields aligned, batches of the configured size; an abandoned one no row twice"""
    view = dict(o["view"])
    n = len(view["rowid"])
    bs = spec["batch_size"]
    for j in o["draw"]:
        cols = {}
        for b in o["out"][j]:
            for k, rows in b:
                cols.setdefault(k, []).extend(rows)
        ids = [r[0] for r in cols.get("rowid", [])]
        det = {"iterator": j, "pattern": spec["pattern"], "row_ids_yielded": ids[:60], "rows": n, "exhausted": o["done"][j]}
        if o["done"][j] and sorted(ids) != list(range(n)):
            return ("each stored row exactly once per epoch, for every live iterator of one dataset (interleaved iterators)", det)
        if len(set(ids)) != len(ids) or any(i < 0 or i >= n for i in ids):
            return ("each stored row at most once in a partially consumed epoch (interleaved iterators)", det)
        for k, rows in view.items():
            if cols.get(k, []) != [rows[i] for i in ids]:
                return ("all fields of a row kept together (interleaved iterators)", dict(det, field=k))
        sizes = [len(b[0][1]) for b in o["out"][j]]
        want = [bs] * (n // bs) + ([n % bs] if n % bs else [])
        if sizes != want[:len(sizes)] or (o["done"][j] and len(sizes) != len(want)):
            return ("batches of the configured size, only the last one shorter (interleaved iterators)", dict(det, sizes=sizes[:40]))
    return None


RBI_CTYPE = "list dataset * list Z * Z * bool * list batch"
RBI_CHECK = ("fun c => let '(bufs, perm, bs, full, obs) := c in "
             "let e := rb_epoch bufs (map Z.to_nat perm) bs in "
             "batches_eqb (firstn (length obs) e) obs && (negb full || Nat.eqb (length obs) (length e)) "
             "&& is_perm_b perm (Z.of_nat (length (get_field POSITIONS (cat_replay_buffer bufs))))")
RBI_SHOW = "fun c => let '(bufs, perm, bs, full, obs) := c in rb_epoch bufs (map Z.to_nat perm) bs"


def inter_cases(spec, o):
    """file target: ONE case of the file-dataset type - the iterators in draw order are the model's consecutive epochs
    (`iter` when exhausted, `take k` otherwise), each compared with what THAT iterator yielded.  replay target: one case per
    iterator - its observed permutation (the k-th randperm call belongs to the k-th iterator that started) and its batches."""
    h = spec_hash(spec)
    if spec["target"] == "file":
        ops = [["iter", 0] if o["done"][j] else ["take", len(o["out"][j])] for j in o["draw"]]
        sub = {"batch_size": spec["batch_size"], "batches": spec["batches"], "seed": spec["seed"], "ops": ops}
        oo = {"calls": o["all_calls"], "seed_state": o["seed_state"], "stored": o["stored"], "obs": [o["out"][j] for j in o["draw"]],
              "dtypes": o["dtypes"]}
        meta = {"kind": "inter", "hash": h, "input": spec, "draw_order": o["draw"], "model_ops": ops,
                "impl_batches": {str(j): o["out"][j][:6] for j in o["draw"]}}
        return "file", [(file_case_term(sub, oo), meta)]
    out = []
    for pos, j in enumerate(o["draw"]):
        perm = o["calls"][pos][2] if pos < len(o["calls"]) else []
        term = (f"({clist([c_dict(b) for b in o['bufs']])}, {czlist(perm)}, {cz(spec['batch_size'])}, "
                f"{core.cbool(o['done'][j])}, {c_batches(o['out'][j])})")
        out.append((term, {"kind": "inter", "hash": f"{h}-{j}", "input": spec, "iterator": j, "draw_position": pos, "perm": perm[:80],
                           "randperm_calls": len(o["calls"]), "impl_batches": o["out"][j][:6]}))
    return "replay", out


# --------------------------------------------------------------------------
# driver
# --------------------------------------------------------------------------
def _size_of(spec):
    if spec["kind"] == "inter":
        fl = spec["fields"] if spec["target"] == "file" else [f for b in spec["buffers"] for f in b]
        return sum(len(f["values"]) for f in fl) * 3
    if spec["kind"] == "multi":
        return sum(len(f["values"]) for f in spec["fields"] + (spec["fields2"] or [])) * (1 + len(spec["script"]))
    if spec["kind"] == "file":
        return sum(len(f["values"]) for f in spec["fields"]) * (1 + len(spec["ops"]))
    return sum(len(f["values"]) for b in spec["buffers"] for f in b)


def _nontrivial_file(spec, o):
    n = spec["fields"][0]["shape"][0]
    return n >= 2 and any(len(e) >= 1 for e in o["obs"]) and spec["batch_size"] >= 1


def _setup():
    core.setup_impl(ext=True, shims=True)
    torch = _torch()
    torch.set_num_threads(1)


def _corpus_specs():
    out = []
    d = core.VERIF / "corpus"
    for f in sorted(d.glob("C20-*.json")):
        try:
            out.append(json.loads(f.read_text())["input"])
        except Exception:  # noqa
            pass
    return out


def _pinned_specs():
    """the configurations of test_data.py (16 rows, ints/squares, batch sizes 2, 4, 6) and the edge cases"""
    out = []
    for bs, ops in ((2, [["iter", 0], ["iter", 0]]), (4, [["iter", 0]]), (6, [["iter", 0], ["iter", 0]]),
                    (2, [["iter", 0], ["iter", 0], ["iter", 0], ["iter", 0], ["iter", 0]]),
                    (2, [["ff", 4], ["iter", 0]]), (2, [["iter", 0], ["pickle", 0], ["ff", 1], ["iter", 0]]),
                    (2, [["take", 1], ["pickle", 0], ["iter", 0]])):
        out.append({"kind": "file", "fields": [
            {"name": "ints", "dtype": "int64", "shape": [16], "values": list(range(16))},
            {"name": "squares", "dtype": "int64", "shape": [16], "values": [i * i for i in range(16)]}],
            "batch_size": bs, "batches": None, "seed": 0x12345678, "ops": ops})
    for n, bs, batches in ((0, 1, None), (0, 3, 2), (1, 1, None), (1, 5, 0), (5, 2, 1), (5, 2, 2), (5, 2, 3), (5, 2, 7),
                           (6, 3, None), (7, 7, None), (7, 8, 1)):
        out.append({"kind": "file", "fields": [
            {"name": "inputs", "dtype": "uint8", "shape": [n, 3], "values": [(7 * i) % 256 for i in range(3 * n)]},
            {"name": "ids", "dtype": "int64", "shape": [n], "values": list(range(n))}],
            "batch_size": bs, "batches": batches, "seed": 7, "ops": [["iter", 0], ["ff", 1], ["take", 1], ["pickle", 0], ["iter", 0]]})
    return out


def _file_meta(spec, o):
    return {"kind": "file", "hash": spec_hash(spec), "rows": spec["fields"][0]["shape"][0], "input": spec,
            "randperm_calls": [[c[0], c[1], c[2][:64], c[3], c[4]] for c in o["calls"][:12]],
            "seed_state": o["seed_state"], "impl_batches": [e[:3] for e in o["obs"]][:6] if _size_of(spec) < 4000 else "omitted (large)"}


def _report(run, cs, meta, clause, extra=None, model_disagrees=True):
    if meta not in cs.metas:        # a large history lives in the one-case-per-file family
        run.violation(f"{meta['kind']}-{meta['hash']}", {"clause": clause, "model_disagrees": model_disagrees, "input": meta["input"],
                                                          "model_view": "omitted (large case)", "oracle_detail": extra})
        return
    term = cs.terms[cs.metas.index(meta)]
    view = cs.model_view(term) if _size_of(meta["input"]) < 3000 else "omitted (large case)"
    rp = {"clause": clause, "model_disagrees": model_disagrees, "input": meta["input"], "observed": {k: v for k, v in meta.items() if k != "input"},
          "model_view": view}
    if extra:
        rp["oracle_detail"] = extra
    run.violation(f"{meta['kind']}-{meta['hash']}", rp)


MAX_REPORT = 6
BIG_TERM = 60_000      # bytes of Coq literal above which a history gets a cases file of its own


def _size_shards(cs, target=120_000):
    """choose the shard length so that one cases file carries about `target` bytes of literals"""
    total = sum(len(t) for t in cs.terms) or 1
    cs.shard = max(3, min(80, int(len(cs) * target / total)))


def correspondence(run):
    _setup()
    rng = run.rng
    tmpdir = tempfile.mkdtemp(prefix="verif_c20_")
    try:
        _correspondence(run, rng, tmpdir)
    finally:
        shutil.rmtree(tmpdir, ignore_errors=True)


def _correspondence(run, rng, tmpdir):
    quick = run.quick
    n_file = 450 if quick else 6000
    n_rb = 150 if quick else 1500
    # ---------------- file dataset
    specs = _corpus_specs()
    specs = [s for s in specs if s.get("kind") == "file"] + _pinned_specs()
    specs += [gen_file_spec(rng, quick) for _ in range(n_file)]
    cs = core.Cases(ID, "file", HEADER, FILE_CTYPE, FILE_CHECK, show=FILE_SHOW, shard=28)
    cbig = core.Cases(ID, "filebig", HEADER, FILE_CTYPE, FILE_CHECK, show=FILE_SHOW, shard=1)   # one coqc per large history
    seen, nontriv = set(), 0
    dist = {"rows": {}, "fields": {}, "ops": {}, "truncated": 0, "bs_divides": 0, "bs_not_divides": 0, "uint8_fields": 0,
            "multi_dim_fields": 0, "epochs_consumed": 0, "randperm_calls": 0}
    assumption_bad, oracle_hits, crashes = [], [], []
    samples = []
    order = sorted(range(len(specs)), key=lambda i: _size_of(specs[i]))
    # balance the shards: interleave big and small cases
    half = len(order) // 2
    inter = []
    for i in range(half):
        inter += [order[i], order[-1 - i]]
    if len(order) % 2:
        inter.append(order[half])
    for i in inter:
        spec = specs[i]
        try:
            o = run_file_impl(spec, tmpdir)
        except Exception as e:  # noqa
            crashes.append((spec, repr(e)))
            continue
        meta = _file_meta(spec, o)
        term = file_case_term(spec, o)
        (cbig if len(term) > BIG_TERM else cs).add(term, meta)
        h = meta["hash"]
        n = meta["rows"]
        bs = spec["batch_size"]
        if h not in seen:
            seen.add(h)
            nontriv += _nontrivial_file(spec, o)
        b = "0" if n == 0 else "1-8" if n <= 8 else "9-60" if n <= 60 else "61-200" if n <= 200 else "201-5000"
        dist["rows"][b] = dist["rows"].get(b, 0) + 1
        dist["fields"][str(len(spec["fields"]))] = dist["fields"].get(str(len(spec["fields"])), 0) + 1
        for k, _ in spec["ops"]:
            dist["ops"][k] = dist["ops"].get(k, 0) + 1
        dist["truncated"] += spec["batches"] is not None
        dist["bs_divides" if n % bs == 0 else "bs_not_divides"] += 1
        dist["uint8_fields"] += sum(f["dtype"] == "uint8" for f in spec["fields"])
        dist["multi_dim_fields"] += sum(len(f["shape"]) > 1 for f in spec["fields"])
        dist["epochs_consumed"] += sum(1 for e in o["obs"] if e)
        dist["randperm_calls"] += len(o["calls"])
        # assumed behaviour of torch.randperm: permutation, function of the generator state
        _, incons = oracle_table(o["calls"])
        for c in o["calls"]:
            if not is_perm(c[2], c[1]):
                assumption_bad.append({"input": spec, "call": [c[0], c[1], c[2][:50]], "why": "not a permutation of 0..n-1"})
        for k in incons:
            assumption_bad.append({"input": spec, "key": list(k), "why": "two different answers for one generator state"})
        # the property's own statement on the implementation (equal seeds, fast-forward, pickle, exactly-once)
        try:
            hit = oracle_file(spec, tmpdir)
        except Exception as e:  # noqa
            hit = ("no error escapes list(ds)/fastforward/pickle", {"exception": repr(e)})
        if hit:
            oracle_hits.append((meta, hit))
        if len(samples) < 3 and 3 <= n <= 6 and len(spec["fields"]) == 2:
            samples.append({"input": spec, "impl_batches": o["obs"], "randperm": [c[:4] for c in o["calls"]]})
    _size_shards(cs)
    failing, shard_fail, nshards = cs.run()
    if len(cbig):
        f2, sf2, n2 = cbig.run()
        failing, shard_fail, nshards = failing + f2, shard_fail + sf2, nshards + n2
    n_hist = len(cs) + len(cbig)
    run.oblige(f"correspondence:file-dataset ({nshards} shards, {n_hist} histories)", not shard_fail, str(shard_fail)[:1500])
    run.oblige("assumed: every observed torch.randperm answer is a permutation and a function of the generator state",
               not assumption_bad, json.dumps(assumption_bad[:2])[:1500])
    run.oblige("impl-oracle:file-dataset (exactly once, batch sizes, alignment, equal seeds, fast-forward, pickle)", not oracle_hits,
               "; ".join(h[1][0] for h in oracle_hits[:5]))
    run.oblige("correspondence:file-dataset no exception escapes construction / iteration / pickling", not crashes,
               "; ".join(c[1] for c in crashes[:3]))
    run.count(n_hist, nontriv,
              "one evaluation = one usage history (construct, then iter / take k / fastforward n / pickle round-trip) of xformer.data.Dataset "
              "on a generated file; every yielded batch (all fields, nested lists), the dtypes after load and every observed randperm answer "
              "compared with / validated by the model inside Coq; distinct by hash of (fields, batch_size, batches, seed, history); "
              "non-trivial = at least 2 rows, batch_size >= 1 and at least one batch yielded",
              samples, dist, label="file-dataset")
    reported = 0
    hits_by_hash = {m["hash"]: h for m, h in oracle_hits}
    for meta in sorted(failing, key=lambda m: _size_of(m["input"])):
        if reported >= MAX_REPORT:
            break
        hit = hits_by_hash.get(meta["hash"])
        _report(run, cs, meta, hit[0] if hit else "yielded batches differ from chunks of the permuted rows (model/Dataset.v run_file)",
                hit[1] if hit else None)
        reported += 1
    failing_h = {m["hash"] for m in failing}
    for meta, hit in sorted(oracle_hits, key=lambda mh: _size_of(mh[0]["input"])):
        if reported >= MAX_REPORT:
            break
        if meta["hash"] not in failing_h:
            _report(run, cs, meta, hit[0], hit[1], model_disagrees=False)
            reported += 1
    for spec, err in crashes[:2]:
        run.violation(f"file-crash-{spec_hash(spec)}", {"clause": "no exception", "input": spec, "exception": err})
    for a in assumption_bad[:2]:
        run.violation(f"randperm-{spec_hash(a['input'])}", {"clause": "assumed behaviour of torch.randperm", **a})

    # ---------------- replay buffer dataset
    rspecs = [s for s in _corpus_specs() if s.get("kind") == "replay"]
    rspecs += [gen_rb_spec(rng, quick) for _ in range(n_rb)]
    cr = core.Cases(ID, "replay", HEADER, RB_CTYPE, RB_CHECK, show=RB_SHOW, shard=(20 if quick else 100))
    rseen, rnon = set(), 0
    rdist = {"buffers": {}, "unequal_widths": 0, "equal_widths": 0, "empty_buffer": 0, "rows_total": 0, "bs_divides": 0, "bs_not_divides": 0}
    rhits, rcrash, rass, rsamples = [], [], [], []
    for spec in rspecs:
        try:
            o = run_rb_impl(spec)
        except Exception as e:  # noqa
            rcrash.append((spec, repr(e)))
            continue
        tot = sum(b[0]["shape"][0] for b in spec["buffers"])
        widths = [b[[f["name"] for f in b].index("positions")]["shape"][1] for b in spec["buffers"]]
        meta = {"kind": "replay", "hash": spec_hash(spec), "input": spec, "widths": widths, "perm": o["perm"][:80],
                "randperm_calls": len(o["calls"]), "impl_flat": o["flat"] if tot <= 12 else "omitted",
                "impl_batches": o["obs"][:3] if tot <= 12 else "omitted"}
        cr.add(rb_case_term(spec, o), meta)
        if meta["hash"] not in rseen:
            rseen.add(meta["hash"])
            rnon += len(set(widths)) > 1
        rdist["buffers"][str(len(widths))] = rdist["buffers"].get(str(len(widths)), 0) + 1
        rdist["unequal_widths" if len(set(widths)) > 1 else "equal_widths"] += 1
        rdist["empty_buffer"] += any(b[0]["shape"][0] == 0 for b in spec["buffers"])
        rdist["rows_total"] += tot
        rdist["bs_divides" if tot % spec["batch_size"] == 0 else "bs_not_divides"] += 1
        for c in o["calls"]:
            if not is_perm(c[2], c[1]):
                rass.append({"input": spec, "call": [c[0], c[1], c[2][:50]], "why": "not a permutation"})
        try:
            hit = oracle_rb(spec, o)
        except Exception as e:  # noqa
            hit = ("no error escapes", {"exception": repr(e)})
        if hit:
            rhits.append((meta, hit))
        if len(rsamples) < 2 and tot <= 5 and len(set(widths)) > 1:
            rsamples.append({"input": spec, "impl_flat": o["flat"], "perm": o["perm"], "impl_batches": o["obs"]})
    _size_shards(cr)
    rfail, rshard_fail, rn = cr.run()
    run.oblige(f"correspondence:replay-buffer ({rn} shards, {len(cr)} windows)", not rshard_fail, str(rshard_fail)[:1500])
    run.oblige("assumed: torch.randperm(npos) answers are permutations (replay buffer)", not rass, json.dumps(rass[:2])[:1000])
    run.oblige("impl-oracle:replay-buffer (padding zero and masked false, content and order kept, exactly once)", not rhits,
               "; ".join(h[1][0] for h in rhits[:5]))
    run.oblige("correspondence:replay-buffer no exception escapes", not rcrash, "; ".join(c[1] for c in rcrash[:3]))
    run.count(len(cr), rnon,
              "one evaluation = one ReplayBufferDataset over a window of 1-5 buffers (positions/mask of per-buffer width, moves, values, "
              "optional extra keys, shuffled key order): flat_replay_buffer and one epoch of batches compared with cat_replay_buffer / rb_epoch "
              "inside Coq given the observed randperm answer; non-trivial = buffers of unequal width", rsamples, rdist, label="replay-buffer")
    reported = 0
    rh = {m["hash"]: h for m, h in rhits}
    for meta in sorted(rfail, key=lambda m: _size_of(m["input"])):
        if reported >= MAX_REPORT:
            break
        hit = rh.get(meta["hash"])
        _report(run, cr, meta, hit[0] if hit else "merged buffer / batches differ from model/Dataset.v cat_replay_buffer, rb_epoch",
                hit[1] if hit else None)
        reported += 1
    rfh = {m["hash"] for m in rfail}
    for meta, hit in sorted(rhits, key=lambda mh: _size_of(mh[0]["input"])):
        if reported >= MAX_REPORT:
            break
        if meta["hash"] not in rfh:
            _report(run, cr, meta, hit[0], hit[1], model_disagrees=False)
            reported += 1
    for spec, err in rcrash[:2]:
        run.violation(f"replay-crash-{spec_hash(spec)}", {"clause": "no exception", "input": spec, "exception": err})

    # ---------------- several datasets on one file
    n_multi = 110 if quick else 1200
    mspecs = [s for s in _corpus_specs() if s.get("kind") == "multi"] + _pinned_multi()
    mspecs += [gen_multi_spec(rng, quick) for _ in range(n_multi)]
    cm = core.Cases(ID, "multi", HEADER, FILE_CTYPE, FILE_CHECK, show=FILE_SHOW, shard=30)
    mhits, mcrash, mass, msamples = [], [], [], []
    mdist = {"datasets": {}, "with_rewrite": 0, "pickles": 0, "epochs_consumed": 0, "truncated_created_first": 0,
             "untruncated_created_first": 0}
    mseen = set()
    for spec in mspecs:
        try:
            o = run_multi_impl(spec, tmpdir)
        except Exception as e:  # noqa
            mcrash.append((spec, repr(e)))
            continue
        for term, meta in multi_cases(spec, o):
            cm.add(term, meta)
        mseen.add(spec_hash(spec))
        nd = str(len(o["per"]))
        mdist["datasets"][nd] = mdist["datasets"].get(nd, 0) + 1
        mdist["with_rewrite"] += spec["fields2"] is not None
        mdist["pickles"] += sum(1 for st in spec["script"] if st[0] == "pickle")
        mdist["epochs_consumed"] += sum(1 for d in o["per"].values() for e in d["obs"] if e)
        first = next(st[1] for st in spec["script"] if st[0] == "new")
        mdist["truncated_created_first" if spec["configs"][first]["batches"] is not None else "untruncated_created_first"] += 1
        _, incons = oracle_table(o["calls"])
        for c in o["calls"]:
            if not is_perm(c[2], c[1]):
                mass.append({"input": spec, "call": [c[0], c[1], c[2][:50]], "why": "not a permutation"})
        for k in incons:
            mass.append({"input": spec, "key": list(k), "why": "two different answers for one generator state"})
        hit = oracle_multi(spec, o)
        if hit:
            mhits.append((spec, hit))
        if len(msamples) < 1 and len(spec["fields"][0]["values"]) <= 4:
            msamples.append({"input": spec, "impl": {str(i): d["obs"] for i, d in o["per"].items()}})
    _size_shards(cm)
    mfail, mshard_fail, mn = cm.run()
    run.oblige(f"correspondence:several-datasets-on-one-file ({mn} shards, {len(cm)} dataset histories in {len(mseen)} scripts)",
               not mshard_fail, str(mshard_fail)[:1500])
    run.oblige("assumed: randperm answers are permutations and functions of the generator state (shared-file scripts)", not mass,
               json.dumps(mass[:2])[:1000])
    run.oblige("impl-oracle:several-datasets-on-one-file (row-id: each dataset yields its own view exactly once)", not mhits,
               "; ".join(h[1][0] for h in mhits[:5]))
    run.oblige("correspondence:several-datasets-on-one-file no exception escapes", not mcrash, "; ".join(c[1] for c in mcrash[:3]))
    run.count(len(cm), len(mseen),
              "one evaluation = the complete history of one of 2-5 Dataset objects that share ONE path (different batches / batch_size / seed, "
              "both creation orders, epochs interleaved, pickle round-trips in between, optionally the file rewritten and new datasets created "
              "on it): compared inside Coq with the model's prediction for that dataset's own config on the untruncated contents the file had "
              "at its construction; non-trivial = distinct scripts (each has a truncating and an untruncated sibling)",
              msamples, mdist, label="several-datasets-on-one-file")
    reported = 0
    mh = {spec_hash(sp): h for sp, h in mhits}
    for meta in sorted(mfail, key=lambda m: _size_of(m["input"])):
        if reported >= MAX_REPORT:
            break
        hit = mh.get(meta["hash"].rsplit("-", 1)[0])
        _report(run, cm, meta, hit[0] if hit else "a dataset's batches differ from the model's prediction for its own config on the "
                "file's contents (several datasets on one file)", hit[1] if hit else None)
        reported += 1
    mfh = {m["hash"].rsplit("-", 1)[0] for m in mfail}
    for spec, hit in sorted(mhits, key=lambda sh: _size_of(sh[0])):
        if reported >= MAX_REPORT:
            break
        if spec_hash(spec) not in mfh:
            run.violation(f"multi-{spec_hash(spec)}", {"clause": hit[0], "model_disagrees": False, "input": spec, "oracle_detail": hit[1]})
            reported += 1
    for spec, err in mcrash[:2]:
        run.violation(f"multi-crash-{spec_hash(spec)}", {"clause": "no exception", "input": spec, "exception": err})

    # ---------------- interleaved iterators of one dataset object
    n_inter = (70, 90) if quick else (700, 900)
    ispecs = [s for s in _corpus_specs() if s.get("kind") == "inter"] + _pinned_inter()
    ispecs += [gen_inter_spec(rng, "file") for _ in range(n_inter[0])] + [gen_inter_spec(rng, "replay") for _ in range(n_inter[1])]
    cif = core.Cases(ID, "interfile", HEADER, FILE_CTYPE, FILE_CHECK, show=FILE_SHOW, shard=30)
    cir = core.Cases(ID, "interreplay", HEADER, RBI_CTYPE, RBI_CHECK, show=RBI_SHOW, shard=30)
    ihits, icrash, iass = [], [], []
    idist = {"file": 0, "replay": 0, "patterns": {}, "iterators": 0, "exhausted_iterators": 0, "abandoned_iterators": 0}
    iseen = set()
    isample = []
    for spec in ispecs:
        try:
            o = run_inter_impl(spec, tmpdir)
        except Exception as e:  # noqa
            icrash.append((spec, repr(e)))
            continue
        which, cases = inter_cases(spec, o)
        for term, meta in cases:
            (cif if which == "file" else cir).add(term, meta)
        iseen.add(spec_hash(spec))
        idist[spec["target"]] += 1
        idist["patterns"][spec["pattern"]] = idist["patterns"].get(spec["pattern"], 0) + 1
        idist["iterators"] += len(o["draw"])
        idist["exhausted_iterators"] += sum(1 for j in o["draw"] if o["done"][j])
        idist["abandoned_iterators"] += sum(1 for j in o["draw"] if not o["done"][j])
        for c in o["all_calls"]:
            if not is_perm(c[2], c[1]):
                iass.append({"input": spec, "call": [c[0], c[1], c[2][:50]], "why": "not a permutation"})
        hit = oracle_inter(spec, o)
        if hit:
            ihits.append((spec, hit))
        if not isample and spec["pattern"] == "interrupt" and _size_of(spec) < 150:
            isample.append({"input": spec, "impl": {str(j): o["out"][j] for j in o["draw"]}, "draw_order": o["draw"]})
    _size_shards(cif)
    _size_shards(cir)
    ifail, ishard_fail, in1 = cif.run()
    f2, sf2, in2 = cir.run()
    ifail, ishard_fail = ifail + f2, ishard_fail + sf2
    run.oblige(f"correspondence:interleaved-iterators ({in1 + in2} shards, {len(cif) + len(cir)} cases in {len(iseen)} scripts)",
               not ishard_fail, str(ishard_fail)[:1500])
    run.oblige("assumed: randperm answers are permutations (interleaved iterators)", not iass, json.dumps(iass[:2])[:1000])
    run.oblige("impl-oracle:interleaved-iterators (row-id: every live iterator yields each row exactly once, fields aligned)", not ihits,
               "; ".join(h[1][0] for h in ihits[:5]))
    run.oblige("correspondence:interleaved-iterators no exception escapes", not icrash, "; ".join(c[1] for c in icrash[:3]))
    run.count(len(cif) + len(cir), len(iseen),
              "one evaluation = the batches of the 2-3 iterators of ONE dataset object (Dataset or ReplayBufferDataset) that are alive at the "
              "same time - zip(ds, ds), an epoch interrupted after i batches by a complete inner epoch and resumed, three nested epochs, random "
              "interleavings, an abandoned epoch followed by a fresh one - compared inside Coq with the model: each iterator yields ITS OWN "
              "aligned permutation epoch, the permutations drawn in the order the iterators start; non-trivial = distinct scripts",
              isample, idist, label="interleaved-iterators")
    reported = 0
    ih = {spec_hash(sp): h for sp, h in ihits}
    for meta in sorted(ifail, key=lambda m: _size_of(m["input"])):
        if reported >= MAX_REPORT:
            break
        hit = ih.get(meta["hash"].split("-")[0])
        _report(run, cif if meta in cif.metas else cir, meta,
                hit[0] if hit else "an iterator's batches differ from its own aligned permutation epoch (interleaved iterators)",
                hit[1] if hit else None)
        reported += 1
    ifh = {m["hash"].split("-")[0] for m in ifail}
    for spec, hit in sorted(ihits, key=lambda sh: _size_of(sh[0])):
        if reported >= MAX_REPORT:
            break
        if spec_hash(spec) not in ifh:
            run.violation(f"inter-{spec_hash(spec)}", {"clause": hit[0], "model_disagrees": False, "input": spec, "oracle_detail": hit[1]})
            reported += 1
    for spec, err in icrash[:2]:
        run.violation(f"inter-crash-{spec_hash(spec)}", {"clause": "no exception", "input": spec, "exception": err})


def search(run, broken):
    """a proof or shard broke but no case disagreed: test the property's own statement on the implementation"""
    _setup()
    rng = run.rng
    tmpdir = tempfile.mkdtemp(prefix="verif_c20_")
    try:
        for spec in _pinned_specs() + [gen_file_spec(rng, True) for _ in range(300)]:
            try:
                hit = oracle_file(spec, tmpdir)
            except Exception as e:  # noqa
                hit = ("no error escapes", {"exception": repr(e)})
            if hit:
                run.violation(f"file-{spec_hash(spec)}", {"clause": hit[0], "oracle_detail": hit[1], "input": spec})
                return True
        for spec in _pinned_multi() + [gen_multi_spec(rng, True) for _ in range(150)]:
            try:
                hit = oracle_multi(spec, run_multi_impl(spec, tmpdir))
            except Exception as e:  # noqa
                hit = ("no error escapes", {"exception": repr(e)})
            if hit:
                run.violation(f"multi-{spec_hash(spec)}", {"clause": hit[0], "oracle_detail": hit[1], "input": spec})
                return True
        for spec in _pinned_inter() + [gen_inter_spec(rng, rng.choice(["file", "replay"])) for _ in range(200)]:
            try:
                hit = oracle_inter(spec, run_inter_impl(spec, tmpdir))
            except Exception as e:  # noqa
                hit = ("no error escapes", {"exception": repr(e)})
            if hit:
                run.violation(f"inter-{spec_hash(spec)}", {"clause": hit[0], "oracle_detail": hit[1], "input": spec})
                return True
        for _ in range(300):
            spec = gen_rb_spec(rng, True)
            try:
                hit = oracle_rb(spec)
            except Exception as e:  # noqa
                hit = ("no error escapes", {"exception": repr(e)})
            if hit:
                run.violation(f"replay-{spec_hash(spec)}", {"clause": hit[0], "oracle_detail": hit[1], "input": spec})
                return True
    finally:
        shutil.rmtree(tmpdir, ignore_errors=True)
    return False


def replay(run, rp):
    _setup()
    spec = rp["input"]
    tmpdir = tempfile.mkdtemp(prefix="verif_c20_")
    try:
        if spec["kind"] == "inter":
            try:
                o = run_inter_impl(spec, tmpdir)
            except Exception as e:  # noqa
                return {"violates": True, "exception": repr(e)}
            which, cases = inter_cases(spec, o)
            cs = (core.Cases(ID, "replay_inter", HEADER, FILE_CTYPE, FILE_CHECK, show=FILE_SHOW, shard=1) if which == "file"
                  else core.Cases(ID, "replay_inter", HEADER, RBI_CTYPE, RBI_CHECK, show=RBI_SHOW, shard=1))
            for term, meta in cases:
                cs.add(term, meta)
            hit = oracle_inter(spec, o)
            failing, shard_fail, _ = cs.run()
            return {"violates": bool(failing or shard_fail or hit), "model_disagrees": bool(failing), "shard_fail": shard_fail,
                    "oracle": hit, "draw_order": o["draw"], "impl_output": {str(j): o["out"][j] for j in o["draw"]},
                    "model_view": [cs.model_view(t) for t in cs.terms]}
        if spec["kind"] == "multi":
            cs = core.Cases(ID, "replay_multi", HEADER, FILE_CTYPE, FILE_CHECK, show=FILE_SHOW, shard=1)
            try:
                o = run_multi_impl(spec, tmpdir)
            except Exception as e:  # noqa
                return {"violates": True, "exception": repr(e)}
            for term, meta in multi_cases(spec, o):
                cs.add(term, meta)
            hit = oracle_multi(spec, o)
            failing, shard_fail, _ = cs.run()
            return {"violates": bool(failing or shard_fail or hit), "model_disagrees": bool(failing), "shard_fail": shard_fail,
                    "oracle": hit, "datasets_disagreeing": [m["dataset"] for m in failing],
                    "impl_output": {str(i): d["obs"] for i, d in o["per"].items()},
                    "model_view": {str(m["dataset"]): cs.model_view(t) for t, m in zip(cs.terms, cs.metas)}}
        if spec["kind"] == "file":
            cs = core.Cases(ID, "replay_file", HEADER, FILE_CTYPE, FILE_CHECK, show=FILE_SHOW, shard=1)
            try:
                o = run_file_impl(spec, tmpdir)
            except Exception as e:  # noqa
                return {"violates": True, "exception": repr(e)}
            cs.add(file_case_term(spec, o), _file_meta(spec, o))
            try:
                hit = oracle_file(spec, tmpdir)
            except Exception as e:  # noqa
                hit = ("no error escapes", {"exception": repr(e)})
            bad_perm = [c[:3] for c in o["calls"] if not is_perm(c[2], c[1])]
            impl = o["obs"]
        else:
            cs = core.Cases(ID, "replay_rb", HEADER, RB_CTYPE, RB_CHECK, show=RB_SHOW, shard=1)
            try:
                o = run_rb_impl(spec)
            except Exception as e:  # noqa
                return {"violates": True, "exception": repr(e)}
            cs.add(rb_case_term(spec, o), {"kind": "replay"})
            hit = oracle_rb(spec, o)
            bad_perm = [c[:3] for c in o["calls"] if not is_perm(c[2], c[1])]
            impl = {"flat": o["flat"], "batches": o["obs"]}
        failing, shard_fail, _ = cs.run()
        small = _size_of(spec) < 3000
        return {"violates": bool(failing or shard_fail or hit or bad_perm), "model_disagrees": bool(failing), "shard_fail": shard_fail,
                "oracle": hit, "bad_perm": bad_perm, "impl_output": impl if small else "omitted (large)",
                "model_view": cs.model_view(cs.terms[0]) if small else "omitted (large)"}
    finally:
        shutil.rmtree(tmpdir, ignore_errors=True)


# ---- translator tie (T): the C20_source_* theorems quantify over functions REGENERATED FROM THE SOURCE; t20's
# correspondence validates the semantics library and the translation scheme on every run.
from . import t20 as _t20  # noqa: E402

MODEL_TARGETS = sorted(set(list(MODEL_TARGETS) + list(_t20.MODEL_TARGETS)))
TRUSTED_BASE = list(TRUSTED_BASE) + list(getattr(_t20, "TRUSTED_BASE", []))
_c20_correspondence = correspondence


def pregen(run):
    return _t20.pregen(run)


def correspondence(run):
    _c20_correspondence(run)
    _t20.correspondence(run)
