"""C12 - training batches say what the transcripts say; de-duplication averages.

Correspondence: (a) the real self_play.encode_games on lists of transcripts of
mixed lengths and board sizes built from real short games (dyadic probabilities
and values, so every float32 entry is exact); (b) the real
alphazero.trainer.dedup_batch on batches with chosen multisets of repeated keys,
padding widths, garbage under the padding, keys that are prefixes of each other
and non-prefix masks; (c) the pipeline dedup_batch(encode_games(logs)).  The
model (model/Batch.v) recomputes the batch inside Coq; de-duplicated means are
compared within 1 ulp of float32 (exact rationals are passed).  The
per-position token encoding is abstract in the model: the harness passes the
table position -> encoding.encode(position) observed on the implementation."""
import ast
import hashlib
import json
from fractions import Fraction

from .. import core, takio
from ..core import cz, clist, cbool, copt
from .c11 import cq, fr_of, jq, _playout, _some_legal, _dyadic_dist

ID = "C12"
THEOREMS = ["C12_rows_in_order", "C12_padding_correct", "C12_dense_target", "C12_dense_target_last_wins",
            "C12_dedup_keys", "C12_dedup_keys_order", "C12_dedup_mean", "C12_dedup_nodup_id",
            "C12_dedup_mask_positions",
            "C12_real_enc_is_encode", "C12_dedup_distinct_positions", "C12_first_pos_at_reading",
            "C12_self_play_batches_encodable",
            "C12_source_dedup_eq", "C12_source_dedup_never_crashes", "C12_source_encode_games_eq", "C12_source_dedup_keys", "C12_source_dedup_mean", "C12_source_dedup_nodup_id", "C12_source_dedup_mask_positions", "C12_source_rows_in_order"]
MODEL_TARGETS = ["model/Tak.vo", "model/SelfPlay.vo", "model/Batch.vo", "model/Harness.vo", "model/Lit.vo",
                 "model/Encoding.vo"]
TRUSTED_BASE = [
    "torch tensors as lists: torch.cat / list comprehension order, boolean-mask indexing, in-place += and /= on rows "
    "(validated by the correspondence)",
    "encoding.encode is abstract (Section variable enc), a function of the position VALUE; the correspondence passes the "
    "table position -> encode(interned twin of the position) observed on the implementation; property C06 is about "
    "that function",
    "float32: targets in the generated cases are dyadic so sums are exact; the division by the count is compared "
    "within 1 ulp (2^-23 relative); torch.tensor(all_values) rounding float64 -> float32 is outside the model "
    "(generated values are float32-exact)",
]
ASSUMPTIONS = [
    "C12_rows_in_order assumes the four per-ply lists of each transcript have equal length (C11_lists_aligned)",
    "C12_dense_target assumes distinct candidates (C08); C12_dense_target_last_wins covers duplicates",
    "an empty list of games and a transcript without positions are outside the domain (torch.cat([]) / positions[0] "
    "raise; the model returns None for the latter)",
    "C12_dedup_mean's per-entry policy clause assumes the occurrences' policy rows have one width (a tensor is rectangular)",
]

HEADER = """From Coq Require Import ZArith QArith Qabs List Bool.
From TV Require Import model.Tak model.Lit model.SelfPlay model.Batch.
From TV Require model.Encoding.
Import ListNotations.
Definition T := mkTr.
Definition R := mkRow.
Definition enc_of (tbl : list (position * list Z)) (p : position) : list Z :=
  match find (fun e => position_eqb (fst e) p) tbl with Some e => snd e | None => [] end.
Fixpoint sparse_from (i : Z) (row : list Q) : list (Z * Q) :=
  match row with
  | [] => []
  | x :: t => if Qeq_bool x 0 then sparse_from (i + 1)%Z t else (i, x) :: sparse_from (i + 1)%Z t
  end.
Definition sparse (row : list Q) : list (Z * Q) := sparse_from 0%Z row.
(* |obs - exact| <= 2^-23 |exact| : one ulp of float32 *)
Definition close32 (o ex : Q) : bool := Qle_bool (Qabs (o - ex)) (Qabs ex * (1 # 8388608)).
Definition zq_close (a b : Z * Q) : bool := (fst a =? fst b)%Z && close32 (snd a) (snd b).
Fixpoint forall2b {A B} (f : A -> B -> bool) (a : list A) (b : list B) : bool :=
  match a, b with
  | [], [] => true
  | x :: a', y :: b' => f x y && forall2b f a' b'
  | _, _ => false
  end.
(* observed row: tokens, mask, policy width, nonzero policy entries, value, label *)
Definition orow := (list Z * list bool * Z * list (Z * Q) * Q * Q)%type.
Definition row_matches (r : row) (o : orow) : bool :=
  let '(t, m, w, pol, v, l) := o in
  list_eqb Z.eqb (r_tokens r) t && list_eqb Bool.eqb (r_mask r) m && (zlen (r_policy r) =? w)%Z &&
  forall2b zq_close pol (sparse (r_policy r)) && close32 v (r_value r) && close32 l (r_label r).
Definition chk_enc (c : list (position * list Z) * list transcript * list orow) : bool :=
  let '(tbl, logs, ob) := c in
  match encode_games (enc_of tbl) logs with Some b => forall2b row_matches b ob | None => false end.
Definition chk_dedup (c : batch * list orow) : bool := forall2b row_matches (dedup (fst c)) (snd c).
Definition chk_pipe (c : list (position * list Z) * list transcript * list orow) : bool :=
  let '(tbl, logs, ob) := c in
  match encode_games (enc_of tbl) logs with Some b => forall2b row_matches (dedup b) ob | None => false end.
(* the per-position encoding instantiated with C06's model of encoding.encode (include_sentinel = True, as
   encode_batch's default): a function of the position VALUE, whatever the process encoded before.  The observed table
   (encode on interned twins) has to agree with it as well. *)
Definition enc_m (p : position) : list Z := match Encoding.encode true p with Some l => l | None => [] end.
Definition tbl_ok (tbl : list (position * list Z)) : bool :=
  forallb (fun e => list_eqb Z.eqb (enc_m (fst e)) (snd e)) tbl.
Definition chk_enc_m (c : list (position * list Z) * list transcript * list orow) : bool :=
  let '(tbl, logs, ob) := c in
  tbl_ok tbl && match encode_games enc_m logs with Some b => forall2b row_matches b ob | None => false end.
Definition chk_pipe_m (c : list (position * list Z) * list transcript * list orow) : bool :=
  let '(tbl, logs, ob) := c in
  tbl_ok tbl && match encode_games enc_m logs with Some b => forall2b row_matches (dedup b) ob | None => false end.
Definition view_rows (b : batch) :=
  map (fun r => (r_tokens r, r_mask r, sparse (map Qred (r_policy r)), Qred (r_value r), Qred (r_label r))) b.
Definition view_enc (c : list (position * list Z) * list transcript * list orow) :=
  let '(tbl, logs, ob) := c in (tbl_ok tbl, option_map view_rows (encode_games enc_m logs)).
Definition view_dedup (c : batch * list orow) := view_rows (dedup (fst c)).
Definition view_pipe (c : list (position * list Z) * list transcript * list orow) :=
  let '(tbl, logs, ob) := c in (tbl_ok tbl, option_map (fun b => view_rows (dedup b)) (encode_games enc_m logs))."""
CT_ENC = "list (position * list Z) * list transcript * list orow"
CT_DEDUP = "batch * list orow"


# --------------------------------------------------------------------------
# implementation access
# --------------------------------------------------------------------------
_dedup_cache = {}


def _dedup_batch():
    """the real dedup_batch of the tree under test (module import, or its source text executed when the module does not import)"""
    if "f" in _dedup_cache:
        return _dedup_cache["f"]
    try:
        from tak.alphazero import trainer
        f = trainer.dedup_batch
        _dedup_cache["how"] = "import tak.alphazero.trainer"
    except Exception as e:  # noqa
        import torch
        src = (core.REPO / "python" / "tak" / "alphazero" / "trainer.py").read_text()
        tree = ast.parse(src)
        fn = [n for n in tree.body if isinstance(n, ast.FunctionDef) and n.name == "dedup_batch"]
        if not fn:
            raise RuntimeError("dedup_batch not found in trainer.py") from e
        ns = {"torch": torch}
        exec(compile(ast.Module(body=fn, type_ignores=[]), "trainer.py:dedup_batch", "exec"), ns)
        f = ns["dedup_batch"]
        _dedup_cache["how"] = f"source text of dedup_batch executed (module import failed: {e!r})"
    _dedup_cache["f"] = f
    return f


# --------------------------------------------------------------------------
# observed batches -> rows
# --------------------------------------------------------------------------
def _rows_of(batch):
    """dict of tensors -> list of (tokens, mask, width, sparse policy, value, label) with exact rationals"""
    n = batch["positions"].shape[0]
    out = []
    for i in range(n):
        pol = batch["moves"][i]
        nz = pol.nonzero()[:, 0].tolist()
        out.append({"tokens": [int(x) for x in batch["positions"][i].tolist()],
                    "mask": [bool(x) for x in batch["mask"][i].tolist()],
                    "width": int(pol.shape[0]),
                    "policy": [(j, fr_of(pol[j].item())) for j in nz],
                    "value": fr_of(batch["values"][i].item()),
                    "label": fr_of(batch["results"][i].item())})
    shapes_ok = all(batch[k].shape[0] == n for k in ("mask", "moves", "values", "results"))
    return out, shapes_ok


def _c_orow(r):
    return (f"({core.czlist(r['tokens'])}, {clist([cbool(x) for x in r['mask']])}, {cz(r['width'])}, "
            f"{clist([f'({cz(j)}, {cq(v)})' for (j, v) in r['policy']])}, {cq(r['value'])}, {cq(r['label'])})")


def _j_orow(r):
    return {"tokens": r["tokens"], "mask": r["mask"], "width": r["width"],
            "policy": [[j, float(v)] for (j, v) in r["policy"]], "value": float(r["value"]), "label": float(r["label"])}


# --------------------------------------------------------------------------
# transcripts
# --------------------------------------------------------------------------
_LAST = {"crossing": None}       # how the last list returned by _gen_logs was copied (kept for the replay input)


def _make_transcript(rng, n, plies, dup_cands=False):
    """a Transcript over the first `plies` positions of a random real game of size n"""
    import numpy as np
    from tak import self_play
    line, _ = _playout(rng, n, rng.choice([0.9, 0.7, 0.4]), maxlen=plies + rng.randint(0, 6))
    import tak
    p = tak.Position.from_config(tak.Config(size=n))
    start = rng.randint(0, max(0, len(line) - plies))
    for m in line[:start]:
        p = p.move(m)
    tr = self_play.Transcript()
    for m in line[start:start + plies]:
        cands = [mm for (mm, _) in _some_legal(p, rng, rng.randint(0, 5)) if mm != m] + [m]
        rng.shuffle(cands)
        if dup_cands and len(cands) >= 2 and rng.random() < 0.5:
            cands.append(cands[0])                      # the later entry overwrites the earlier one
        probs = _dyadic_dist(rng, len(cands))
        tr.positions.append(p)
        tr.moves.append(cands)
        tr.probs.append(np.array(probs, dtype=np.float32))
        tr.values.append(rng.randint(-16, 16) / 16.0)
        p = p.move(m)
    import tak as _t
    tr.result = rng.choice([None, _t.Color.WHITE, _t.Color.BLACK])
    return tr


def _gen_logs(rng, quick, force_repeats=False):
    k = rng.choice([1, 1, 2, 2, 3, 4]) if quick else rng.choice([1, 2, 3, 4, 6])
    sizes = [rng.choice([3, 3, 4, 5, 6])] * k if rng.random() < 0.5 else [rng.choice([3, 4, 5, 6]) for _ in range(k)]
    logs = []
    for n in sizes:
        plies = rng.choice([1, 1, 2, 3, 4, 6]) if quick else rng.choice([1, 2, 3, 5, 8, 12])
        tr = _make_transcript(rng, n, plies, dup_cands=rng.random() < 0.15)
        if tr.positions:
            logs.append(tr)
    if force_repeats and logs:
        # the same positions again in another game, with other targets: dedup must merge them
        src = rng.choice(logs)
        from tak import self_play
        import numpy as np
        tr = self_play.Transcript()
        for i in range(len(src.positions)):
            if rng.random() < 0.8:
                tr.positions.append(src.positions[i])
                tr.moves.append(list(src.moves[i]))
                tr.probs.append(np.array(_dyadic_dist(rng, len(src.moves[i])), dtype=np.float32))
                tr.values.append(rng.randint(-16, 16) / 16.0)
        import tak
        tr.result = rng.choice([None, tak.Color.WHITE, tak.Color.BLACK])
        if tr.positions:
            logs.insert(rng.randint(0, len(logs)), tr)
    _LAST["crossing"] = None
    if rng.random() < 0.4:
        # what play_many returns has crossed a multiprocessing queue: equal but not interned Piece objects
        logs = _cross(logs, "pickle")
        _LAST["crossing"] = "pickle"
    return logs


def _both_buried(p):
    """some buried flat of the side to move and some of the opponent"""
    me, own, their = p.to_move(), False, False
    for sq in p.board:
        for f in sq[1:]:
            if f.color == me:
                own = True
            else:
                their = True
    return own and their


def _buried_logs(rng, crossing):
    """1-3 transcripts cut from slide-heavy games around positions with buried flats of both colours, then sent through
    `crossing` ("pickle": what multiprocessing.Queue does to the transcripts play_many returns; "deepcopy")"""
    import copy
    import pickle
    import numpy as np
    import tak
    from tak import self_play
    logs = []
    for _ in range(rng.choice([1, 1, 2, 3])):
        for _try in range(20):
            n = rng.choice([3, 4, 4, 5])
            line, _ = _playout(rng, n, 0.35, maxlen=50)
            ps, p = [], tak.Position.from_config(tak.Config(size=n))
            for m in line:
                ps.append((p, m))
                p = p.move(m)
            hits = [i for i, (q, _) in enumerate(ps) if _both_buried(q)]
            if hits:
                break
        else:
            continue
        h = rng.choice(hits)
        lo = max(0, h - rng.randint(0, 2))
        tr = self_play.Transcript()
        for (q, m) in ps[lo:h + 1 + rng.randint(0, 2)]:
            cands = [mm for (mm, _) in _some_legal(q, rng, rng.randint(0, 3)) if mm != m] + [m]
            rng.shuffle(cands)
            tr.positions.append(q)
            tr.moves.append(cands)
            tr.probs.append(np.array(_dyadic_dist(rng, len(cands)), dtype=np.float32))
            tr.values.append(rng.randint(-16, 16) / 16.0)
        tr.result = rng.choice([None, tak.Color.WHITE, tak.Color.BLACK])
        logs.append(tr)
    if logs and rng.random() < 0.5:            # the same positions in a second game: the pipeline must merge them
        src = logs[0]
        tr = self_play.Transcript()
        for i in range(len(src.positions)):
            tr.positions.append(src.positions[i])
            tr.moves.append(list(src.moves[i]))
            tr.probs.append(np.array(_dyadic_dist(rng, len(src.moves[i])), dtype=np.float32))
            tr.values.append(rng.randint(-16, 16) / 16.0)
        tr.result = rng.choice([None, tak.Color.WHITE, tak.Color.BLACK])
        logs.append(tr)
    return _cross(logs, crossing)


def _cross(logs, crossing):
    import copy
    import pickle
    if crossing == "pickle":
        return pickle.loads(pickle.dumps(logs))
    if crossing == "deepcopy":
        return copy.deepcopy(logs)
    return logs


def _history_logs(rng):
    """(final transcripts, history): the transcripts as they are when encoded the SECOND time, and what they looked like
    when they were read the first time: `first_len[g]` plies present, `old_probs[g][i]` the probabilities of ply i before
    it was revised, how the first read happened and how a revision is written"""
    logs = []
    for _ in range(rng.choice([1, 1, 2])):
        tr = _make_transcript(rng, rng.choice([3, 3, 4, 5]), rng.choice([2, 3, 4, 5]))
        if len(tr.positions) >= 2:
            logs.append(tr)
    if not logs:
        return [], None
    hist = {"first_len": [], "old_probs": [], "first_read": rng.choice(["encode_games", "logits"]),
            "revise": rng.choice(["replace", "inplace"])}
    kind = rng.choice(["extend", "revise", "both"])
    for tr in logs:
        n = len(tr.positions)
        hist["first_len"].append(rng.randint(1, n - 1) if kind in ("extend", "both") else n)
        old = {}
        if kind in ("revise", "both"):
            i = rng.randrange(hist["first_len"][-1])
            old[str(i)] = _dyadic_dist(rng, len(tr.moves[i]))
        hist["old_probs"].append(old)
    return logs, hist


def _apply_history(final_logs, hist):
    """build the transcripts in their FIRST state, read them once the way `hist` says, then extend / revise the SAME
    objects the way play_one_game extends its log (append to the per-ply lists); returns those objects"""
    import numpy as np
    from tak import self_play
    objs = []
    for g, fin in enumerate(final_logs):
        k = hist["first_len"][g]
        tr = self_play.Transcript()
        tr.positions = list(fin.positions[:k])
        tr.moves = [list(ms) for ms in fin.moves[:k]]
        tr.probs = [np.array(hist["old_probs"][g].get(str(i), fin.probs[i].tolist()), dtype=np.float32) for i in range(k)]
        tr.values = list(fin.values[:k])
        tr.result = fin.result
        objs.append(tr)
    if hist["first_read"] == "encode_games":
        self_play.encode_games(objs)
    else:
        for tr in objs:
            tr.logits
    for g, (tr, fin) in enumerate(zip(objs, final_logs)):
        for i_s in hist["old_probs"][g]:
            i = int(i_s)
            if hist["revise"] == "inplace":
                tr.probs[i][:] = fin.probs[i]
            else:
                tr.probs[i] = np.array(fin.probs[i].tolist(), dtype=np.float32)
        for i in range(hist["first_len"][g], len(fin.positions)):
            tr.positions.append(fin.positions[i])
            tr.moves.append(list(fin.moves[i]))
            tr.probs.append(fin.probs[i])
            tr.values.append(fin.values[i])
    return objs


def _config_logs(rng):
    """transcripts of ONE opening line played under the stock piece counts and under a custom Config: identical boards
    and side to move, different reserves; custom first in some lists, default first in others"""
    import numpy as np
    import tak
    from tak import self_play
    n = rng.choice([3, 4, 4, 5])
    dflt = tak.Config(size=n)
    caps = 1 - dflt.capstone_count
    custom = tak.Config(size=n, pieces=rng.choice([p for p in (6, 8, 12, 17, 25, 40, 49) if p != dflt.flat_count]),
                        capstones=caps)
    pd, pc = tak.Position.from_config(dflt), tak.Position.from_config(custom)
    pairs = []
    for _ in range(rng.randint(2, 7)):
        ms = [m for m in pd.all_moves() if m.type != tak.MoveType.PLACE_CAPSTONE]
        rng.shuffle(ms)
        for m in ms:
            try:
                qd, qc = pd.move(m), pc.move(m)
            except tak.IllegalMove:
                continue
            pairs.append((pd, pc, m))
            pd, pc = qd, qc
            break
        else:
            break
    if not pairs:
        return [], None
    lo = rng.randrange(len(pairs))
    hi = min(len(pairs), lo + rng.randint(1, 4))

    def mk(which):
        tr = self_play.Transcript()
        for (a, b, m) in pairs[lo:hi]:
            q = a if which == 0 else b
            cands = [mm for (mm, _) in _some_legal(q, rng, rng.randint(0, 3)) if mm != m] + [m]
            rng.shuffle(cands)
            tr.positions.append(q)
            tr.moves.append(cands)
            tr.probs.append(np.array(_dyadic_dist(rng, len(cands)), dtype=np.float32))
            tr.values.append(rng.randint(-16, 16) / 16.0)
        tr.result = rng.choice([None, tak.Color.WHITE, tak.Color.BLACK])
        return tr
    order = rng.choice(["custom-first", "default-first"])
    logs = [mk(1), mk(0)] if order == "custom-first" else [mk(0), mk(1)]
    if rng.random() < 0.3:
        logs.append(mk(rng.randrange(2)))           # the same positions once more: these DO merge
    return logs, {"order": order, "size": n, "custom": [custom.flat_count, custom.capstone_count]}


def _c_transcript(tr):
    return (f"(T {clist([takio.c_pos(p) for p in tr.positions])} "
            f"{clist([clist([takio.c_move(m) for m in ms]) for ms in tr.moves])} "
            f"{clist([clist([cq(fr_of(x)) for x in pr.tolist()]) for pr in tr.probs])} "
            f"{clist([cq(fr_of(v)) for v in tr.values])} {takio.c_color(tr.result)})")


def _j_transcript(tr):
    return {"positions": [takio.j_pos(p) for p in tr.positions],
            "moves": [[takio.j_move(m) for m in ms] for ms in tr.moves],
            "probs": [[jq(fr_of(x)) for x in pr.tolist()] for pr in tr.probs],
            "values": [jq(fr_of(v)) for v in tr.values],
            "result": None if tr.result is None else tr.result.name}


def _mk_transcript(d):
    import numpy as np
    import tak
    from tak import self_play
    tr = self_play.Transcript()
    tr.positions = [takio.mk_pos(p) for p in d["positions"]]
    tr.moves = [[takio.mk_move(m) for m in ms] for ms in d["moves"]]
    tr.probs = [np.array([float(Fraction(*x)) for x in pr], dtype=np.float32) for pr in d["probs"]]
    tr.values = [float(Fraction(*v)) for v in d["values"]]
    tr.result = None if d["result"] is None else tak.Color[d["result"]]
    return tr


def _interned(p):
    """the same position VALUE rebuilt from interned Piece objects (Piece.cached)"""
    return takio.mk_pos(takio.j_pos(p))


def _enc_table(logs):
    """the abstract per-position encoding `enc`: a function of the position VALUE.  It is observed on an interned twin
    of each position, so that an encode that depends on object identity (positions that crossed pickle / deepcopy)
    shows up as a difference between encode_games and the model"""
    from tak.model import encoding
    seen, items = set(), []
    for tr in logs:
        for p in tr.positions:
            key = takio.c_pos(p)
            if key not in seen:
                seen.add(key)
                items.append(f"({key}, {core.czlist(encoding.encode(_interned(p)))})")
    return clist(items)


# --------------------------------------------------------------------------
# oracles of the property's own statement (implementation side, exact rationals)
# --------------------------------------------------------------------------
ULP32 = Fraction(1, 1 << 23)


def _close(o, ex):
    return abs(o - ex) <= abs(ex) * ULP32


def _oracle_encode(logs, rows, shapes_ok):
    from tak.model import encoding
    bad = []
    if not shapes_ok:
        bad.append("rows:tensors-not-row-aligned")
    want = []
    for tr in logs:
        for i, p in enumerate(tr.positions):
            pol = {}
            for j, m in enumerate(tr.moves[i]):
                pol[encoding.encode_move(p.size, m)] = fr_of(tr.probs[i][j])
            lab = 0 if tr.result is None else (1 if p.to_move() == tr.result else -1)
            want.append((encoding.encode(_interned(p)), pol, fr_of(tr.values[i]), Fraction(lab)))
    if len(rows) != len(want):
        return ["rows:count"]
    w = max(len(e) for (e, _, _, _) in want)
    for k, ((e, pol, v, lab), r) in enumerate(zip(want, rows)):
        if r["tokens"] != e + [0] * (w - len(e)):
            bad.append(f"rows:tokens-of-row-{k}")
        if r["mask"] != [True] * len(e) + [False] * (w - len(e)):
            bad.append(f"rows:mask-of-row-{k}")
        if r["width"] != encoding.MAX_MOVE_ID or dict(r["policy"]) != {i: x for i, x in pol.items() if x != 0}:
            bad.append(f"dense-target:row-{k}")
        if r["value"] != v:
            bad.append(f"rows:value-of-row-{k}")
        if r["label"] != lab:
            bad.append(f"rows:label-of-row-{k}")
    return bad


def _oracle_dedup(inp, out):
    """inp / out: lists of row dicts (dense policy for inp: 'dense'); means over occurrences, first-occurrence order"""
    bad = []
    groups, order = {}, []
    for r in inp:
        key = tuple(t for t, m in zip(r["tokens"], r["mask"]) if m)
        if key not in groups:
            groups[key] = []
            order.append(key)
        groups[key].append(r)
    if len(out) != len(order):
        return ["keys:number-of-output-rows"]
    for k, (key, o) in enumerate(zip(order, out)):
        occ = groups[key]
        okey = tuple(t for t, m in zip(o["tokens"], o["mask"]) if m)
        if okey != key:
            bad.append(f"keys:order-row-{k}")
            continue
        if o["tokens"] != occ[0]["tokens"] or o["mask"] != occ[0]["mask"]:
            bad.append(f"mask-positions:row-{k}")
        c = len(occ)
        if not _close(o["value"], sum(r["value"] for r in occ) / c):
            bad.append(f"mean:value-row-{k}")
        if not _close(o["label"], sum(r["label"] for r in occ) / c):
            bad.append(f"mean:label-row-{k}")
        width = len(occ[0]["dense"])
        got = dict(o["policy"])
        for j in range(width):
            ex = sum(r["dense"][j] for r in occ) / c
            if not _close(got.get(j, Fraction(0)), ex):
                bad.append(f"mean:policy-row-{k}")
                break
        if c == 1 and len(order) == len(inp):
            pass
    if len(order) == len(inp):     # no duplicates: unchanged
        for k, (r, o) in enumerate(zip(inp, out)):
            if (o["tokens"], o["mask"], o["value"], o["label"]) != (r["tokens"], r["mask"], r["value"], r["label"]) or \
               dict(o["policy"]) != {j: x for j, x in enumerate(r["dense"]) if x != 0}:
                bad.append(f"nodup-id:row-{k}")
    return bad


# --------------------------------------------------------------------------
# dedup inputs
# --------------------------------------------------------------------------
def _gen_batch(rng, quick):
    """rows with a chosen multiset of keys; returns list of row dicts with dense policies"""
    n = rng.choice([1, 2, 3, 5, 8, 13, 20, 40]) if quick else rng.choice([1, 2, 5, 13, 13, 40, 40, 120, 120, 400])
    w = rng.choice([1, 3, 5, 8, 12, 26]) if quick else rng.choice([1, 3, 8, 26, 41, 80])
    kpol = rng.choice([1, 2, 4, 6])
    style = rng.choice(["few-keys", "all-distinct", "all-same", "pairs", "prefix-keys", "random"])
    ndist = {"few-keys": min(n, rng.randint(1, 3)), "all-distinct": n, "all-same": 1,
             "pairs": max(1, n // 2), "prefix-keys": min(n, rng.randint(2, 4)), "random": rng.randint(1, n)}[style]
    protos = []
    seen = set()
    tries = 0
    while len(protos) < ndist and tries < 20 * ndist + 50:
        tries += 1
        if style == "prefix-keys" and protos and rng.random() < 0.7:
            # a key that extends / is a prefix of an existing one by zero tokens (equal once the mask is ignored)
            base = list(rng.choice(protos)[2])
            key = base + [0] * rng.randint(1, 2) if (len(base) < w and rng.random() < 0.6) else base[:-1]
            key = key[:w]
            mask = [True] * len(key) + [False] * (w - len(key))
        else:
            ln = rng.randint(0, w)
            if rng.random() < 0.2:      # a mask that is not a prefix
                mask = [rng.random() < 0.6 for _ in range(w)]
            else:
                mask = [True] * ln + [False] * (w - ln)
            key = [rng.choice([0, 1, 2, 9, 10, 203, 254, 255]) for _ in range(sum(mask))]
        tkey = tuple(key)
        if tkey in seen:
            continue
        seen.add(tkey)
        protos.append((mask, None, key))
    ndist = len(protos)
    assign = list(range(ndist)) + [rng.randrange(ndist) for _ in range(n - ndist)]
    if style == "pairs":
        assign = [i % ndist for i in range(n)]
    rng.shuffle(assign)
    rows = []
    for a in assign[:n]:
        mask, _, key = protos[a]
        it = iter(key)
        garbage = rng.random() < 0.4
        tokens = [next(it) if m else (rng.choice([0, 1, 7, 255]) if garbage else 0) for m in mask]
        dense = [Fraction(x).limit_denominator(64) for x in _dyadic_dist(rng, kpol)] if rng.random() < 0.8 else \
                [Fraction(rng.randint(0, 64), 64) for _ in range(kpol)]
        rows.append({"tokens": tokens, "mask": list(mask), "dense": dense,
                     "value": Fraction(rng.randint(-16, 16), 16), "label": Fraction(rng.choice([-1, 0, 1]))})
    return rows, style


def _tensor_batch(rows):
    import torch
    return {"positions": torch.tensor([r["tokens"] for r in rows], dtype=torch.uint8).reshape(len(rows), -1),
            "mask": torch.tensor([r["mask"] for r in rows], dtype=torch.bool).reshape(len(rows), -1),
            "moves": torch.tensor([[float(x) for x in r["dense"]] for r in rows], dtype=torch.float32),
            "values": torch.tensor([float(r["value"]) for r in rows], dtype=torch.float32),
            "results": torch.tensor([float(r["label"]) for r in rows], dtype=torch.float32)}


def _c_row(r):
    return (f"(R {core.czlist(r['tokens'])} {clist([cbool(x) for x in r['mask']])} "
            f"{clist([cq(x) for x in r['dense']])} {cq(r['value'])} {cq(r['label'])})")


def _j_row(r):
    return {"tokens": r["tokens"], "mask": r["mask"], "dense": [jq(x) for x in r["dense"]],
            "value": jq(r["value"]), "label": jq(r["label"])}


def _dense_rows(rows):
    """observed encode_games rows -> dedup oracle input (dense policies)"""
    out = []
    for r in rows:
        d = [Fraction(0)] * r["width"]
        for j, v in r["policy"]:
            d[j] = v
        out.append({"tokens": r["tokens"], "mask": r["mask"], "dense": d, "value": r["value"], "label": r["label"]})
    return out


# --------------------------------------------------------------------------
def _hash(x):
    return hashlib.sha256(json.dumps(x, sort_keys=True, default=str).encode()).hexdigest()


def _finish(run, cs, name, items, rule, nontrivial_of, dist):
    """items: list of (meta, term, clauses, replay-dict)"""
    import time
    t0 = time.time()
    failing, shard_fail, nshards = cs.run()
    core.log(f"[C12] {name}: {len(items)} cases, {nshards} shards evaluated in Coq in {time.time() - t0:.1f}s")
    run.oblige(f"correspondence:{name} ({nshards} shards)", not shard_fail, str(shard_fail)[:1500])
    failing_ids = {id(m) for m in failing}
    seen, nontrivial, samples = set(), 0, []
    for meta, term, clauses, rp in items:
        h = _hash(rp["input"])
        if h not in seen:
            seen.add(h)
            nontrivial += 1 if nontrivial_of(meta) else 0
        if len(samples) < 2 and nontrivial_of(meta):
            samples.append({"meta": meta, "impl_output": rp["impl_output"][:3]})
        dis = id(meta) in failing_ids
        if dis or clauses:
            view = None
            key = f"{name}-" + ("+".join(sorted({c.split(':')[0] for c in clauses})) or "model-disagrees")
            seen_keys = run.extra.setdefault("violation_keys", [])
            if key in seen_keys:
                continue                # one replay per key (the first input that shows it)
            seen_keys.append(key)
            if dis and len(seen_keys) <= 3:
                try:
                    view = cs.model_view(term)
                except Exception as e:  # noqa
                    view = repr(e)
            rp = dict(rp)
            rp.update({"clause": clauses or ["the batch differs from the one the model computes on the same input"],
                       "part": name, "meta": meta, "model_view": view, "oracle_violations": clauses,
                       "model_disagrees": dis})
            run.violation(key, rp)
    run.count(len(items), nontrivial, rule, samples, dist, label=name)


def _crashed(e, inp):
    return None, ["crash:" + repr(e)], {"input": inp, "impl_output": [], "crash": repr(e)}


def _encode_case(logs, crossing=None, history=None):
    from tak import self_play
    final = logs
    if history is not None:
        logs = _apply_history(final, history)         # the objects that were read once and then extended / revised
    inp = {"logs": [_j_transcript(tr) for tr in final], "crossing": crossing, "history": history}
    try:
        batch = self_play.encode_games(logs)
        dims = {k: int(v.shape[0]) for k, v in batch.items()}
        if len(set(dims.values())) > 1:          # e.g. a stale `moves` tensor: fewer policy rows than positions
            return None, [], None, [f"rows:tensors-not-row-aligned {dims}"], {"input": inp, "impl_output": [], "row_counts": dims}
        _rows_of(batch)
    except Exception as e:  # noqa  (inside the domain nothing may raise)
        term, clauses, rp = _crashed(e, inp)
        return None, [], term, clauses, rp
    rows, shapes_ok = _rows_of(batch)
    term = f"({_enc_table(logs)}, {clist([_c_transcript(tr) for tr in logs])}, {clist([_c_orow(r) for r in rows])})"
    clauses = _oracle_encode(logs, rows, shapes_ok)
    rp = {"input": {"logs": [_j_transcript(tr) for tr in final], "crossing": crossing, "history": history},
          "impl_output": [_j_orow(r) for r in rows]}
    return batch, rows, term, clauses, rp


def _dedup_case(rows):
    try:
        out, shapes_ok = _rows_of(_dedup_batch()(_tensor_batch(rows)))
    except Exception as e:  # noqa
        return _crashed(e, {"batch": [_j_row(r) for r in rows]})
    term = f"({clist([_c_row(r) for r in rows])}, {clist([_c_orow(r) for r in out])})"
    clauses = _oracle_dedup(rows, out) + ([] if shapes_ok else ["rows:tensors-not-row-aligned"])
    rp = {"input": {"batch": [_j_row(r) for r in rows]}, "impl_output": [_j_orow(r) for r in out]}
    return term, clauses, rp


def _pipe_case(logs, crossing=None):
    from tak import self_play
    try:
        batch = self_play.encode_games(logs)
        rows, _ = _rows_of(batch)
        out, shapes_ok = _rows_of(_dedup_batch()(batch))
    except Exception as e:  # noqa
        return _crashed(e, {"logs": [_j_transcript(tr) for tr in logs], "pipeline": True, "crossing": crossing})
    term = f"({_enc_table(logs)}, {clist([_c_transcript(tr) for tr in logs])}, {clist([_c_orow(r) for r in out])})"
    clauses = _oracle_dedup(_dense_rows(rows), out) + ([] if shapes_ok else ["rows:tensors-not-row-aligned"])
    rp = {"input": {"logs": [_j_transcript(tr) for tr in logs], "pipeline": True, "crossing": crossing},
          "impl_output": [_j_orow(r) for r in out]}
    return term, clauses, rp


def correspondence(run):
    core.setup_impl(ext=True, shims=True)
    import torch
    torch.set_num_threads(1)
    rng = run.rng
    n_enc = 300 if run.quick else 2500
    n_dedup = 500 if run.quick else 2500
    n_pipe = 24 if run.quick else 300
    _dedup_batch()
    run.assumptions.append("dedup_batch obtained by: " + _dedup_cache["how"])

    # (a) encode_games
    cs = core.Cases(ID, "encode_games", HEADER, CT_ENC, "chk_enc_m", show="view_enc", shard=19 if run.quick else 40)
    items, dist = [], {}
    for _ in range(n_enc):
        logs = _gen_logs(rng, run.quick)
        if not logs:
            continue
        _, rows, term, clauses, rp = _encode_case(logs, _LAST["crossing"])
        meta = {"games": len(logs), "rows": sum(len(tr.positions) for tr in logs),
                "lengths": [len(tr.positions) for tr in logs], "sizes": [tr.positions[0].size for tr in logs]}
        if term is not None:
            cs.add(term, meta)
        items.append((meta, term, clauses, rp))
        for k in (f"games{len(logs)}", "one-ply-game" if 1 in meta["lengths"] else "no-one-ply-game",
                  "mixed-sizes" if len(set(meta["sizes"])) > 1 else "one-size"):
            dist[k] = dist.get(k, 0) + 1
    _finish(run, cs, "encode_games", items,
            "real encode_games on transcript lists (1-4 games quick, mixed lengths incl. one-ply games, mixed board sizes so "
            "padding widths differ); every row (tokens, mask, policy width, nonzero policy entries, value, label) compared "
            "inside Coq with the model's; non-trivial = at least 2 rows", lambda m: m["rows"] >= 2, dist)

    # (b) dedup_batch
    cs = core.Cases(ID, "dedup", HEADER, CT_DEDUP, "chk_dedup", show="view_dedup", shard=32)
    items, dist = [], {}
    for _ in range(n_dedup):
        rows, style = _gen_batch(rng, run.quick)
        term, clauses, rp = _dedup_case(rows)
        nkeys = len({tuple(t for t, m in zip(r["tokens"], r["mask"]) if m) for r in rows})
        meta = {"rows": len(rows), "distinct_keys": nkeys, "style": style, "width": len(rows[0]["tokens"])}
        if term is not None:
            cs.add(term, meta)
        items.append((meta, term, clauses, rp))
        dist[style] = dist.get(style, 0) + 1
        dist["with-repeats" if nkeys < len(rows) else "no-repeats"] = dist.get("with-repeats" if nkeys < len(rows) else "no-repeats", 0) + 1
    _finish(run, cs, "dedup", items,
            "real dedup_batch on batches with chosen key multisets (all distinct, all same, pairs, few keys, keys that are "
            "zero-extensions of each other, non-prefix masks, garbage under the padding), widths 1-26 quick; output rows "
            "compared inside Coq (tokens/mask exactly, means within 1 ulp32); non-trivial = some key repeated",
            lambda m: m["distinct_keys"] < m["rows"], dist)

    # (c) encode_games then dedup_batch
    cs = core.Cases(ID, "pipeline", HEADER, CT_ENC, "chk_pipe_m", show="view_pipe", shard=2)
    items, dist = [], {}
    for _ in range(n_pipe):
        logs = _gen_logs(rng, True, force_repeats=True)
        if not logs:
            continue
        term, clauses, rp = _pipe_case(logs, _LAST["crossing"])
        nrows = sum(len(tr.positions) for tr in logs)
        meta = {"games": len(logs), "rows": nrows, "rows_after": len(rp["impl_output"])}
        if term is not None:
            cs.add(term, meta)
        items.append((meta, term, clauses, rp))
        dist["merged" if meta["rows_after"] < nrows else "nothing-merged"] = dist.get("merged" if meta["rows_after"] < nrows else "nothing-merged", 0) + 1
    _finish(run, cs, "pipeline", items,
            "dedup_batch(encode_games(logs)) with positions repeated across games, full policy width; compared with "
            "dedup (encode_games logs) inside Coq; non-trivial = at least one merge", lambda m: m["rows_after"] < m["rows"], dist)

    # (d) transcripts that crossed a process boundary: pickle round trip (multiprocessing.Queue) / copy.deepcopy, with
    #     buried flats of both colours in the positions; the expected rows are the model's, as in (a) and (c)
    n_x, n_xp = (120, 16) if run.quick else (600, 80)
    cs = core.Cases(ID, "crossing_encode", HEADER, CT_ENC, "chk_enc_m", show="view_enc", shard=8 if run.quick else 20)
    csp = core.Cases(ID, "crossing_pipeline", HEADER, CT_ENC, "chk_pipe_m", show="view_pipe", shard=2)
    items, itemsp, dist, distp = [], [], {}, {}
    for j in range(n_x + n_xp):
        crossing = "deepcopy" if j % 3 == 2 else "pickle"
        logs = _buried_logs(rng, crossing)
        if not logs:
            continue
        nb = sum(1 for tr in logs for q in tr.positions if _both_buried(q))
        if j < n_x:
            _, rows, term, clauses, rp = _encode_case(logs, crossing)
            meta = {"games": len(logs), "rows": sum(len(tr.positions) for tr in logs), "crossing": crossing,
                    "positions_with_buried_flats_of_both_colours": nb}
            if term is not None:
                cs.add(term, meta)
            items.append((meta, term, clauses, rp))
            dist[crossing] = dist.get(crossing, 0) + 1
        else:
            term, clauses, rp = _pipe_case(logs, crossing)
            nrows = sum(len(tr.positions) for tr in logs)
            meta = {"games": len(logs), "rows": nrows, "rows_after": len(rp["impl_output"]), "crossing": crossing,
                    "positions_with_buried_flats_of_both_colours": nb}
            if term is not None:
                csp.add(term, meta)
            itemsp.append((meta, term, clauses, rp))
            distp[crossing] = distp.get(crossing, 0) + 1
    _finish(run, cs, "crossing_encode", items,
            "encode_games on transcript lists that went through pickle.loads(pickle.dumps(..)) (2/3) or copy.deepcopy (1/3): "
            "Piece objects equal but not interned; positions cut around stacks with buried flats of both colours; rows "
            "compared with the model's (enc observed on interned twins); non-trivial = some position with buried flats of "
            "both colours", lambda m: m["positions_with_buried_flats_of_both_colours"] > 0, dist)
    _finish(run, csp, "crossing_pipeline", itemsp,
            "dedup_batch(encode_games(logs)) on such lists; non-trivial = some position with buried flats of both colours",
            lambda m: m["positions_with_buried_flats_of_both_colours"] > 0, distp)

    # (e) histories: a transcript is read once (encode_games or .logits), then extended with further plies and / or a
    #     ply's probabilities are revised, then encoded AGAIN; the second batch is compared with the model's rows for the
    #     transcript as it is then (the model is a function of the current value)
    cs = core.Cases(ID, "history_encode", HEADER, CT_ENC, "chk_enc_m", show="view_enc", shard=5 if run.quick else 20)
    items, dist = [], {}
    for _ in range(40 if run.quick else 400):
        logs, hist = _history_logs(rng)
        if not logs:
            continue
        _, rows, term, clauses, rp = _encode_case(logs, None, hist)
        ext = sum(len(tr.positions) - k for tr, k in zip(logs, hist["first_len"]))
        rev = sum(len(o) for o in hist["old_probs"])
        meta = {"games": len(logs), "rows": sum(len(tr.positions) for tr in logs), "plies_appended": ext,
                "plies_revised": rev, "first_read": hist["first_read"], "revise": hist["revise"]}
        if term is not None:
            cs.add(term, meta)
        items.append((meta, term, clauses, rp))
        for k in ("extended" if ext else None, "revised-" + hist["revise"] if rev else None, "first-read-" + hist["first_read"]):
            if k:
                dist[k] = dist.get(k, 0) + 1
    _finish(run, cs, "history_encode", items,
            "encode_games on transcripts that were read before (encode_games / .logits) and then extended by further plies "
            "(appended to the per-ply lists as play_one_game does) and / or had a ply's probabilities revised (list item "
            "replaced, or numpy array overwritten in place); rows of the SECOND batch compared with the model's for the "
            "current transcripts; non-trivial = every case", lambda m: True, dist)

    # (f) one process, several piece-count Configs: the same opening under the stock counts and under a custom Config
    #     (identical boards and side to move, different reserves) in one list, either order; encode and the pipeline
    n_f, n_fp = (24, 12) if run.quick else (200, 80)
    cs = core.Cases(ID, "configs_encode", HEADER, CT_ENC, "chk_enc_m", show="view_enc", shard=4 if run.quick else 20)
    csp = core.Cases(ID, "configs_pipeline", HEADER, CT_ENC, "chk_pipe_m", show="view_pipe", shard=2)
    items, itemsp, dist, distp = [], [], {}, {}
    for j in range(n_f + n_fp):
        logs, info = _config_logs(rng)
        if not logs:
            continue
        nrows = sum(len(tr.positions) for tr in logs)
        if j < n_f:
            _, rows, term, clauses, rp = _encode_case(logs)
            meta = dict(info, games=len(logs), rows=nrows)
            if term is not None:
                cs.add(term, meta)
            items.append((meta, term, clauses, rp))
            dist[info["order"]] = dist.get(info["order"], 0) + 1
        else:
            term, clauses, rp = _pipe_case(logs)
            meta = dict(info, games=len(logs), rows=nrows, rows_after=len(rp["impl_output"]))
            if term is not None:
                csp.add(term, meta)
            itemsp.append((meta, term, clauses, rp))
            distp[info["order"]] = distp.get(info["order"], 0) + 1
    _finish(run, cs, "configs_encode", items,
            "encode_games on lists mixing games of one opening under the stock piece counts and under a custom "
            "Config(size, pieces, capstones) (identical boards and side to move, different reserves), custom first or "
            "default first; non-trivial = every case", lambda m: True, dist)
    _finish(run, csp, "configs_pipeline", itemsp,
            "dedup_batch(encode_games(logs)) on such lists: rows that differ only in the reserve tokens must NOT merge; "
            "non-trivial = every case", lambda m: True, distp)


def search(run, broken):
    core.setup_impl(ext=True, shims=True)
    rng = run.rng
    for _ in range(150):
        logs = _gen_logs(rng, True, force_repeats=rng.random() < 0.5)
        if not logs:
            continue
        _, rows, term, clauses, rp = _encode_case(logs, _LAST["crossing"])
        if clauses:
            rp.update({"clause": clauses, "part": "encode_games", "oracle_violations": clauses})
            run.violation("encode_games-" + "+".join(sorted({c.split(':')[0] for c in clauses})), rp)
            return True
    for j in range(60):
        crossing = "deepcopy" if j % 3 == 2 else "pickle"
        logs = _buried_logs(rng, crossing)
        if not logs:
            continue
        _, rows, term, clauses, rp = _encode_case(logs, crossing)
        if clauses:
            rp.update({"clause": clauses, "part": "crossing_encode", "oracle_violations": clauses})
            run.violation("crossing_encode-" + "+".join(sorted({c.split(':')[0] for c in clauses})), rp)
            return True
    for _ in range(60):
        logs, hist = _history_logs(rng)
        if not logs:
            continue
        _, rows, term, clauses, rp = _encode_case(logs, None, hist)
        if clauses:
            rp.update({"clause": clauses, "part": "history_encode", "oracle_violations": clauses})
            run.violation("history_encode-" + "+".join(sorted({c.split(':')[0] for c in clauses})), rp)
            return True
    for _ in range(400):
        rows, style = _gen_batch(rng, True)
        term, clauses, rp = _dedup_case(rows)
        if clauses:
            rp.update({"clause": clauses, "part": "dedup", "oracle_violations": clauses})
            run.violation("dedup-" + "+".join(sorted({c.split(':')[0] for c in clauses})), rp)
            return True
    return False


def replay(run, rp):
    core.setup_impl(ext=True, shims=True)
    inp = rp["input"]
    if "batch" in inp:
        rows = [{"tokens": r["tokens"], "mask": r["mask"], "dense": [Fraction(*x) for x in r["dense"]],
                 "value": Fraction(*r["value"]), "label": Fraction(*r["label"])} for r in inp["batch"]]
        term, clauses, out = _dedup_case(rows)
        cs = core.Cases(ID, "replay", HEADER, CT_DEDUP, "chk_dedup", show="view_dedup", shard=1)
    else:
        logs = _cross([_mk_transcript(d) for d in inp["logs"]], inp.get("crossing"))
        if inp.get("pipeline"):
            term, clauses, out = _pipe_case(logs, inp.get("crossing"))
            cs = core.Cases(ID, "replay", HEADER, CT_ENC, "chk_pipe_m", show="view_pipe", shard=1)
        else:
            _, _, term, clauses, out = _encode_case(logs, inp.get("crossing"), inp.get("history"))
            cs = core.Cases(ID, "replay", HEADER, CT_ENC, "chk_enc_m", show="view_enc", shard=1)
    failing, shard_fail = [], []
    if term is not None:
        cs.add(term, {"replay": True})
        failing, shard_fail, _ = cs.run()
    return {"violates": bool(failing or shard_fail or clauses), "oracle_violations": clauses,
            "model_disagrees": bool(failing), "impl_output": out["impl_output"],
            "model_view": cs.model_view(term) if failing else None}


# ---- translator tie (T): the C12_source_* theorems quantify over functions REGENERATED FROM THE SOURCE; t12's
# correspondence validates the semantics library and the translation scheme on every run.
from . import t12 as _t12  # noqa: E402

MODEL_TARGETS = sorted(set(list(MODEL_TARGETS) + list(_t12.MODEL_TARGETS)))
TRUSTED_BASE = list(TRUSTED_BASE) + list(getattr(_t12, "TRUSTED_BASE", []))
_c12_correspondence = correspondence


def pregen(run):
    return _t12.pregen(run)


def correspondence(run):
    _c12_correspondence(run)
    _t12.correspondence(run)
