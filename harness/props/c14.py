"""C14 - PTN move and game notation round-trips (python/tak/ptn/ptn.py).

Correspondence (all comparisons happen inside Coq, model = coq/model/Ptn.v):
  unicode   the model's \\s, \\d tables and its partial \\w against the live `re` over all code points
  moves     ALL moves of sizes 3-8 (all_moves_for_size): format_move(m) and parse_move(format_move(m))
  wild      out-of-universe moves (coordinates/drops in -40..40, sums >= 10, negative): format_move only + parse
  strings   every string over the PTN alphabet + foreign characters up to length 3 (quick) / 4 (thorough);
            Coq enumerates the strings itself, the harness passes the sparse list of non-BadMove outcomes
  grammar   grammar-shaped strings to length 9, near-miss mutations of valid moves
  games     texts rendered from random legal games with random decoration, plus malformed variants
Model-Unspecified inputs are skipped and counted (the count is confirmed inside Coq)."""
import itertools
import json

from .. import core, takio
from ..core import cz, clist, copt, cstr, czlist

ID = "C14"
THEOREMS = [
    "C14_parse_format_move", "C14_format_denotes", "C14_parse_stable", "C14_parse_denotes", "C14_denotes_functional",
    "C14_parse_partition", "C14_unspecified_examples",
    "C14_rejects_empty", "C14_rejects_foreign", "C14_rejects_count_without_direction",
    "C14_rejects_drops_without_direction", "C14_rejects_count_mismatch", "C14_rejects_trailing",
    "C14_game_moves", "C14_game_nosplit", "C14_game_badmove", "C14_str_nat_value", "C14_glyph_tie", "C14_regex_tie",
    "C14_regex_ast_text", "C14_move_regex_matcher", "C14_result_regex_matcher", "C14_number_regex_matcher",
    "C14_suffix_regex_sub", "C14_comment_regex_sub", "C14_space_regex_match", "C14_space_regex_split",
    "C14_tag_regex_attempt", "C14_tag_regex_findall",
            "C14_source_format_move_eq", "C14_source_format_move_crashes", "C14_source_parse_format_move",
            "C14_source_regex_text", "C14_source_parse_move_eq", "C14_source_parse_move_no_crash", "C14_source_parse_game_eq", "C14_source_game_ok_modelled", "C14_source_parse_move_of_format", "C14_source_parse_move_denotes", "C14_source_parse_move_refuses"]
MODEL_TARGETS = ["model/Tak.vo", "model/Harness.vo", "model/Lit.vo", "model/Ptn.vo"]
TRUSTED_BASE = [
    "the regex semantics of spec/RegexSpec.v (standard declarative set-of-matches semantics + a printer to Python syntax; "
    "validated against Python's re by the exhaustive short-string sweep and the game texts of the correspondence): the regex "
    "texts of ptn.py are proved to be the printed AST terms, and match_move, is_result, is_move_number, strip_suffix and "
    "sub_comments are proved equal to those terms under that semantics (leftmost start is the only part of re's backtracking "
    "order relied on; every match used is proved unique at its start)",
    "re.split(\\s+) and re.findall(tag regex, re.M) are proved too (resplit with leftmost-longest, refindall2 with unique "
    "matches; the findall statement holds where scan_tags answers Some, i.e. where the \\w table applies); the flag re.M is "
    "not part of the regex text (it is part of the term in T14P, where the call is translated)",
    "Unicode classes \\s and \\d of the running interpreter equal the model's tables (checked over all 0x110000 code "
    "points on every run); \\w is modelled on ASCII, \\d and \\s only - a tag key holding another code point >= 128 is Unspecified",
    "str.split, dict(), chr, str(int), tuple/generator semantics as used by ptn.py (validated by the correspondence)",
]
ASSUMPTIONS = [
    "chr() outside 0..0x10FFFF (ValueError) and slides=None on a slide (TypeError) are outside the modelled domain of format_move",
    "Unspecified (skipped, counted): trailing stone letter (a1C), stone letter before a slide (Sa1>), drops with an implied "
    "count they do not add up to (a1>11); in games additionally a tag with an empty value and a non-ASCII tag key",
]

HEADER = """From Coq Require Import ZArith List Bool.
From TV Require Import model.Tak model.Lit model.Ptn.
Import ListNotations.
Open Scope Z_scope.
Inductive obs := OA (m : mv) | OB | OC.
Definition agree (r : ptn_result) (o : obs) : bool :=
  match r, o with Accept m, OA m' => mv_eqb m m' | Reject, OB => true | _, _ => false end.
Definition is_unspec (r : ptn_result) : bool := match r with Unspecified => true | _ => false end.
Definition ok1 (so : str * obs) : bool := is_unspec (parse_move (fst so)) || agree (parse_move (fst so)) (snd so).
Definition nunspec (l : list str) : Z := zlen (filter (fun s => is_unspec (parse_move s)) l).
Fixpoint strs (al : list Z) (n : nat) : list str :=
  match n with O => [[]] | S k => flat_map (fun c => map (cons c) (strs al k)) al end.
Fixpoint walk (ss : list str) (i : Z) (acc : list (Z * mv)) (u : Z) : option Z :=
  match ss with
  | [] => match acc with [] => Some u | _ => None end
  | s :: r =>
    let '(o, acc') := match acc with
                      | (j, m) :: a' => if j =? i then (OA m, a') else (OB, acc)
                      | [] => (OB, [])
                      end in
    match parse_move s with
    | Unspecified => walk r (i + 1) acc' (u + 1)
    | res => if agree res o then walk r (i + 1) acc' u else None
    end
  end.
Fixpoint walk_bad (ss : list str) (i : Z) (acc : list (Z * mv)) : list (str * ptn_result) :=
  match ss with
  | [] => []
  | s :: r =>
    let '(o, acc') := match acc with
                      | (j, m) :: a' => if j =? i then (OA m, a') else (OB, acc)
                      | [] => (OB, [])
                      end in
    match parse_move s with
    | Unspecified => walk_bad r (i + 1) acc'
    | res => if agree res o then walk_bad r (i + 1) acc' else (s, res) :: walk_bad r (i + 1) acc'
    end
  end.
Inductive gobs := GO (tags : list (str * str)) (ms : list mv) | GN | GB (t : str) | GC.
Definition tag_eqb (a b : str * str) : bool := str_eqb (fst a) (fst b) && str_eqb (snd a) (snd b).
Definition gagree (r : game_result) (o : gobs) : bool :=
  match r, o with
  | GameOk t m, GO t' m' => list_eqb tag_eqb t t' && list_eqb mv_eqb m m'
  | GameNoSplit, GN => true
  | GameBadMove t, GB t' => str_eqb t t'
  | _, _ => false
  end.
Definition sub_ranges (a b : list (Z * Z)) : bool :=
  forallb (fun r => existsb (fun q => (fst q <=? fst r) && (snd r <=? snd q)) b) a.
Definition disj_ranges (a b : list (Z * Z)) : bool :=
  forallb (fun r => forallb (fun q => (snd r <? fst q) || (snd q <? fst r)) b) a.
Definition range_eqb (a b : Z * Z) : bool := (fst a =? fst b) && (snd a =? snd b).
"""

PTN_ALPHABET = "CFS12345678abcdefgh<>+-"
FOREIGN = "i90 \n\uff11x"          # just outside the classes, blank, newline (\\Z vs $), a fullwidth digit, a letter
TYPES = {1: "PLACE_FLAT", 2: "PLACE_STANDING", 3: "PLACE_CAPSTONE", 4: "SLIDE_LEFT", 5: "SLIDE_RIGHT",
         6: "SLIDE_UP", 7: "SLIDE_DOWN"}


# --------------------------------------------------------------------------
# independent executable oracle of the property's statement (PTN standard), used to
# count Unspecified inputs, to locate the failing input inside a failing pack, and by search()
# --------------------------------------------------------------------------
def ref_format(x, y, t, slides):
    """canonical PTN text of a move of the universe"""
    if t <= 3:
        return {1: "", 2: "S", 3: "C"}[t] + "abcdefgh"[x] + str(y + 1)
    n = sum(slides)
    return ("" if n == 1 else str(n)) + "abcdefgh"[x] + str(y + 1) + {4: "<", 5: ">", 6: "+", 7: "-"}[t] + \
        ("".join(str(d) for d in slides) if len(slides) > 1 else "")


def ref_parse(s):
    """('A', (x, y, type, slides)) | 'B' (must refuse) | 'U' (standard takes no position)"""
    i, n = 0, len(s)
    stone = count = direction = trail = None
    if i < n and s[i] in "CFS":
        stone = s[i]; i += 1
    if i < n and s[i] in "12345678":
        count = int(s[i]); i += 1
    if not (i < n and s[i] in "abcdefgh"):
        return "B"
    x = "abcdefgh".index(s[i]); i += 1
    if not (i < n and s[i] in "12345678"):
        return "B"
    y = int(s[i]) - 1; i += 1
    if i < n and s[i] in "<>+-":
        direction = s[i]; i += 1
    drops = []
    while i < n and s[i] in "12345678":
        drops.append(int(s[i])); i += 1
    if i < n and s[i] in "CFS":
        trail = s[i]; i += 1
    if i != n:
        return "B"
    if direction is None:
        if count is not None or drops:
            return "B"
        if trail is not None:
            return "U"
        return ("A", (x, y, {None: 1, "F": 1, "S": 2, "C": 3}[stone], None))
    t = {"<": 4, ">": 5, "+": 6, "-": 7}[direction]
    if count is not None and drops and sum(drops) != count:
        return "B"
    if stone is not None or trail is not None:
        return "U"
    if count is None and drops and sum(drops) != 1:
        return "U"
    k = 1 if count is None else count
    return ("A", (x, y, t, tuple(drops) if drops else (k,)))


def mv_tuple(m):
    return (m.x, m.y, m.type.value, None if m.slides is None else tuple(m.slides))


def observe_parse(ptn, s):
    """run the implementation's parse_move: ('A', move) | 'B' | ('C', exception class)"""
    import tak
    try:
        m = ptn.parse_move(s)
    except ptn.BadMove:
        return "B"
    except Exception as e:  # noqa
        return ("C", type(e).__name__)
    ok = (isinstance(m, tak.Move) and type(m.x) is int and type(m.y) is int and isinstance(m.type, tak.MoveType)
          and (m.slides is None or (isinstance(m.slides, tuple) and all(type(d) is int for d in m.slides))))
    return ("A", m) if ok else ("C", "bad-value:" + repr(m)[:80])


def c_obs(o):
    if o == "B":
        return "OB"
    if o[0] == "A":
        return f"(OA {takio.c_move(o[1])})"
    return "OC"


def j_obs(o):
    if o == "B":
        return "BadMove"
    if o[0] == "A":
        return {"accept": takio.j_move(o[1])}
    return {"crash": o[1]}


def obs_vs_ref(o, r):
    """True when the implementation's observation contradicts the reference (Unspecified never does)"""
    if r == "U":
        return False
    if r == "B":
        return o != "B"
    return not (o != "B" and o[0] == "A" and mv_tuple(o[1]) == r[1])


def _codes(s):
    return [ord(c) for c in s]


def _corpus():
    """corpus/C14.json: past disagreements (the seeded mutants' minimal inputs), run first"""
    f = core.VERIF / "corpus" / "C14.json"
    d = json.loads(f.read_text(encoding="utf-8")) if f.exists() else {}
    return {"move_texts": list(d.get("move_texts", [])), "games": list(d.get("games", []))}


def _run(cs):
    """cs.run(), repeated once when a shard was killed from outside (status -9: memory pressure on a shared machine)"""
    failing, shard_fail, ns = cs.run()
    if any("status -9" in str(f.get("error", "")) for f in shard_fail):
        core.log(f"[{ID}] {cs.name}: {len(shard_fail)} shard(s) killed, running the family again")
        failing, shard_fail, ns = cs.run()
    return failing, shard_fail, ns


# --------------------------------------------------------------------------
# families
# --------------------------------------------------------------------------
def _unicode_cases(run):
    import re

    def ranges(pat):
        rx = re.compile(pat)
        out, start = [], None
        for c in range(0x110000):
            if rx.match(chr(c)):
                if start is None:
                    start = c
            elif start is not None:
                out.append((start, c - 1)); start = None
        if start is not None:
            out.append((start, 0x10FFFF))
        return out

    S, D, W = ranges(r"\s"), ranges(r"\d"), ranges(r"\w")
    cr = lambda l: clist([f"({a}, {b})" for a, b in l])  # noqa: E731
    cs = core.Cases(ID, "unicode", HEADER, "list (Z * Z) * list (Z * Z) * list (Z * Z)",
                    "fun c => let '(s, d, w) := c in list_eqb range_eqb s space_ranges && list_eqb range_eqb d digit_ranges "
                    "&& forallb (fun n => let k := Z.of_nat n in match word_class k with Some b => Bool.eqb b (in_ranges k w) | None => false end) (seq 0 128) "
                    "&& sub_ranges digit_ranges w && disj_ranges space_ranges w",
                    show="fun c => let '(s, d, w) := c in (list_eqb range_eqb s space_ranges, list_eqb range_eqb d digit_ranges, sub_ranges digit_ranges w, disj_ranges space_ranges w)",
                    shard=1)
    cs.add(f"({cr(S)}, {cr(D)}, {cr(W)})", {"kind": "unicode", "space_ranges": S, "n_digit_ranges": len(D), "n_word_ranges": len(W)})
    return cs


def _all_moves():
    import tak
    out = []
    for n in range(3, 9):
        for m in tak.all_moves_for_size(n):
            out.append((n, m))
    return out


def _observe_format(ptn, m):
    try:
        s = ptn.format_move(m)
    except Exception as e:  # noqa
        return None, type(e).__name__
    if not isinstance(s, str):
        return None, "not-a-str"
    return s, None


MOVE_CHECK = ("fun l => forallb (fun c => let '(m, s, o) := c in match s with Some s' => str_eqb (format_move m) s' && agree (parse_move s') o "
              "| None => false end) l")
MOVE_SHOW = ("fun l => map (fun c => let '(m, s, o) := c in (m, format_move m, parse_move (format_move m))) (filter (fun c => let '(m, s, o) := c in "
             "negb (match s with Some s' => str_eqb (format_move m) s' && agree (parse_move s') o | None => false end)) l)")


def _move_cases(run, name, moves, pack=400, shard=10):
    """moves: list of (size-or-None, tak.Move).  One case = a pack of (move, formatted text, parse observation)."""
    from tak.ptn import ptn
    cs = core.Cases(ID, name, HEADER, "list (mv * option str * obs)", MOVE_CHECK, show=MOVE_SHOW, shard=shard)
    for k in range(0, len(moves), pack):
        items, metas = [], []
        for n, m in moves[k:k + pack]:
            s, err = _observe_format(ptn, m)
            o = observe_parse(ptn, s) if s is not None else ("C", "format:" + err)
            items.append(f"({takio.c_move(m)}, {copt(None if s is None else cstr(s))}, {c_obs(o)})")
            metas.append({"size": n, "move": takio.j_move(m), "formatted": s, "format_error": err, "parsed": j_obs(o)})
        cs.add(clist(items), {"kind": name, "first": k, "items": metas})
    return cs


def _wild_moves(rng, k):
    import tak
    out = []
    types = list(tak.MoveType)
    for _ in range(k):
        t = rng.choice(types)
        x, y = rng.randint(-40, 40), rng.randint(-40, 40)
        if rng.random() < 0.5:
            x, y = rng.randint(-1, 9), rng.randint(-1, 9)
        if t.is_slide() or rng.random() < 0.2:
            mode = rng.random()
            if mode < 0.4:
                sl = tuple(rng.randint(1, 8) for _ in range(rng.randint(0, 9)))     # sums 0..72: str(pickup) >= 10
            elif mode < 0.7:
                sl = tuple(rng.randint(-40, 40) for _ in range(rng.randint(0, 10)))
            else:
                sl = tuple(rng.choice([0, 1, 1, 2, 9, 10, 11, -1]) for _ in range(rng.randint(1, 4)))
        else:
            sl = None
        out.append((None, tak.Move(x, y, t, sl)))
    return out


def _string_blocks(run, maxlen):
    """every string over alphabet+foreign of length <= maxlen; blocks = (length, prefix)"""
    from tak.ptn import ptn
    al = PTN_ALPHABET + FOREIGN
    cs = core.Cases(ID, "strings", HEADER, "list Z * nat * str * list (Z * mv) * Z",
                    "fun c => let '(al, n, p, acc, u) := c in match walk (map (app p) (strs al n)) 0 acc 0 with Some k => k =? u | None => false end",
                    show="fun c => let '(al, n, p, acc, u) := c in (walk_bad (map (app p) (strs al n)) 0 acc, nunspec (map (app p) (strs al n)))",
                    shard=1)
    blocks = []
    for L in range(0, maxlen + 1):
        if L <= 3:
            blocks.append((L, ""))
        else:
            blocks += [(L, c) for c in al]
    total = nun = nacc = 0
    crashes = []
    for L, p in blocks:
        acc, u = [], 0
        for i, tail in enumerate(itertools.product(al, repeat=L - len(p))):
            s = p + "".join(tail)
            o = observe_parse(ptn, s)
            total += 1
            if ref_parse(s) == "U":
                u += 1
            if o != "B":
                if o[0] == "A":
                    acc.append(f"({i}, {takio.c_move(o[1])})")
                    nacc += 1
                else:
                    crashes.append((s, o[1]))
        nun += u
        cs.add(f"({cstr(al)}, {L - len(p)}%nat, {cstr(p)}, {clist(acc)}, {u})",
               {"kind": "strings", "length": L, "prefix": p, "alphabet": al, "accepted": len(acc), "unspecified": u})
    return cs, total, nacc, nun, crashes


def _grammar_strings(rng, quick):
    """grammar-shaped strings (every optional part present/absent) up to length 9"""
    out = set()
    stones = ["", "C", "F", "S"]
    counts = [""] + list("12345678")
    dirs = ["", "<", ">", "+", "-"]
    trails = ["", "C", "F", "S"]
    squares = ["a1", "h8", "c5"] if quick else ["a1", "h8", "c5", "e3", "b7"]
    drops2 = [""] + list("12345678") + [a + b for a in "12345678" for b in "12345678"]
    for st in stones:
        for ct in counts:
            for sq in squares:
                for d in dirs:
                    for tr in trails:
                        for dr in (drops2 if (not quick or sq == "a1") else ["", "1", "2", "11", "12", "21", "8"]):
                            out.add(st + ct + sq + d + dr + tr)
    n_long = 3000 if quick else 120000
    for _ in range(n_long):
        st = rng.choice(stones) if rng.random() < 0.4 else ""
        tr = rng.choice(trails) if rng.random() < 0.2 else ""
        ct, d = rng.choice(counts), rng.choice(dirs + ["<", ">", "+", "-"])
        sq = rng.choice("abcdefgh") + rng.choice("12345678")
        room = 9 - len(st + ct + sq + d + tr)
        k = rng.randint(0, max(0, room))
        if ct and rng.random() < 0.6 and k:
            # drops that add up to the count (valid long slides) or miss it by one
            tgt = int(ct) + rng.choice([0, 0, 0, 1, -1])
            parts, left = [], tgt
            while left > 0 and len(parts) < k:
                p = rng.randint(1, min(8, left)); parts.append(p); left -= p
            dr = "".join(map(str, parts))
        else:
            dr = "".join(rng.choice("12345678") for _ in range(k))
        s = st + ct + sq + d + dr + tr
        if len(s) <= 9:
            out.add(s)
    return sorted(out)


MUT_CHARS = list(PTN_ALPHABET) + list("i90 \n\t.'!?xA/") + ["\uff11", "\u0663", "\xb9", "\xa0", "\U0001d7d2"]


def _mutations(rng, base, k):
    """near-misses: delete / duplicate / swap / replace / insert one or two characters of valid move texts"""
    out = set()
    for _ in range(k):
        s = rng.choice(base)
        for _ in range(rng.choice([1, 1, 2])):
            op = rng.randint(0, 4)
            if not s:
                op = 4
            i = rng.randrange(len(s)) if s else 0
            if op == 0:
                s = s[:i] + s[i + 1:]
            elif op == 1:
                s = s[:i] + s[i] + s[i:]
            elif op == 2 and len(s) > 1:
                j = rng.randrange(len(s) - 1)
                s = s[:j] + s[j + 1] + s[j] + s[j + 2:]
            elif op == 3:
                s = s[:i] + rng.choice(MUT_CHARS) + s[i + 1:]
            else:
                i = rng.randint(0, len(s))
                s = s[:i] + rng.choice(MUT_CHARS) + s[i:]
        out.add(s)
    for s in base[:200]:
        out.add(s + "\n"); out.add("\n" + s); out.add(s + " "); out.add(s + s); out.add(s.upper()); out.add(s + "'")
    return sorted(out)


def _explicit_cases(run, name, strings, pack=300, shard=8):
    from tak.ptn import ptn
    cs = core.Cases(ID, name, HEADER, "list (str * obs) * Z",
                    "fun c => forallb ok1 (fst c) && (nunspec (map fst (fst c)) =? snd c)",
                    show="fun c => (map (fun so => (fst so, parse_move (fst so))) (filter (fun so => negb (ok1 so)) (fst c)), nunspec (map fst (fst c)))",
                    shard=shard)
    nun = nacc = 0
    crashes = []
    for k in range(0, len(strings), pack):
        items, metas, u = [], [], 0
        for s in strings[k:k + pack]:
            o = observe_parse(ptn, s)
            r = ref_parse(s)
            u += r == "U"
            nacc += (o != "B" and o[0] == "A" and r != "U")
            if o != "B" and o[0] == "C":
                crashes.append((s, o[1]))
            items.append(f"({cstr(s)}, {c_obs(o)})")
            metas.append({"text": s, "impl": j_obs(o), "ref": r if isinstance(r, str) else {"accept": list(r[1])}})
        nun += u
        cs.add(f"({clist(items)}, {u})", {"kind": name, "first": k, "items": metas})
    return cs, nun, nacc, crashes


# ----- games ---------------------------------------------------------------
WS = [" ", " ", " ", "\n", "\n", "\t", "\r", "\x0b", "\x0c", "\x1c", "\x1f", "\x85", "\xa0", "\u1680", "\u2003", "\u2028", "\u202f", "\u3000"]
COMMENT_CHARS = list("abc XYZ 019 .,;!?'-+<>[]\"/\\") + ["\n", "{", "\xe9", "\u2003", "\u0663"]
HALVES = ["0", "R", "F", "1", "1/2"]


def _random_game(rng, size, plies):
    import tak
    pos = tak.Position.from_config(tak.Config(size=size))
    ms = []
    for _ in range(plies):
        if pos.winner()[0] is not None or pos.winner()[1] is not None:
            break
        cand = pos.all_moves()
        rng.shuffle(cand)
        for m in cand:
            try:
                nxt = pos.move(m)
            except tak.IllegalMove:
                continue
            ms.append(m); pos = nxt
            break
        else:
            break
    return ms


def _rand_sep(rng, allow_empty=False):
    """a separator as the list of its atoms: ('w', char) | ('c', comment body)"""
    k = rng.choice([0, 1, 1, 1, 2, 3]) if allow_empty else rng.choice([1, 1, 1, 2, 3])
    out = []
    for _ in range(k):
        if rng.random() < 0.2:
            out.append(("c", "".join(rng.choice(COMMENT_CHARS) for _ in range(rng.randint(1, 12)))))
        else:
            out.append(("w", rng.choice(WS)))
    return out


def _sep_text(sep):
    return "".join(a[1] if a[0] == "w" else "{" + a[1] + "}" for a in sep)


def _render_game(rng, size, moves, fmt):
    """a member of the decoration class of the game_moves theorem, as structure and as text: tags, then tokens
    (moves with suffixes, move numbers, result markers, --) separated by non-empty runs of white space / brace comments.
    Tokens: ('m', move, suffix) | ('n', number) | ('r', a, b) | ('d',)"""
    names = ["Size", "Player1", "Player2", "Date", "Result", "Event", "Komi", "x_9", "T1me"]
    rng.shuffle(names)
    tags = [("Size", str(size))] if rng.random() < 0.8 else []
    for k in names[:rng.randint(0, 5)]:
        if k != "Size":
            v = "".join(rng.choice(list("abc XYZ 01.-/'!?{}[]") + ["\u00e9", "\u30bf", "\u2003"]) for _ in range(rng.randint(1, 10)))
            tags.append((k, v))
    head = "\n".join(f'[{k} "{v}"]' for k, v in tags)
    toks = []
    for i, m in enumerate(moves):
        if i % 2 == 0 and rng.random() < 0.8:
            toks.append(("n", i // 2 + 1))
        if rng.random() < 0.03:
            toks.append(("d",))
        toks.append(("m", m, "".join(rng.choice("'!?") for _ in range(rng.choice([0, 0, 0, 1, 2])))))
    if rng.random() < 0.6:
        toks.append(("r", rng.choice(HALVES), rng.choice(HALVES)))
    lead = _rand_sep(rng, True)
    body = [(t, _rand_sep(rng, i == len(toks) - 1)) for i, t in enumerate(toks)]

    def tok_text(t):
        return {"m": lambda: fmt(t[1]) + t[2], "n": lambda: f"{t[1]}.", "r": lambda: t[1] + "-" + t[2], "d": lambda: "--"}[t[0]]()

    tail = _sep_text(lead) + "".join(tok_text(t) + _sep_text(sp) for t, sp in body)
    return head + "\n\n" + tail, tags, lead, body


def j_structure(tags, lead, body):
    def jt(t):
        return ["m", takio.j_move(t[1]), t[2]] if t[0] == "m" else list(t)
    return {"tags": [list(x) for x in tags], "lead": [list(a) for a in lead], "body": [[jt(t), [list(a) for a in sp]] for t, sp in body]}


def text_of_structure(st, fmt):
    """render a stored structure again with the formatter of the tree under test"""
    def tok_text(t):
        if t[0] == "m":
            return fmt(takio.mk_move(t[1])) + t[2]
        return {"n": lambda: f"{t[1]}.", "r": lambda: t[1] + "-" + t[2], "d": lambda: "--"}[t[0]]()
    head = "\n".join(f'[{k} "{v}"]' for k, v in st["tags"])
    return head + "\n\n" + _sep_text(st["lead"]) + "".join(tok_text(t) + _sep_text(sp) for t, sp in st["body"])


def c_sep(sep):
    return clist([f"SWs {ord(a[1])}" if a[0] == "w" else f"SCom {cstr(a[1])}" for a in sep])


def c_tok(t):
    if t[0] == "m":
        return f"TMove {takio.c_move(t[1])} {cstr(t[2])}"
    if t[0] == "n":
        return f"TNum {cz(t[1])}"
    if t[0] == "r":
        return f"TRes {cstr(t[1])} {cstr(t[2])}"
    return "TDash"


def c_structure(tags, lead, body):
    ct = clist([f"({cstr(k)}, {cstr(v)})" for k, v in tags])
    cb = clist([f"({c_tok(t)}, {c_sep(sp)})" for t, sp in body])
    return f"{ct}, {c_sep(lead)}, {cb}"


BAD_TOKENS = ["zz", "a9", "i1", "3a1", "a1>>", "2-0", "1-", "1/2", "{}", "}", "{", "!!", "a1C", "Sa1>", "a1>11", "1/2-1/2", "0-1",
              "R-0", "F-0", "1/2-1", "12", ".", "1..", "\u0663.", "\uff11\uff12.", "a1\u00a0b1", "--", "---", "a1--", "3a1+111", "3a1+12",
              "1.a1", "a1.", "Ca1?!", "'a1", "1e.", "\u00b9."]


def _malform(rng, text):
    k = rng.randint(0, 9)
    if "\n\n" not in text and k in (2, 3, 4, 5):
        k = 7
    if k == 0:
        return text.replace("\n\n", "\n", 1)
    if k == 1:
        return text.replace("\n\n", " ", 1)
    if k in (2, 3, 4):
        i = text.find("\n\n") + 2
        parts = text[i:].split(" ")
        j = rng.randint(0, len(parts))
        parts.insert(j, rng.choice(BAD_TOKENS))
        return text[:i] + " ".join(parts)
    if k == 5:
        head, tail = text.split("\n\n", 1)
        lines = head.split("\n") if head else []
        extra = rng.choice(['[Size "7"]', '[Empty ""]', '[Size "5"] ', ' [Site "x"]', '[Two words "x"]', '[K "a"b"]', '[K "multi\nline"]',
                            '[\u00e9 "x"]', '[K\u0663 "x"]', 'junk', '[K "v"]x', '[ "v"]', '[K  "v"]', '[K "v"', '[Result "1-0"][X "y"]'])
        lines.insert(rng.randint(0, len(lines)), extra)
        return "\n".join(lines) + "\n\n" + tail
    if k == 6 and text:
        i = rng.randrange(len(text))
        return text[:i] + text[i + 1:]
    if k == 7:
        i = rng.randint(0, len(text))
        return text[:i] + rng.choice(MUT_CHARS + ["{", "}", "\n\n", '"', "[", "]"]) + text[i:]
    if k == 8:
        return text + rng.choice(["", "\n", " {unclosed", "{}", " {a}{b} ", "\n\n", " 1/2-1/2\n"])
    return rng.choice(["", "\n\n", "\n", "a1", "\n\na1", "\n\n\n a1 ", "[A \"b\"]\n\n", "x\n\n{", "\n\n{}}", "\n\n{a{b}c}"])


def observe_game(ptn, text):
    import tak
    try:
        g = ptn.PTN.parse(text)
    except ptn.BadMove as e:
        return ("GB", e.move if isinstance(getattr(e, "move", None), str) else None)
    except ValueError:
        return ("GN",)
    except Exception as e:  # noqa
        return ("GC", type(e).__name__)
    if not (isinstance(g.tags, dict) and isinstance(g.moves, list) and all(isinstance(m, tak.Move) for m in g.moves)
            and all(isinstance(k, str) and isinstance(v, str) for k, v in g.tags.items())):
        return ("GC", "bad-value")
    return ("GO", list(g.tags.items()), list(g.moves))


def c_gobs(o):
    if o[0] == "GO":
        return f"(GO {clist([f'({cstr(k)}, {cstr(v)})' for k, v in o[1]])} {clist([takio.c_move(m) for m in o[2]])})"
    if o[0] == "GN":
        return "GN"
    if o[0] == "GB" and o[1] is not None:
        return f"(GB {cstr(o[1])})"
    return "GC"


def j_gobs(o):
    if o[0] == "GO":
        return {"tags": o[1], "moves": [takio.j_move(m) for m in o[2]]}
    if o[0] == "GB":
        return {"BadMove": o[1]}
    return {"error": "ValueError(no blank line)" if o[0] == "GN" else o[1]}


GAME_CHECK = "fun c => gagree (parse_game (fst c)) (snd c)"
GAME_UNSPEC = "fun c => match parse_game (fst c) with GameUnspecified => true | _ => false end"
GAME_SHOW = "fun c => parse_game (fst c)"


def _game_texts(run):
    from tak.ptn import ptn
    rng = run.rng
    n_games = 200 if run.quick else 5000
    texts = []
    for g in range(n_games):
        size = rng.choice([3, 4, 5, 5, 6, 6, 7, 8])
        ms = _random_game(rng, size, rng.randint(0, 10 if run.quick else 60) if g % 5 else rng.randint(20, 90))
        text, tags, lead, body = _render_game(rng, size, ms, ptn.format_move)
        texts.append(("rendered", text, {"tags": tags, "moves": [takio.j_move(m) for m in ms],
                                         "structure": c_structure(tags, lead, body), "rendered_from": j_structure(tags, lead, body)}))
        for _ in range(2 if run.quick else 1):
            t2 = _malform(rng, text)
            if rng.random() < 0.3:
                t2 = _malform(rng, t2)
            texts.append(("malformed", t2, None))
    return texts


def _game_cases(run, name, texts, check, shard=25):
    cs = core.Cases(ID, name, HEADER, "str * gobs", check, show=GAME_SHOW, shard=shard)
    for kind, text, obs, extra in texts:
        exp = None if extra is None else {k: v for k, v in extra.items() if k != "structure"}
        cs.add(f"({cstr(text)}, {c_gobs(obs)})", {"kind": kind, "text": text, "impl": j_obs_game(obs), "expected": exp})
    return cs


def j_obs_game(o):
    return j_gobs(o)


# ----- histories: the answer of PTN.parse must be a function of the TEXT, whatever happened before ----------
MUTATIONS = ["truncate", "append", "retag", "clear"]


def _fresh_copy(text):
    """an equal str that is not the same object"""
    return (text + "x")[:-1]


def _mutate(obj, how, rng_val):
    """edit a returned PTN record in place, the way a caller extending / trimming a game would"""
    import tak
    try:
        if how == "truncate":
            del obj.moves[rng_val % (len(obj.moves) + 1):]
        elif how == "append":
            obj.moves.append(tak.Move(rng_val % 3, (rng_val // 3) % 3))
        elif how == "retag":
            obj.tags["Size"] = "6"
            obj.tags["Edited"] = "yes"
        elif how == "clear":
            obj.tags.clear()
            del obj.moves[:]
        return True
    except Exception:  # noqa  (an immutable record cannot be edited: nothing to test)
        return False


def run_history(ptn, ops):
    """ops: list of ["parse", text] | ["parse_copy", text] | ["mutate", how, n]; the observation of the LAST parse"""
    last_obj, last_obs = None, None
    for op in ops:
        if op[0] in ("parse", "parse_copy"):
            text = op[1] if op[0] == "parse" else _fresh_copy(op[1])
            try:
                last_obj = ptn.PTN.parse(text)
            except Exception:  # noqa
                last_obj = None
            last_obs = _observe_obj(ptn, last_obj, text)
        elif op[0] == "mutate" and last_obj is not None:
            _mutate(last_obj, op[1], op[2])
    return last_obs


def _observe_obj(ptn, obj, text):
    import tak
    if obj is None:
        return observe_game(ptn, text)          # an exception: observe it again the ordinary way
    g = obj
    if not (isinstance(g.tags, dict) and isinstance(g.moves, list) and all(isinstance(m, tak.Move) for m in g.moves)
            and all(isinstance(k, str) and isinstance(v, str) for k, v in g.tags.items())):
        return ("GC", "bad-value")
    return ("GO", list(g.tags.items()), list(g.moves))


def _histories(run, texts):
    """histories over parseable texts: parse - edit the returned record - parse again (same str / equal copy);
    parse(a) parse(b) parse(a); parse(a) - edit - parse(b)"""
    rng = run.rng
    out = []
    for i, a in enumerate(texts):
        b = texts[(i + 1) % len(texts)]
        how = MUTATIONS[i % len(MUTATIONS)]
        n = rng.randint(0, 9)
        out.append(("edit-then-same", [["parse", a], ["mutate", how, n], ["parse", a]], a))
        out.append(("edit-then-copy", [["parse", a], ["mutate", how, n], ["parse_copy", a]], a))
        out.append(("a-b-a", [["parse", a], ["parse", b], ["parse_copy", a]], a))
        out.append(("edit-a-then-b", [["parse", a], ["mutate", how, n], ["parse", b]], b))
    return out


# --------------------------------------------------------------------------
# reference oracle for games (independent of the implementation and of the Coq model)
# --------------------------------------------------------------------------
def ref_game(text):
    """('GO', tags, moves as tuples) | ('GN',) | ('GB', tok) | ('GU',)"""
    import unicodedata
    i = text.find("\n\n")
    if i < 0:
        return ("GN",)
    head, tail = text[:i], text[i + 2:]
    # comments
    out, j = [], 0
    while j < len(tail):
        if tail[j] == "{":
            e = tail.find("}", j + 1)
            if e > j + 1:
                out.append(" "); j = e + 1
                continue
        out.append(tail[j]); j += 1
    toks = "".join(out).split()          # str.split() splits on the same Unicode white space as \s
    moves, unspec = [], False
    for t in toks:
        if t == "--":
            continue
        if "-" in t:
            a, _, b = t.partition("-")
            if a in HALVES and b in HALVES:
                continue
        if len(t) >= 2 and t[-1] == "." and all(unicodedata.category(c) == "Nd" for c in t[:-1]):
            continue
        t = t.rstrip("'!?")
        r = ref_parse(t)
        if r == "B":
            return ("GU",) if unspec else ("GB", t)
        if r == "U":
            unspec = True
            continue
        moves.append(r[1])
    if unspec:
        return ("GU",)
    tags = {}
    lines = head.split("\n")
    k = 0
    while k < len(lines):
        ln = lines[k]
        k += 1
        if not ln.startswith("["):
            continue
        j = 1
        while j < len(ln) and (ln[j] == "_" or ln[j].isalnum()):
            if ord(ln[j]) >= 128 and unicodedata.category(ln[j]) != "Nd":
                return ("GU",)
            j += 1
        if j < len(ln) and ord(ln[j]) >= 128 and not ln[j].isspace():
            return ("GU",)      # a code point whose \w class the model does not know
        if j == 1 or ln[j:j + 2] != ' "':
            continue
        rest = "\n".join([ln[j + 2:]] + lines[k:])
        e = rest.find('"')
        if e < 0:
            continue
        after = rest[e + 1:]
        if not (after.startswith("]") and (len(after) == 1 or after[1] == "\n")):
            continue
        if e == 0:
            return ("GU",)      # empty value
        tags[ln[1:j]] = rest[:e]
        k += rest[:e].count("\n")
    return ("GO", list(tags.items()), moves)


def game_vs_ref(o, r):
    if r[0] == "GU":
        return False
    if r[0] == "GN":
        return o[0] != "GN"
    if r[0] == "GB":
        return not (o[0] == "GB" and o[1] == r[1])
    return not (o[0] == "GO" and o[1] == r[1] and [mv_tuple(m) for m in o[2]] == r[2])


# --------------------------------------------------------------------------
def _report_pack(run, cs, meta, clause, keyf):
    """a failing pack: find the concrete inputs with the reference oracle; fall back to the model's view"""
    hits = []
    for it in meta["items"]:
        if "move" in it:
            m = it["move"]
            want = None
            tv = takio.mk_move(m)
            if m["slides"] is None or (all(1 <= d <= 8 for d in m["slides"]) and 1 <= sum(m["slides"]) <= 8 and 0 <= m["x"] < 8 and 0 <= m["y"] < 8):
                if (not tv.type.is_slide() and m["slides"] is None) or (tv.type.is_slide() and m["slides"]):
                    if 0 <= m["x"] < 8 and 0 <= m["y"] < 8:
                        want = ref_format(m["x"], m["y"], tv.type.value, m["slides"])
            if want is not None and (it["formatted"] != want or it["parsed"] != {"accept": m}):
                hits.append(dict(it, canonical_text=want))
        else:
            r = it["ref"]
            impl = it["impl"]
            if r == "U":
                continue
            if (r == "B") != (impl == "BadMove") or (r != "B" and impl != {"accept": _ref_jmove(r["accept"])}):
                hits.append(it)
    view = cs.model_view(cs.terms[cs.metas.index(meta)])
    if not hits:
        run.violation(keyf(meta, None), {"clause": clause, "pack": {k: v for k, v in meta.items() if k != "items"},
                                         "model_view_of_disagreeing_items": view,
                                         "note": "model and implementation disagree inside this pack; the reference oracle sees no difference"})
    for h in hits[:5]:
        run.violation(keyf(meta, h), {"clause": clause, "input": h, "model_view_of_disagreeing_items": view[-1500:] if view else None})


def _ref_jmove(t):
    x, y, ty, sl = t
    return {"x": x, "y": y, "type": TYPES[ty], "slides": None if sl is None else list(sl)}


def correspondence(run):
    core.setup_impl()
    import tak
    from tak.ptn import ptn
    rng = run.rng
    unspec_total = {}

    # 0. unicode tables
    cs = _unicode_cases(run)
    failing, shard_fail, ns = _run(cs)
    run.oblige(f"tie:unicode classes of re (\\s, \\d exact; \\w on ASCII) ({ns} shards)", not shard_fail and not failing,
               str(shard_fail or [cs.model_view(cs.terms[0])])[:1500])
    run.count(3, 0, "\\s, \\d range tables of the live re module over all code points compared with the model's tables", [], label="unicode")

    # 1. all moves of sizes 3-8
    allm = _all_moves()
    cs = _move_cases(run, "moves", allm)
    failing, shard_fail, ns = _run(cs)
    run.oblige(f"correspondence:moves ({ns} shards)", not shard_fail, str(shard_fail)[:1500])
    dist = {}
    for n, m in allm:
        dist[f"size{n}"] = dist.get(f"size{n}", 0) + 1
    run.count(len(allm), sum(1 for _, m in allm if m.type.is_slide() and len(m.slides) > 1),
              "every move of all_moves_for_size(3..8): format_move(m) equals the model's text and parse_move(format_move(m)) "
              "equals the model's result (exhaustive); non-trivial = slides with >= 2 drops",
              [{"move": takio.j_move(allm[700][1]), "text": ptn.format_move(allm[700][1])}], dist, label="moves")
    run.extra["exhaustive_moves"] = len(allm)
    for meta in failing[:6]:
        _report_pack(run, cs, meta, "format then parse yields the same move / the text denotes what the standard says",
                     lambda me, h: "move:" + (json.dumps(h["move"], sort_keys=True) if h else f"pack{me['first']}"))

    # 1b. out-of-universe moves through format_move
    wild = _wild_moves(rng, 2000 if run.quick else 40000)
    cs = _move_cases(run, "wild", wild)
    failing, shard_fail, ns = _run(cs)
    run.oblige(f"correspondence:wild-moves ({ns} shards)", not shard_fail, str(shard_fail)[:1500])
    run.count(len(wild), sum(1 for _, m in wild if m.slides and (sum(m.slides) >= 10 or sum(m.slides) < 0)),
              "random moves outside the universe (coordinates and drops in -40..40, up to 10 drops): format_move text and the parse of it; "
              "non-trivial = pickup printed with >= 2 characters", [{"move": takio.j_move(wild[0][1])}], label="wild")
    for meta in failing[:6]:
        _report_pack(run, cs, meta, "format_move / parse_move differ from the model outside the move universe",
                     lambda me, h: "wild:" + (json.dumps(h["move"], sort_keys=True) if h else f"pack{me['first']}"))

    # 2. every string up to a length bound
    maxlen = 3 if run.quick else 4
    cs, total, nacc, nun, crashes = _string_blocks(run, maxlen)
    failing, shard_fail, ns = _run(cs)
    run.oblige(f"correspondence:strings<= {maxlen} ({ns} blocks)", not shard_fail, str(shard_fail)[:1500])
    run.count(total, nacc, f"every string of length <= {maxlen} over {PTN_ALPHABET!r} + {FOREIGN!r}: Accept move / BadMove compared (Coq enumerates the "
              "strings, the harness passes the non-BadMove outcomes); non-trivial = accepted by the implementation",
              [{"text": "3a1", "impl": j_obs(observe_parse(ptn, "3a1"))}], {"accepted": nacc, "unspecified_skipped": nun}, label="strings")
    unspec_total["strings"] = nun
    for s, cls in crashes[:5]:
        run.violation("crash:" + s, {"clause": "text that is not a PTN move is refused with the parser's own error",
                                     "input": s, "impl": {"crash": cls}})
    for meta in failing:
        al, L, p = meta["alphabet"], meta["length"], meta["prefix"]
        hits = []
        for tail in itertools.product(al, repeat=L - len(p)):
            s = p + "".join(tail)
            o = observe_parse(ptn, s)
            if obs_vs_ref(o, ref_parse(s)):
                hits.append({"text": s, "impl": j_obs(o), "ref": ref_parse(s)})
                if len(hits) >= 5:
                    break
        view = cs.model_view(cs.terms[cs.metas.index(meta)])
        if not hits:
            run.violation(f"strings-block:{L}:{p}", {"clause": "parse_move differs from the model in this block", "block": meta,
                                                     "model_view_of_disagreeing_items": view[-3000:] if view else None})
        for h in hits:
            run.violation("text:" + h["text"], {"clause": "the text denotes the square, stone kind, direction and drops the standard says / non-moves are refused",
                                                "input": h, "model_view_of_disagreeing_items": view[-1500:] if view else None})

    # 3. grammar-shaped strings to length 9, near-miss mutations
    gs = _grammar_strings(rng, run.quick)
    base = [ptn.format_move(m) for _, m in rng.sample(allm, 1500)]
    muts = _corpus()["move_texts"] + _mutations(rng, base, 4000 if run.quick else 80000)
    for name, strings, rule in (("grammar", gs, "grammar-shaped strings ([stone][count]file rank[dir][drops][stone]) up to length 9"),
                                ("mutations", muts, "near-miss mutations (delete/duplicate/swap/replace/insert, incl. newline, blanks, non-ASCII digits) of valid move texts")):
        cs, nun, nacc, crashes = _explicit_cases(run, name, strings)
        failing, shard_fail, ns = _run(cs)
        run.oblige(f"correspondence:{name} ({ns} shards)", not shard_fail, str(shard_fail)[:1500])
        run.count(len(strings), nacc, rule + "; non-trivial = accepted on the specified fragment",
                  [{"text": strings[len(strings) // 2]}], {"unspecified_skipped": nun}, label=name)
        unspec_total[name] = nun
        for s, cls in crashes[:5]:
            run.violation("crash:" + s, {"clause": "text that is not a PTN move is refused with the parser's own error",
                                         "input": s, "impl": {"crash": cls}})
        for meta in failing[:6]:
            _report_pack(run, cs, meta, "parse_move on grammar-shaped / near-miss text",
                         lambda me, h: "text:" + (h["text"] if h else f"{me['kind']}-pack{me['first']}"))

    # 4. games
    texts = [("corpus", t, observe_game(ptn, t), None) for t in _corpus()["games"]]
    texts += [(k, t, observe_game(ptn, t), e) for k, t, e in _game_texts(run)]
    cs = _game_cases(run, "games", texts, GAME_CHECK)
    failing, shard_fail, ns = _run(cs)
    run.oblige(f"correspondence:games ({ns} shards)", not shard_fail, str(shard_fail)[:1500])
    real = []
    nun = 0
    if failing:
        again = [(m["kind"], m["text"], observe_game(ptn, m["text"]), m["expected"]) for m in failing]
        cs2 = _game_cases(run, "games_unspec", again, GAME_UNSPEC)
        failing2, shard_fail2, ns2 = _run(cs2)
        run.oblige(f"correspondence:games-unspecified ({ns2} shards)", not shard_fail2, str(shard_fail2)[:1500])
        real = failing2
        nun = len(failing) - len(failing2)
    unspec_total["games"] = nun
    kinds = {}
    for k, t, o, e in texts:
        kinds[f"{k}:{o[0]}"] = kinds.get(f"{k}:{o[0]}", 0) + 1
    kinds["unspecified_skipped"] = nun
    run.count(len(texts), sum(1 for k, t, o, e in texts if o[0] == "GO" and len(o[2]) >= 4),
              "PTN.parse on texts rendered from random legal games (sizes 3-8) with random tags, move numbers, comments, suffixes, "
              "result markers, --, Unicode white space, and on malformed variants: tags (dict order) and moves / BadMove token / "
              "ValueError compared; non-trivial = parsed games with >= 4 moves",
              [{"text": texts[-1][1], "impl": j_gobs(texts[-1][2])}], kinds, label="games")
    run.extra["game_disagreements"] = len(real)
    for meta in real[:8]:
        view = cs.model_view(cs.terms[[m["text"] for m in cs.metas].index(meta["text"])])
        run.violation("game:" + core.hashlib.sha256(meta["text"].encode()).hexdigest()[:16],
                      {"clause": "parsing a PTN game returns its tags and exactly its moves in order / refuses non-moves with BadMove",
                       "input": {"text": meta["text"], "kind": meta["kind"], "expected": meta["expected"]},
                       "impl": meta["impl"], "model_view": view, "reference": _jref_game(ref_game(meta["text"]))})
    # the rendered texts are the model's own renderer applied to the generated structure (class D of game_moves),
    # and the implementation returns what the theorem says: the tags and exactly the moves
    csr = core.Cases(ID, "rendered", HEADER, "list (str * str) * sep * list (tok * sep) * str * gobs",
                     "fun c => let '(tags, lead, body, text, o) := c in str_eqb (render_game tags lead body) text "
                     "&& gagree (GameOk tags (moves_of body)) o",
                     show="fun c => let '(tags, lead, body, text, o) := c in (str_eqb (render_game tags lead body) text, moves_of body)",
                     shard=25)
    for k, t, o, e in texts:
        if k == "rendered":
            csr.add(f"({e['structure']}, {cstr(t)}, {c_gobs(o)})", {"kind": k, "text": t, "impl": j_gobs(o),
                                                                    "expected": {"tags": e["tags"], "moves": e["moves"], "rendered_from": e["rendered_from"]}})
    failing_r, shard_fail_r, nsr = _run(csr)
    run.oblige(f"correspondence:rendered ({nsr} shards)", not shard_fail_r, str(shard_fail_r)[:1500])
    run.count(len(csr), len(csr), "the same rendered texts as structure (tags, separators of white space / comments, tokens): the model's "
              "render_game yields exactly the text and PTN.parse returns GameOk tags (moves_of body), the right-hand side of game_moves",
              [], label="rendered")
    for meta in failing_r[:8]:
        run.violation("game:" + core.hashlib.sha256(meta["text"].encode()).hexdigest()[:16],
                      {"clause": "parsing a PTN game returns its tags and exactly its moves in order whatever decoration surrounds them",
                       "input": {"text": meta["text"], "kind": "rendered", "expected": meta["expected"]}, "impl": meta["impl"],
                       "model_view": csr.model_view(csr.terms[[m["text"] for m in csr.metas].index(meta["text"])])})
    # rendered games must come back exactly as generated (the statement of game_moves, on the implementation)
    shown = 0
    for k, t, o, e in texts:
        if shown >= 8:
            break
        if k == "rendered" and not (o[0] == "GO" and [takio.j_move(m) for m in o[2]] == e["moves"] and o[1] == list(dict(e["tags"]).items())):
            run.violation("game:" + core.hashlib.sha256(t.encode()).hexdigest()[:16],
                          {"clause": "parsing a PTN game returns its tags and exactly its moves in order whatever decoration surrounds them",
                           "input": {"text": t, "kind": k, "expected": {"tags": e["tags"], "moves": e["moves"], "rendered_from": e["rendered_from"]}}, "impl": j_gobs(o)})
            shown += 1
    # 5. histories: PTN.parse as a function of the text (a cache or a shared default must not leak an earlier answer)
    base = [t for k, t, o, e in texts if k == "rendered" and o[0] == "GO" and len(o[2]) >= 3][: (40 if run.quick else 400)]
    hist = _histories(run, base) if len(base) >= 2 else []
    hcases = [(kind, final, run_history(ptn, ops), {"history": ops}) for kind, ops, final in hist]
    ch = _game_cases(run, "history", hcases, GAME_CHECK)
    failing_h, shard_fail_h, nsh = _run(ch) if hcases else ([], [], 0)
    run.oblige(f"correspondence:history ({nsh} shards)", not shard_fail_h, str(shard_fail_h)[:1500])
    run.count(len(hcases), len(hcases), "histories on one process: parse(a), edit the returned record in place (truncate / append to "
              "moves, change / clear tags), parse(a) again with the same str and with an equal copy; parse(a) parse(b) parse(a); "
              "parse(a), edit, parse(b) - the LAST answer compared with the model's parse of its text",
              [{"history": hist[0][1]}] if hist else [], {"histories": len(hcases)}, label="history")
    for meta in failing_h[:6]:
        ops = meta["expected"]["history"]
        run.violation("history:" + core.hashlib.sha256(json.dumps(ops).encode()).hexdigest()[:16],
                      {"clause": "parsing a PTN game returns its tags and exactly its moves in order - as a function of the text, "
                                 "whatever was parsed or done to an earlier result before",
                       "input": {"history": ops, "text": meta["text"], "kind": meta["kind"]}, "impl_last_answer": meta["impl"],
                       "fresh_process_answer": "see replay", "reference": _jref_game(ref_game(meta["text"])),
                       "model_view": ch.model_view(ch.terms[ch.metas.index(meta)])})
    run.extra["unspecified_skipped"] = unspec_total


def _jref_game(r):
    if r[0] == "GO":
        return {"tags": r[1], "moves": [_ref_jmove(m) for m in r[2]]}
    return {"GN": "ValueError", "GB": {"BadMove": r[1] if len(r) > 1 else None}, "GU": "unspecified"}[r[0]]


def search(run, broken):
    """a proof / tie broke but the correspondence agreed: run the property's own statement on the implementation"""
    core.setup_impl()
    import tak
    from tak.ptn import ptn
    found = False
    # glyph maps against the standard
    std = {"<": "SLIDE_LEFT", ">": "SLIDE_RIGHT", "+": "SLIDE_UP", "-": "SLIDE_DOWN"}
    for g, name in std.items():
        o = observe_parse(ptn, "a1" + g) if g != "<" and g != "-" else observe_parse(ptn, "b2" + g)
        txt = ("a1" if g not in "<-" else "b2") + g
        if obs_vs_ref(o, ref_parse(txt)):
            run.violation("text:" + txt, {"clause": "direction glyph", "input": {"text": txt, "impl": j_obs(o), "ref": ref_parse(txt)}})
            found = True
    for n, m in _all_moves():
        s, err = _observe_format(ptn, m)
        want = ref_format(m.x, m.y, m.type.value, m.slides)
        o = observe_parse(ptn, s) if s is not None else None
        if s != want or o == "B" or o[0] != "A" or o[1] != m:
            run.violation("move:" + json.dumps(takio.j_move(m), sort_keys=True),
                          {"clause": "format then parse yields the same move", "input": {"size": n, "move": takio.j_move(m), "formatted": s,
                                                                                         "canonical_text": want, "parsed": None if o is None else j_obs(o)}})
            return True
    al = PTN_ALPHABET + FOREIGN
    for L in range(0, 4):
        for tail in itertools.product(al, repeat=L):
            s = "".join(tail)
            o = observe_parse(ptn, s)
            if obs_vs_ref(o, ref_parse(s)):
                run.violation("text:" + s, {"clause": "parse_move vs the PTN standard", "input": {"text": s, "impl": j_obs(o), "ref": ref_parse(s)}})
                return True
    for k, t, e in _game_texts(run):
        o = observe_game(ptn, t)
        if game_vs_ref(o, ref_game(t)):
            run.violation("game:" + core.hashlib.sha256(t.encode()).hexdigest()[:16],
                          {"clause": "PTN.parse vs the reference reading", "input": {"text": t, "kind": k}, "impl": j_gobs(o),
                           "reference": _jref_game(ref_game(t))})
            return True
    # histories against the reference reading
    texts = [t for k, t, e in _game_texts(run) if k == "rendered"][:40]
    for kind, ops, final in (_histories(run, texts) if len(texts) >= 2 else []):
        o = run_history(ptn, ops)
        if game_vs_ref(o, ref_game(final)):
            run.violation("history:" + core.hashlib.sha256(json.dumps(ops).encode()).hexdigest()[:16],
                          {"clause": "PTN.parse as a function of the text", "input": {"history": ops, "text": final, "kind": kind},
                           "impl_last_answer": j_gobs(o), "reference": _jref_game(ref_game(final))})
            return True
    return found


def replay(run, rp):
    core.setup_impl()
    from tak.ptn import ptn
    inp = rp.get("input", {})
    if "history" in inp:
        o = run_history(ptn, inp["history"])
        cs = _game_cases(run, "replay", [(inp.get("kind", "history"), inp["text"], o, None)], GAME_CHECK)
        failing, shard_fail, _ = _run(cs)
        return {"violates": bool(failing or shard_fail), "impl_last_answer": j_gobs(o), "model": cs.model_view(cs.terms[0])}
    if "text" in inp and rp.get("key", "").startswith("game:"):
        exp0 = inp.get("expected") or {}
        if exp0.get("rendered_from"):
            # a rendered game: render the stored structure again with the formatter of the tree under test
            try:
                inp = dict(inp, text=text_of_structure(exp0["rendered_from"], ptn.format_move))
            except Exception as e:  # noqa
                return {"violates": True, "note": "format_move raised while rendering the stored game", "error": repr(e)}
        o = observe_game(ptn, inp["text"])
        cs = _game_cases(run, "replay", [(inp.get("kind", "replay"), inp["text"], o, None)], GAME_CHECK)
        failing, shard_fail, _ = _run(cs)
        unspec = False
        if failing:
            cs2 = _game_cases(run, "replay_u", [(inp.get("kind", "replay"), inp["text"], o, None)], GAME_UNSPEC)
            f2, sf2, _ = _run(cs2)
            unspec = not f2 and not sf2
        exp = inp.get("expected")
        wrong_render = bool(exp) and not (o[0] == "GO" and [takio.j_move(m) for m in o[2]] == exp["moves"]
                                         and [list(x) for x in o[1]] == [list(x) for x in dict(map(tuple, exp["tags"])).items()])
        return {"violates": bool((failing and not unspec) or shard_fail or wrong_render), "impl": j_gobs(o),
                "model": cs.model_view(cs.terms[0]), "model_unspecified": unspec}
    if "move" in inp:
        m = takio.mk_move(inp["move"])
        cs = _move_cases(run, "replay", [(inp.get("size"), m)])
        failing, shard_fail, _ = _run(cs)
        s, err = _observe_format(ptn, m)
        return {"violates": bool(failing or shard_fail), "formatted": s, "format_error": err,
                "parsed": None if s is None else j_obs(observe_parse(ptn, s)), "model": cs.model_view(cs.terms[0])}
    if "text" in inp:
        s = inp["text"]
        cs, nun, nacc, crashes = _explicit_cases(run, "replay", [s])
        failing, shard_fail, _ = _run(cs)
        o = observe_parse(ptn, s)
        return {"violates": bool(failing or shard_fail or (o != "B" and o[0] == "C")), "impl": j_obs(o), "ref": ref_parse(s),
                "model": cs.model_view(cs.terms[0])}
    return {"violates": True, "note": "replay file names a broken obligation, not an input", "broken": rp.get("broken_obligations")}


# ---- translator tie (T): the C14_source_* theorems quantify over functions REGENERATED FROM THE SOURCE; t14's
# correspondence validates the semantics library and the translation scheme on every run.
from . import t14 as _t14  # noqa: E402

MODEL_TARGETS = sorted(set(list(MODEL_TARGETS) + list(_t14.MODEL_TARGETS)))
TRUSTED_BASE = list(TRUSTED_BASE) + list(getattr(_t14, "TRUSTED_BASE", []))
_c14_correspondence = correspondence


def pregen(run):
    return _t14.pregen(run)


def correspondence(run):
    _c14_correspondence(run)
    _t14.correspondence(run)


# ---- translator tie (T): the C14_source_* theorems quantify over functions REGENERATED FROM THE SOURCE; t14p's
# correspondence validates the semantics library and the translation scheme on every run.
from . import t14p as _t14p  # noqa: E402

MODEL_TARGETS = sorted(set(list(MODEL_TARGETS) + list(_t14p.MODEL_TARGETS)))
TRUSTED_BASE = list(TRUSTED_BASE) + list(getattr(_t14p, "TRUSTED_BASE", []))
_c14_t14p_correspondence = correspondence
_c14_t14p_pregen = pregen


def pregen(run):
    _c14_t14p_pregen(run)
    return _t14p.pregen(run)


def correspondence(run):
    _c14_t14p_correspondence(run)
    _t14p.correspondence(run)
