"""C18 - a self-play batch returns exactly N games or fails loudly; it never hangs.

Correspondence: fault scenarios are run against the REAL MultiprocessSelfPlayEngine with real
`spawn` worker processes (harness/c18_driver.py, one driver process per scenario, several in
parallel).  What was observed - the parent's queue operations in program order, the workers'
events, outcome class, transcript ids, queue emptiness, stop() result, exit codes - is turned into
ONE schedule of the protocol model (an untrusted linearisation, `Lin` below) and handed to Coq,
which replays it through model/Workers.v (`scenario_ok current`): every event must be enabled in
the model, and the model must end in the observed outcome class / ids / stop class / exit codes.
Independently an executable oracle of the property's own statement is applied to every observation
(`oracle`): that is what turns a disagreement into a reported violation with a concrete scenario."""
import json
import os
import subprocess
import time
from collections import deque
from concurrent.futures import ThreadPoolExecutor

from .. import core, workers_ir
from ..core import cz, clist, copt, cbool

ID = "C18"
THEOREMS = [
    "C18_count_invariant", "C18_returns_exactly_N", "C18_clean_between_requests",
    "C18_games_queue_empty_between_requests", "C18_ids_distinct", "C18_failure_detected_partial",
    "C18_request_progress", "C18_request_bounded", "C18_fault_leaves_nonzero_exit", "C18_raise_only_on_failure", "C18_swallowed_exception_hangs_refuted",
    "C18_torn_put_hangs_refuted", "C18_dead_lock_holder_stop_hangs_refuted", "C18_stop_terminates_workers",
    "C18_stop_graceful",
    "C18_tie_denotes_current", "C18_tie_steps_agree", "C18_tie_exit_codes", "C18_tie_returns_exactly_N",
    "C18_tie_failure_detected_partial", "C18_tie_fault_leaves_nonzero_exit", "C18_tie_request_progress",
    "C18_tie_stop_never_blocked",
]
MODEL_TARGETS = ["model/Workers.vo", "model/Harness.vo"]
TIE = ("T: harness/workers_ir.py (fail-closed ast translator) regenerates coq/gen/WorkersIR.v from python/tak/self_play.py; "
       "proofs/WorkersTie.v re-proves against it that the source denotes model/Workers.v's `current` and step function")
TRUSTED_BASE = [
    "harness/workers_ir.py: ast translator self_play.py -> gen/WorkersIR.v (fail-closed: unknown shapes raise; which source shape maps to "
    "which IR constructor is trusted, the IR's meaning is model/WorkersDenote.v)",
    "protocol model of run_job/entrypoint/play_many/stop (model/Workers.v): queue operations are atomic steps; "
    "multiprocessing.Queue is FIFO, bounded by its semaphore, get(timeout) returns; Process.exitcode is 0/None/non-zero as modelled",
    "harness/c18_driver.py + c18_factories.py: fault injector (global evaluation counter, os._exit, SIGKILL, FIONREAD watcher), "
    "queue proxies on the parent side, id tagging through run_job's frame, watchdog",
    "the linearisation of the observed events into one schedule is untrusted: Coq checks every event of it against the model",
]
ASSUMPTIONS = [
    "PARTIAL by design: theorems cover every interleaving of the protocol model; OS process, pipe and lock behaviour is tied only by the scenarios run",
    "failure_detected assumes no worker dies in the middle of a queue write (known finding torn-put-hang: the real code hangs there)",
    "fault model = any exception ending run_job - Exception subclasses (caught by entrypoint, sys.exit(1)) and other BaseExceptions "
    "such as KeyboardInterrupt raised in the evaluator or by SIGINT (not caught, multiprocessing exits 1): model event FRaise - or abrupt "
    "death with non-zero status (FKill); SystemExit(0) raised by an evaluator (a deliberate exit with status 0) and workers blocked "
    "for ever without dying are outside it (evidence only)",
    "re-using an engine after play_many raised is not modelled",
    "a hang is an observed outcome: no progress (parent queue events, worker events, exit codes) for `bound` seconds",
]

HEADER = ("From Coq Require Import ZArith List Bool.\nFrom TV Require Import model.Workers.\nImport ListNotations.")

BOUND = float(os.environ.get("VERIF_C18_BOUND", "20"))
PAR = int(os.environ.get("VERIF_C18_PAR", "6"))


# --------------------------------------------------------------------------
# translator tie: python/tak/self_play.py -> coq/gen/WorkersIR.v
# --------------------------------------------------------------------------
def pregen(run):
    try:
        workers_ir.regen(core.REPO)
    except Exception as e:
        # never leave a stale WorkersIR.v behind
        core.write_if_changed(core.COQ / "gen" / "WorkersIR.v", workers_ir.stub(str(e)))
        raise
    run.oblige("translate:run_job+entrypoint+__attrs_post_init__+play_many+stop+play_many_games -> gen/WorkersIR.v", True)


def broken_tie_lemma(run):
    """name of the tie lemma at which the proof build stopped (if it stopped in proofs/WorkersTie.v)"""
    where = str(run.extra.get("broken_at", ""))
    if not where.startswith("proofs/WorkersTie.v:"):
        return None
    try:
        ln = int(where.split(":")[1])
        import re
        names = re.findall(r"^Lemma ([A-Za-z0-9_]+)", "\n".join((core.COQ / "proofs" / "WorkersTie.v").read_text().splitlines()[:ln]), re.M)
        return names[-1] if names else None
    except Exception:
        return None


# --------------------------------------------------------------------------
# scenarios
# --------------------------------------------------------------------------
def scenarios(run):
    rng = run.rng
    S = []

    def add(name, W, reqs, fault, **kw):
        d = {"name": name, "workers": W, "requests": reqs, "fault": fault, "bound": BOUND, "sims": kw.pop("sims", 2)}
        d.update(kw)
        S.append(d)

    # fixed core (quick and thorough)
    # N > 4*workers (cmd 2w + playing w + games w) makes the parent meet queue.Full while games is full too
    add("nofault-2w-consecutive", 2, [3, 2, 9], {"kind": "none"})
    add("nofault-4w-12", 4, [12], {"kind": "none"}, sims=4)
    add("nofault-1w-5-then-6", 1, [5, 6], {"kind": "none"})
    add("nofault-2w-9", 2, [9], {"kind": "none"})
    add("factory-raises-1w-n1", 1, [1], {"kind": "factory_raise", "which": [0]})
    add("factory-raises-all-2w-n3", 2, [3], {"kind": "factory_raise", "which": [0, 1]})
    add("factory-raises-one-of-3", 3, [5], {"kind": "factory_raise", "which": [0]}, sims=4)
    add("eval0-raises-1w", 1, [2], {"kind": "eval_raise", "k": 0})
    add("eval-raises-2w", 2, [4], {"kind": "eval_raise", "k": rng.randint(3, 30)}, sims=3)
    add("eval-keyboardinterrupt-2w", 2, [4], {"kind": "eval_keyboardinterrupt", "k": rng.randint(2, 25)}, sims=3)
    add("sigint-1w", 1, [3], {"kind": "sigint", "k": rng.randint(1, 20)}, sims=3)
    add("eval-exit3-3w", 3, [6], {"kind": "eval_exit", "k": rng.randint(2, 40), "code": 3}, sims=3)
    add("eval-sigkill-2w", 2, [4], {"kind": "eval_sigkill", "k": rng.randint(2, 25)}, sims=3)
    add("eval-sigkill-4w-second-request", 4, [3, 9], {"kind": "eval_sigkill", "k": rng.randint(85, 200)}, sims=3)
    # probes
    add("probe-torn-put", 1, [1], {"kind": "torn_put", "game": 0}, payload=16_000_000, probe="torn-put")
    add("probe-dead-lock-holder", 2, [1], {"kind": "none"}, hold={"worker": None, "game": 0},
        ext_kill={"when": "idle"}, stop_timeout=1.5, probe="dead-lock-holder", sims=1, ply_limit=0)
    add("probe-sysexit0", 1, [2], {"kind": "eval_sysexit0", "k": 1}, bound=min(BOUND, 8), probe="sysexit0")
    if not run.quick:
        kinds = ["none", "factory_raise", "eval_raise", "eval_exit", "eval_sigkill", "eval_keyboardinterrupt", "sigint"]
        i = 0
        while len(S) < 120:
            kind = kinds[i % len(kinds)]
            W = rng.randint(1, 4)
            reqs = [rng.randint(1, 12)] if rng.random() < 0.6 else [rng.randint(1, 6), rng.randint(1, 6)]
            tot = sum(reqs)
            if kind == "none":
                f = {"kind": "none"}
            elif kind == "factory_raise":
                which = sorted(rng.sample(range(W), rng.randint(1, W)))
                f = {"kind": kind, "which": which}
            else:
                f = {"kind": kind, "k": rng.randint(0, tot * 14)}
                if kind == "eval_exit":
                    f["code"] = rng.choice([1, 3, 77])
            add(f"gen-{i}-{kind}-{W}w-{'+'.join(map(str, reqs))}", W, reqs, f, sims=rng.randint(2, 4))
            i += 1
    return S


def _run_one(sc, workdir, env):
    name = sc["name"]
    scp, outp = workdir / f"{name}.scenario.json", workdir / f"{name}.out.json"
    scp.write_text(json.dumps(sc))
    if outp.exists():
        outp.unlink()
    t0 = time.time()
    limit = 150 + 6 * float(sc.get("bound", BOUND)) + 60 * len(sc["requests"])
    try:
        p = subprocess.Popen(["/venv/bin/python", "-m", "harness.c18_driver", str(scp), str(outp)], env=env,
                             cwd=str(core.VERIF), stdout=subprocess.PIPE, stderr=subprocess.PIPE, text=True,
                             start_new_session=True)
        try:
            _, err = p.communicate(timeout=limit)
        except subprocess.TimeoutExpired:
            os.killpg(p.pid, 9)
            _, err = p.communicate()
            return {"scenario": sc, "driver_error": "driver exceeded %ds" % limit, "stderr": err[-1500:]}
    finally:
        try:
            os.killpg(p.pid, 9)      # always kill leftovers (workers share the driver's session)
        except Exception:
            pass
    if not outp.exists():
        return {"scenario": sc, "driver_error": f"no output (rc={p.returncode})", "stderr": err[-3000:]}
    o = json.load(open(outp))
    o["wall"] = round(time.time() - t0, 1)
    o["stderr_tail"] = err[-600:]
    outp.unlink()
    scp.unlink()
    return o


def run_scenarios(scs, par=PAR):
    env = core.child_env(ext=True, shims=True)
    workdir = core.BUILD / ID / "run"
    workdir.mkdir(parents=True, exist_ok=True)
    with ThreadPoolExecutor(max_workers=par) as ex:
        return list(ex.map(lambda sc: _run_one(sc, workdir, env), scs))


# --------------------------------------------------------------------------
# observed events -> one schedule of the model (untrusted; Coq validates it)
# --------------------------------------------------------------------------
class Lin:
    """Workers are scheduled as late as the parent's observations allow ("lazy"): a worker event is
    emitted only when a parent event needs it, or at the end of a request / before the raising timeout."""

    def __init__(self, W, final_codes, recv_order, takers, raised):
        self.W, self.final, self.recv_order, self.taker, self.raised = W, final_codes, recv_order, takers, raised
        self.cmd, self.games = [], []
        self.st = ["S"] * W
        self.pend = [deque() for _ in range(W)]
        self.rdead = False
        self.finished = set()
        self.out = []
        self.notes = []

    def emit(self, e):
        self.out.append(e)

    def take_out(self):
        o, self.out = self.out, []
        return o

    def feed(self, events):
        for e in events:
            if e.get("ev") in ("ready", "take", "fault", "extkill") and 0 <= e.get("w", -1) < self.W:
                self.pend[e["w"]].append(e)

    def lock_free(self):
        return not self.rdead and "R" not in self.st

    def playing(self, w):
        return self.st[w][1] if isinstance(self.st[w], tuple) else None

    # ---- workers
    def do_finish(self, w):
        gid = self.playing(w)
        if gid is None or len(self.games) >= self.W:
            return False
        self.emit(f"WFinish {w}")
        self.games.append(gid)
        self.finished.add(gid)
        self.st[w] = "I"
        return True

    def until_playing(self, v, gid, depth):
        for _ in range(200):
            if self.playing(v) == gid:
                return True
            if not self.advance(v, depth + 1):
                return False
        return False

    def finish(self, gid, depth=0):
        """make game gid appear in the games queue, after every game the parent received before it"""
        if gid in self.finished:
            return True
        if gid in self.recv_order:
            pre = self.recv_order[:self.recv_order.index(gid)]
        else:
            pre = list(self.recv_order)
        for y in pre + [gid]:
            if y in self.finished:
                continue
            v = self.taker.get(y)
            if v is None or depth > 40:
                return False
            if not self.until_playing(v, y, depth) or not self.do_finish(v):
                return False
        return True

    def advance(self, w, depth=0):
        """emit worker w's next observed event (and the unobserved ones it implies); False = blocked / nothing left"""
        if not self.pend[w] or depth > 60:
            return False
        ev = self.pend[w][0]
        if self.st[w] == "X":
            self.pend[w].popleft()
            self.notes.append(f"worker {w}: event {ev.get('ev')} after its exit ignored")
            return True
        k = ev["ev"]
        if k == "ready":
            self.pend[w].popleft()
            self.emit(f"WReady {w}")
            self.st[w] = "I"
            return True
        if k == "take":
            gid = ev["id"]
            if self.playing(w) is not None and not self.finish(self.playing(w), depth + 1):
                return False
            if self.st[w] == "S":
                self.emit(f"WReady {w}")
                self.st[w] = "I"
            for _ in range(100):
                if not self.cmd or self.cmd[0] == gid or self.cmd[0] is None:
                    break
                v = self.taker.get(self.cmd[0])
                if v is None or v == w or not self.until_playing(v, self.cmd[0], depth):
                    break
            if not self.cmd or self.cmd[0] != gid:
                return False
            self.pend[w].popleft()
            if self.st[w] == "I":
                self.emit(f"WLock {w}")
            self.emit(f"WTake {w}")
            self.cmd.pop(0)
            self.st[w] = ("P", gid)
            return True
        if k == "fault":
            self.pend[w].popleft()
            kind = ev.get("kind")
            if kind == "raise":
                if self.raised and self.final[w] == -9:
                    self.notes.append(f"worker {w}: killed by the parent before its own exit")
                    return True
                self.emit(f"FRaise {w}")
            elif kind == "kill":
                code = int(ev.get("code", -9))
                if ev.get("where") == "put":
                    self.emit(f"FKillMidPut {w} {cz(code)}")
                    self.games.append("torn")
                else:
                    self.emit(f"FKill {w} {cz(code)}")
                    if self.st[w] == "R":
                        self.rdead = True
            else:
                self.notes.append(f"worker {w}: fault kind {kind} has no model event")
                return True
            self.st[w] = "X"
            return True
        if k == "extkill":
            self.pend[w].popleft()
            if ev.get("reading") and self.st[w] == "I" and self.lock_free():
                self.emit(f"WLock {w}")
                self.st[w] = "R"
            self.emit(f"FKill {w} {cz(int(ev.get('code', -9)))}")
            if self.st[w] == "R":
                self.rdead = True
            self.st[w] = "X"
            return True
        self.pend[w].popleft()
        return True

    def flush(self):
        progress = True
        while progress:
            progress = False
            for w in range(self.W):
                while self.advance(w):
                    progress = True

    # ---- parent
    def request(self, n, trace, outcome, stuck):
        self.emit(f"EBegin {n}")
        last_full = False
        raising_at = None
        if outcome == "raised":
            idx = [i for i, t in enumerate(trace) if t[0] == "timeout"]
            raising_at = idx[-1] if idx else None
        for i, t in enumerate(trace):
            op, q, val = t[0], t[1], t[2]
            if op == "put" and q == "cmd":
                for _ in range(100):
                    if len(self.cmd) < 2 * self.W or self.cmd[0] is None:
                        break
                    v = self.taker.get(self.cmd[0])
                    if v is None or not self.until_playing(v, self.cmd[0], 0):
                        break
                self.emit("EPut")
                self.cmd.append(val)
                last_full = False
            elif op == "full" and q == "cmd":
                self.emit("EFull")
                last_full = True
            elif op == "get_enter":
                if not last_full:
                    self.emit("EFillEnd")
                last_full = False
            elif op == "recv":
                self.finish(val)
                self.emit("ERecv")
                if self.games:
                    self.games.pop(0)
            elif op == "timeout":
                if i == raising_at:
                    self.flush()
                    self.emit("ETimeout")
                    if "R" in self.st:
                        self.rdead = True
                    self.st = ["X"] * self.W
                else:
                    self.emit("ETimeout")
        self.flush()
        if outcome == "hung" and stuck:
            self.emit("ERecv")      # blocked inside get(): the model must be blocked on a truncated message

    def stop(self, trace, outcome):
        self.emit("EStop")
        nput, failed = 0, False
        for t in trace:
            if t[0] == "put" and t[2] is None:
                self.emit("EStopPut")
                self.cmd.append(None)
                nput += 1
            elif t[0] == "full":
                self.emit("EStopFull")
                failed = True
        if failed or nput < self.W:
            return
        self.emit("EStopSet")
        self.flush()
        for w in range(self.W):
            if self.final[w] == 0 and self.st[w] != "X":
                if self.st[w] == "S":
                    self.emit(f"WReady {w}")
                    self.st[w] = "I"
                if self.playing(w) is not None:
                    self.do_finish(w)
                if self.st[w] == "I" and self.lock_free():
                    self.emit(f"WLock {w}")
                    self.st[w] = "R"
                if self.st[w] == "R" and self.cmd:
                    self.emit(f"WTake {w}")
                    self.cmd.pop(0)
                    self.st[w] = "D"
                if self.st[w] == "D":
                    self.emit(f"WExit {w}")
                    self.st[w] = "X"
        if outcome == "stopped":
            self.emit("EJoined" if all(s == "X" for s in self.st) else "EJoinTimeout")


CLS = {"returned": 0, "raised": 1, "hung": 2}
STOPCLS = {"stopped": 0, "raised": 1, "hung": 2}


def to_case(obs):
    """(Coq term of type `scenario`, the schedule as text)"""
    sc = obs["scenario"]
    W = sc["workers"]
    reqs = obs["requests"]
    recv_order = [t[2] for r in reqs for t in r["trace"] if t[0] == "recv"]
    takers = {e["id"]: e["w"] for e in obs["wlog"] if e.get("ev") == "take" and e.get("id") is not None}
    raised = any(r["outcome"] == "raised" for r in reqs)
    lin = Lin(W, obs["codes"], recv_order, takers, raised)
    segs, sched = [], []
    prev = 0
    for r in reqs:
        lin.feed(obs["wlog"][prev:r["wlog_upto"]])
        prev = r["wlog_upto"]
        lin.request(r["n"], r["trace"], r["outcome"], r.get("stuck_in_get", False))
        evs = lin.take_out()
        ids = [t["id"] if t["id"] is not None else -1 for t in r.get("transcripts", [])]
        qe = bool(r.get("queues_empty")) if r["outcome"] == "returned" else False
        segs.append(f"({clist(evs)}, ({CLS[r['outcome']]}, {core.czlist(ids)}, {cbool(qe)}))")
        sched.append(evs)
    lin.feed(obs["wlog"][prev:])
    st = obs["stop"]
    if st.get("called"):
        lin.stop(st.get("trace", []), st["outcome"])
        stopcls = STOPCLS[st["outcome"]] if not (st["outcome"] == "raised" and st.get("error") != "Full") else 9
    else:
        lin.flush()
        stopcls = 3
    tail = lin.take_out()
    sched.append(tail)
    codes = clist([copt(None if c is None else cz(c)) for c in obs["codes"]])
    term = f"({W}%nat, {clist(segs)}, {clist(tail)}, ({stopcls}, {codes}))"
    return term, sched, lin.notes


# --------------------------------------------------------------------------
# the property's own statement, executable on what was observed
# --------------------------------------------------------------------------
def fault_fired(obs):
    return [e for e in obs["wlog"] if e.get("ev") in ("fault", "extkill")]


def content_audit(sc, history):
    """every returned transcript is ONE complete game of its own: four aligned lists, starting from the initial
    position of the configured size, plies 0,1,2,..., at most ply_limit+1 of them, and nothing of an earlier
    transcript of the same engine (same request or an earlier one) in front of it"""
    name = sc["name"]
    limit = int(sc.get("ply_limit", 6)) + 1
    bad = []
    for k, t in enumerate(history):
        why = []
        lens, seq = t.get("lens"), t.get("plies_seq")
        if lens is None or seq is None:
            why.append(f"could not be read ({t.get('error')})")
        else:
            if len(set(lens)) != 1:
                why.append(f"positions/moves/probs/values have lengths {lens}")
            if lens[0] < 1 or not t.get("first_initial"):
                why.append("the first recorded position is not the initial position (ply 0, empty board)")
            if seq != list(range(len(seq))):
                why.append(f"recorded plies are {seq[:24]}{'...' if len(seq) > 24 else ''}, not 0,1,2,...")
            if lens[0] > limit:
                why.append(f"{lens[0]} plies recorded, ply_limit+1 = {limit}")
            fps = t.get("fps") or []
            for j in range(k):
                e = history[j]
                efps = e.get("fps") or []
                if e.get("worker") == t.get("worker") and e.get("id") != t.get("id") and efps \
                        and len(fps) > len(efps) and fps[:len(efps)] == efps:
                    why.append(f"begins with all {len(efps)} positions of game id {e.get('id')} (transcript #{j} of this engine, same worker)")
                    break
        if why:
            bad.append({"transcript": k, "id": t.get("id"), "worker": t.get("worker"), "lens": lens, "why": why})
    if not bad:
        return []
    return [(f"carry-over-content:{name}", "returns exactly N COMPLETE transcripts, none carried over between games or requests",
             f"{len(bad)} of {len(history)} returned transcripts are not one game of their own; lengths observed "
             f"{[t.get('lens', [None])[0] if t.get('lens') else None for t in history]} (ply_limit+1 = {limit}); first: {bad[:3]}")]


def oracle(obs):
    """list of (key, clause, detail) - violations of the property text by the observed run"""
    sc = obs["scenario"]
    name, probe = sc["name"], sc.get("probe")
    kind = sc["fault"].get("kind", "none")
    out = []
    seen = set()
    fired = fault_fired(obs)
    history = []        # every transcript returned by this engine, in order, over all its requests
    for ri, r in enumerate(obs["requests"]):
        if r["outcome"] == "hung":
            if probe == "torn-put" and r.get("stuck_in_get"):
                out.append(("torn-put-hang", "a worker's abrupt death makes the request raise within bounded time",
                            f"request {ri}: play_many({r['n']}) blocked inside games.get() for more than {sc['bound']} s "
                            f"with exit codes {r['codes_after']}"))
            elif probe == "sysexit0":
                pass    # outside the fault model: evidence only
            elif r.get("dispatch_spin"):
                out.append((f"hang:dispatch-spin:{kind}", "a request for N games returns exactly N transcripts (it never hangs)",
                            f"request {ri}: play_many({r['n']}) on {sc['workers']} workers completed no timed get for {sc['bound']} s with "
                            f"{r.get('outstanding')} games outstanding; the parent is spinning outside games.get(): last operation "
                            f"{r.get('last_parent_op')} (op, queue, id, repetitions); parent stack {r.get('parent_stack')}; "
                            f"cmd qsize {r.get('cmd_qsize')}, games qsize {r.get('games_qsize')}; exit codes {r['codes_after']}"))
            else:
                out.append((f"hang:{kind}", "the request raises an error within bounded time instead of waiting forever",
                            f"request {ri}: play_many({r['n']}) made no progress for {sc['bound']} s; exit codes {r['codes_after']}; "
                            f"faults fired: {[{k: v for k, v in e.items() if k != 't'} for e in fired]}; parent stack {r.get('parent_stack')}; "
                            f"cmd qsize {r.get('cmd_qsize')}, games qsize {r.get('games_qsize')}"))
        elif r["outcome"] == "returned":
            ts = r["transcripts"]
            ids = [t["id"] for t in ts]
            if len(ts) != r["n"]:
                out.append((f"wrong-count:{kind}", "returns exactly N transcripts", f"request {ri}: asked {r['n']}, got {len(ts)}"))
            if not all(t["complete"] for t in ts):
                out.append((f"incomplete-transcript:{kind}", "returns complete transcripts", f"request {ri}: {ts}"))
            history.extend(ts)
            if len(set(ids)) != len(ids) or None in ids:
                out.append((f"duplicate-transcript:{kind}", "none lost or duplicated", f"request {ri}: ids {ids}"))
            if seen & set(ids):
                out.append((f"carry-over:{kind}", "none carried over between consecutive requests",
                            f"request {ri}: ids {sorted(seen & set(ids))} were already returned by an earlier request"))
            puts = [t[2] for t in r["trace"] if t[0] == "put" and t[1] == "cmd"]
            if sorted(ids) != sorted(puts):
                out.append((f"carry-over:{kind}", "a request returns the games it issued, nothing is left behind",
                            f"request {ri}: issued ids {puts}, returned ids {ids}"))
            if r.get("queues_empty") is False:
                out.append((f"queues-not-empty:{kind}", "nothing is left in the queues after a normal return",
                            f"request {ri}: cmd/games not empty after play_many returned"))
            seen |= set(ids)
        elif r["outcome"] == "raised":
            if not fired:
                out.append((f"spurious-raise:{kind}", "raises only when a worker failed", f"request {ri}: {r.get('error')} {r.get('message')}"))
    out.extend(content_audit(sc, history))
    st = obs["stop"]
    if st.get("called"):
        if st["outcome"] == "hung":
            key = "dead-lock-holder-stop-hang" if probe == "dead-lock-holder" else f"stop-hang:{kind}"
            out.append((key, "workers exit on shutdown (stop() returns)",
                        f"stop() made no progress for {sc['bound']} s; exit codes {obs['codes']}"))
        elif any(c is None for c in obs["codes"]):
            out.append((f"workers-left-after-stop:{kind}", "workers exit on shutdown", f"exit codes after stop(): {obs['codes']}"))
        elif st["outcome"] == "stopped" and not fired and any(c != 0 for c in obs["codes"]):
            out.append((f"ungraceful-stop:{kind}", "workers exit on shutdown by themselves when nothing failed",
                        f"exit codes after stop(): {obs['codes']}"))
    return out


def probe_reproduced(obs):
    """did a probe scenario reach the situation it is meant to create?"""
    probe = obs["scenario"].get("probe")
    r0 = obs["requests"][0] if obs.get("requests") else {}
    if probe == "torn-put":
        return r0.get("outcome") == "hung" and bool(r0.get("stuck_in_get"))
    if probe == "dead-lock-holder":
        return r0.get("outcome") == "returned" and any(e.get("ev") == "extkill" for e in obs.get("wlog", []))
    return True


def brief(obs):
    return {"scenario": obs["scenario"],
            "requests": [{k: (v if k != "transcripts" else [{a: b for a, b in t.items() if a != "fps"} for t in v])
                          for k, v in r.items() if k not in ("trace",)} | {"trace_len": len(r["trace"])} for r in obs.get("requests", [])],
            "stop": {k: v for k, v in obs.get("stop", {}).items() if k != "trace"}, "exit_codes": obs.get("codes"),
            "evaluations_done": obs.get("evals"),
            "worker_events": [{k: v for k, v in e.items() if k != "t"} for e in obs.get("wlog", [])][:60],
            "wall": obs.get("wall")}


def check_in_coq(run, observations, tag):
    cs = core.Cases(ID, tag, HEADER, "scenario", "scenario_ok current", show="scenario_view current", shard=40)
    for obs in observations:
        term, sched, notes = to_case(obs)
        cs.add(term, {"name": obs["scenario"]["name"], "schedule": sched, "notes": notes})
    failing, shard_fail, nshards = cs.run()
    return cs, failing, shard_fail, nshards


def correspondence(run):
    tie = broken_tie_lemma(run)
    if tie:
        run.extra["broken_tie_lemma"] = tie
        core.log(f"[C18] the source no longer denotes the model: tie lemma {tie} (proofs/WorkersTie.v) fails against the regenerated gen/WorkersIR.v")
    scs = scenarios(run)
    t0 = time.time()
    obs_all = run_scenarios(scs)
    # the two probes need a precise timing; try again (twice at most) when it was missed
    retried = {}
    for attempt in range(2):
        missed = [i for i, o in enumerate(obs_all) if "driver_error" not in o and not probe_reproduced(o)]
        if not missed:
            break
        again = run_scenarios([obs_all[i]["scenario"] for i in missed], par=2)
        for i, o in zip(missed, again):
            retried[obs_all[i]["scenario"]["name"]] = attempt + 1
            if "driver_error" not in o:
                obs_all[i] = o
    errs = [o for o in obs_all if "driver_error" in o]
    run.oblige("correspondence:drivers ran", not errs, json.dumps(errs, default=str)[:3000])
    obs_ok = [o for o in obs_all if "driver_error" not in o]
    modelled = [o for o in obs_ok if o["scenario"].get("probe") != "sysexit0"]
    cs, failing, shard_fail, nshards = check_in_coq(run, modelled, "scenarios")
    run.oblige(f"correspondence:scenarios replayed through the model ({nshards} shards)", not shard_fail, str(shard_fail)[:1500])
    by_name = {o["scenario"]["name"]: o for o in obs_ok}
    suspects = {m["name"] for m in failing}
    verdicts = {}
    for o in obs_ok:
        v = oracle(o)
        verdicts[o["scenario"]["name"]] = v
        if any(k != "torn-put-hang" for k, _, _ in v):
            suspects.add(o["scenario"]["name"])
    # confirm by running the suspect scenarios once more (a loaded machine must not produce an alarm)
    confirmed = {}
    if suspects:
        again = run_scenarios([by_name[n]["scenario"] for n in sorted(suspects)], par=max(2, PAR // 2))
        again_ok = [o for o in again if "driver_error" not in o]
        cs2, failing2, shard_fail2, _ = check_in_coq(run, [o for o in again_ok if o["scenario"].get("probe") != "sysexit0"], "confirm")
        fail2 = {m["name"]: m for m in failing2}
        for o in again_ok:
            n = o["scenario"]["name"]
            v2 = oracle(o)
            keys1 = {k for k, _, _ in verdicts.get(n, [])}
            both = [x for x in v2 if x[0] in keys1]
            model_both = (n in fail2) and any(m["name"] == n for m in failing)
            confirmed[n] = (o, both, model_both, fail2.get(n), cs2)
    nviol = 0
    for n, (o, both, model_both, meta2, cs2) in confirmed.items():
        for key, clause, detail in both:
            if key == "torn-put-hang":
                continue
            run.violation(key, {"clause": clause, "what_happened": detail, "observed": brief(o),
                                "how_to_rerun": "the scenario dict is the input of harness/c18_driver.py"})
            nviol += 1
        if model_both and not [b for b in both if b[0] != "torn-put-hang"]:
            view = cs2.model_view(cs2.terms[cs2.metas.index(meta2)])
            run.violation(f"model-disagrees:{n}", {"clause": "the observed run is a run of the protocol model with the same outcome",
                                                   "observed": brief(o), "schedule": meta2["schedule"], "linearisation_notes": meta2["notes"],
                                                   "model_view (first event not enabled, class, ids, stop class, exit codes, queue lengths)": view})
            nviol += 1
    # the known finding is reported whenever the probe reproduces it (and only then)
    torn = [o for o in obs_ok if o["scenario"].get("probe") == "torn-put"]
    torn_seen = False
    for o in torn:
        for key, clause, detail in verdicts[o["scenario"]["name"]]:
            if key == "torn-put-hang":
                torn_seen = True
                run.violation(key, {"clause": clause, "what_happened": detail, "observed": brief(o),
                                    "mechanism": "worker SIGKILLed while its feeder thread is writing a transcript larger than the pipe buffer; "
                                                 "the parent's games.get(timeout=1) passes poll() and blocks for ever in recv_bytes"})
    run.extra["torn_put_probe_reproduced"] = torn_seen
    run.extra["probes"] = {o["scenario"]["name"]: {"reproduced": probe_reproduced(o), "extra_attempts": retried.get(o["scenario"]["name"], 0)}
                           for o in obs_ok if o["scenario"].get("probe") in ("torn-put", "dead-lock-holder")}
    run.extra["evidence_only"] = {
        "sysexit0": [brief(o)["requests"] for o in obs_ok if o["scenario"].get("probe") == "sysexit0"],
        "stop_raised_queue_full_after_play_many_raised": [o["scenario"]["name"] for o in obs_ok
                                                          if o["stop"].get("outcome") == "raised" and o["stop"].get("error") == "Full"],
        "unconfirmed_suspects": sorted(n for n in suspects if n in confirmed and not confirmed[n][1] and not confirmed[n][2]),
    }
    dist = {}
    for o in obs_ok:
        k = o["scenario"]["fault"].get("kind", "none")
        cls = "/".join(r["outcome"] for r in o["requests"]) + "|stop:" + str(o["stop"].get("outcome"))
        dist[f"{k} -> {cls}"] = dist.get(f"{k} -> {cls}", 0) + 1
    nontrivial = sum(1 for o in obs_ok if fault_fired(o) or len(o["requests"]) > 1)
    run.count(len(obs_ok), nontrivial,
              "scenarios (fault kind x k-th evaluation x N x workers) run with real spawn processes, each replayed through the Coq model; "
              "non-trivial = a fault fired or more than one request on the engine",
              [brief(o) for o in obs_ok[:2]], dist, label="scenarios")
    run.extra["scenario_wall_s"] = round(time.time() - t0, 1)
    run.extra["scenarios"] = [{"name": o["scenario"]["name"], "outcomes": [r["outcome"] for r in o["requests"]],
                               "stop": o["stop"].get("outcome"), "codes": o["codes"], "wall": o.get("wall")} for o in obs_ok]


def search(run, broken):
    """a proof or a shard broke without a concrete disagreement: apply the property's own statement to fresh runs"""
    obs_all = run_scenarios(scenarios(run))
    found = False
    for o in obs_all:
        if "driver_error" in o:
            continue
        for key, clause, detail in oracle(o):
            if key == "torn-put-hang":
                continue
            run.violation(key, {"clause": clause, "what_happened": detail, "observed": brief(o)})
            found = True
    return found


def replay(run, rp):
    sc = (rp.get("observed") or {}).get("scenario")
    if not sc:
        return {"violates": False, "note": "replay file carries no scenario"}
    o = run_scenarios([sc], par=1)[0]
    if "driver_error" in o:
        return {"violates": False, "driver_error": o}
    v = oracle(o)
    res = {"violates": bool(v), "oracle": v, "observed": brief(o)}
    if sc.get("probe") != "sysexit0":
        cs, failing, shard_fail, _ = check_in_coq(run, [o], "replay")
        res["model_agrees"] = not failing and not shard_fail
        if failing:
            res["violates"] = True
            res["model_view"] = cs.model_view(cs.terms[0])
    return res
