"""Translator hook only: regenerates coq/gen/PtnParseGen.v (python/tak/ptn/ptn.py: parse_move, PTN.parse, slide_map,
place_map as a shallow embedding over model/PySem.v + model/PtnSem.v, the regular expressions as terms of
spec/RegexSpec.v) from the tree under test with harness/ptn2coq.py.  The theorems about it are props/T14P.v
(harness/props/t14p.py)."""
import hashlib

from .. import core, ptn2coq


def pregen(run):
    text, err = ptn2coq.translate(core.REPO / "python")
    core.write_if_changed(core.COQ / "gen" / "PtnParseGen.v", text)
    run.oblige("translate:tak/ptn/ptn.py parse_move, PTN.parse -> gen/PtnParseGen.v (shallow embedding over PySem.v / PtnSem.v)",
               err is None, err or "")
    run.extra["PtnParseGen_sha256"] = hashlib.sha256(text.encode()).hexdigest()[:16]
    return err
