"""Translator hook only: regenerates coq/gen/SymmetryGen.v (the shallow embedding of tak/symmetry/symmetry.py written
against model/PySem.v and model/NumpyLite.v) from the tree under test.  The theorems about it are props/T15.v
(harness/props/t15.py).  SymmetryGen.v refers to gen/GameGen.v (Position.__getitem__, MoveType.is_slide / direction,
DIRECTIONS, Position.from_squares), which harness/props/c01gen.py regenerates."""
import hashlib

from .. import core, sym2coq


def pregen(run):
    text, err = sym2coq.translate(core.REPO / "python")
    core.write_if_changed(core.COQ / "gen" / "SymmetryGen.v", text)
    run.oblige("translate:tak/symmetry/symmetry.py (+ moves.RDIRECTIONS, from_direction) -> gen/SymmetryGen.v "
               "(shallow embedding over PySem.v, NumpyLite.v)", err is None, err or "")
    run.extra["SymmetryGen_sha256"] = hashlib.sha256(text.encode()).hexdigest()[:16]
    return err
