"""C15 - board symmetries commute with the rules (tak/symmetry/symmetry.py).

Correspondence (D): for sampled positions (sizes 3-8; playouts, constructed boards,
boards symmetrised under every subgroup of the square's symmetry group; standard
and custom reserves) the eight `transform_position` outputs and the `symmetries`
list are compared with the model inside Coq; `transform_move` is compared for all
8 matrices x (the whole move table of the size, or a sample of it, + ill-formed
moves incl. off-board squares).  The property's own statement (group, commutation
with `move`, outcome / ply / side / reserves invariance, variants list) is also
evaluated directly on the implementation (`_oracle`); that oracle is what `search`
and `replay` run."""
import hashlib
import itertools
import json
from concurrent.futures import ThreadPoolExecutor

from .. import core, takio
from ..core import cz, clist, copt

ID = "C15"
THEOREMS = ["C15_syms_are_D4", "C15_sym_square_bijection", "C15_index_guard", "C15_transform_move_total",
            "C15_move_commutes", "C15_legality_invariant", "C15_winner_invariant",
            "C15_ply_side_reserves_invariant", "C15_symmetries_spec", "C15_group_action", "C15_example",
            "C15_table_closed_under_syms", "C15_transform_move_injective", "C15_legal_moves_transform",
            "C15_legal_moves_transform_perm", "C15_rulebook_step_transform", "C15_rulebook_moves_transform",
            "C15_source_symmetries_const", "C15_source_transform_position_eq", "C15_source_transform_position_never_crashes", "C15_source_transform_move_eq", "C15_source_symmetries_eq", "C15_source_move_commutes", "C15_source_winner_invariant", "C15_source_symmetries_spec"]
MODEL_TARGETS = ["model/Tak.vo", "model/Road.vo", "model/Symmetry.vo", "model/Harness.vo", "model/Lit.vo"]
TRUSTED_BASE = [
    "numpy: matmul of small integer matrices is exact; .astype(int) of integer-valued floats < 2^53 is the identity; "
    "numpy integers hash/compare like Python ints as dict keys (RDIRECTIONS) - validated by the correspondence",
    "CPython list store sqs[k] = v for 0 <= k < len (the guard C15_index_guard proves the index range for the eight matrices)",
    "attrs.evolve(pos, board=sqs) copies size/stones/ply; attrs-generated Position.__eq__/__ne__ compare (size, stones, ply, board)",
    "model/Tak.v `move` and model/Road.v `winner` are the implementation's (tied by the correspondences of C01/C02)",
]
ASSUMPTIONS = [
    "coordinates within int64 (numpy overflow for |x| >= 2^63 is outside the model)",
    "a slide whose `slides` is None raises TypeError in Position.move; the model maps it to None; never generated for the commutation oracle",
]

HEADER = ("From Coq Require Import ZArith List Bool.\n"
          "From TV Require Import model.Tak model.Road model.Lit model.Symmetry.\nImport ListNotations.\n"
          "Definition oc_eqb (a b : option color) : bool := match a, b with None, None => true "
          "| Some x, Some y => color_eqb x y | _, _ => false end.\n"
          "Definition rs_eqb (a b : option reason) : bool := match a, b with None, None => true "
          "| Some Road, Some Road => true | Some Flats, Some Flats => true | _, _ => false end.\n"
          "Definition out_eqb (a b : (option color * option reason) * option color) : bool := "
          "oc_eqb (fst (fst a)) (fst (fst b)) && rs_eqb (snd (fst a)) (snd (fst b)) && oc_eqb (snd a) (snd b).")


# --------------------------------------------------------------------------
# harness-side geometry (independent of the implementation): the subgroups used
# to build symmetric boards, and an integer re-implementation of a matrix action
# --------------------------------------------------------------------------
def _maps(n):
    e = lambda x, y: (x, y)                     # noqa: E731
    fx = lambda x, y: (n - 1 - x, y)            # noqa: E731
    fy = lambda x, y: (x, n - 1 - y)            # noqa: E731
    r2 = lambda x, y: (n - 1 - x, n - 1 - y)    # noqa: E731
    d1 = lambda x, y: (y, x)                    # noqa: E731
    d2 = lambda x, y: (n - 1 - y, n - 1 - x)    # noqa: E731
    r1 = lambda x, y: (y, n - 1 - x)            # noqa: E731
    r3 = lambda x, y: (n - 1 - y, x)            # noqa: E731
    return {"e": e, "fx": fx, "fy": fy, "r2": r2, "d1": d1, "d2": d2, "r1": r1, "r3": r3}


SUBGROUPS = {  # name -> (generating elements, number of variants a generic such board has)
    "trivial": (["e"], 8), "fx": (["fx"], 4), "fy": (["fy"], 4), "r2": (["r2"], 4), "d1": (["d1"], 4), "d2": (["d2"], 4),
    "c4": (["r1", "r2", "r3"], 2), "v4": (["fx", "fy", "r2"], 2), "v4d": (["d1", "d2", "r2"], 2),
    "d4": (["fx", "fy", "r2", "d1", "d2", "r1", "r3"], 1),
}


def _act(sym, n, x, y):
    """integer matrix action on (x, y, n-1), computed here (not by numpy)"""
    v = (x, y, n - 1)
    return (sum(int(sym[0][k]) * v[k] for k in range(3)), sum(int(sym[1][k]) * v[k] for k in range(3)))


# --------------------------------------------------------------------------
# generators
# --------------------------------------------------------------------------
def _config(rng, n, custom):
    import tak
    if not custom:
        return tak.Config(size=n)
    return tak.Config(size=n, pieces=rng.randint(2, n * n + 3), capstones=rng.randint(0, 2))


def _playout(rng, n, custom, plies, stop_at_end):
    import tak
    p = tak.Position.from_config(_config(rng, n, custom))
    for _ in range(plies):
        if stop_at_end and p.winner()[1] is not None:
            break
        ms = p.all_moves()
        rng.shuffle(ms)
        # prefer slides now and then so that stacks build up
        if rng.random() < 0.35:
            ms.sort(key=lambda m: not m.type.is_slide())
        nxt = None
        for m in ms[:200]:
            try:
                nxt = p.move(m)
                break
            except tak.IllegalMove:
                continue
        if nxt is None:
            break
        p = nxt
    return p


def _random_stack(rng, n, tall):
    import tak
    h = rng.choice([1, 1, 1, 2, 2, 3, n + 1]) if tall else 1
    st = [tak.Piece.cached(tak.Color(rng.randint(0, 1)), tak.Kind.FLAT) for _ in range(h)]
    st[0] = tak.Piece.cached(tak.Color(rng.randint(0, 1)), rng.choice([tak.Kind.FLAT] * 4 + [tak.Kind.STANDING, tak.Kind.CAPSTONE]))
    return st


def _constructed(rng, n, group, density, custom):
    """a board invariant under the subgroup `group` (generic otherwise), arbitrary reserves and ply"""
    import tak
    maps = _maps(n)
    gens = [maps[g] for g in SUBGROUPS[group][0]]
    board = [None] * (n * n)
    for x in range(n):
        for y in range(n):
            if board[x + y * n] is not None:
                continue
            st = _random_stack(rng, n, True) if rng.random() < density else []
            orbit, todo = {(x, y)}, [(x, y)]
            while todo:
                v = todo.pop()
                for g in gens:
                    w = g(*v)
                    if w not in orbit:
                        orbit.add(w)
                        todo.append(w)
            for (u, w) in orbit:
                board[u + w * n] = list(st)
    if custom:
        stones = tuple(tak.StoneCounts(stones=rng.randint(0, 60), caps=rng.randint(0, 2)) for _ in range(2))
    else:
        c = tak.Config(size=n)
        stones = (tak.StoneCounts(c.flat_count, c.capstone_count),) * 2
    return tak.Position(size=n, stones=stones, ply=rng.choice([0, 1, 2, 3, 7, 12, 41]), board=board)


def _line(n, horizontal, at, kind_top=None):
    import tak
    board = [[] for _ in range(n * n)]
    for k in range(n):
        x, y = (k, at) if horizontal else (at, k)
        board[x + y * n] = [tak.Piece.cached(tak.Color.WHITE, tak.Kind.FLAT)]
    c = tak.Config(size=n)
    return tak.Position(size=n, stones=(tak.StoneCounts(c.flat_count - n, c.capstone_count), tak.StoneCounts(c.flat_count, c.capstone_count)),
                        ply=2 * n, board=board)


def _stack_on(rng, color, kind):
    """a stack with the given top; buried pieces of either colour"""
    import tak
    st = [tak.Piece.cached(color, kind)]
    for _ in range(rng.choice([0, 0, 0, 1, 2])):
        st.append(tak.Piece.cached(tak.Color(rng.randint(0, 1)), tak.Kind.FLAT))
    return st


def _double_road(rng, n, horizontal, ply):
    """both colours have a road at once.  Two roads of different colours can only run the same way (a left-right
    and a bottom-top path always share a square), so: both left-right or both bottom-top; one capstone in each."""
    import tak
    W, B = tak.Color.WHITE, tak.Color.BLACK
    F, C = tak.Kind.FLAT, tak.Kind.CAPSTONE
    rw, rb = rng.sample(range(n), 2)
    board = [[] for _ in range(n * n)]
    cw, cb = rng.randrange(n), rng.randrange(n)
    for k in range(n):
        for (r, col, cap) in ((rw, W, cw), (rb, B, cb)):
            x, y = (k, r) if horizontal else (r, k)
            board[x + y * n] = _stack_on(rng, col, C if k == cap else F)
    c = tak.Config(size=n)
    stones = (tak.StoneCounts(c.flat_count - n + 1, max(c.capstone_count, 1) - 1),
              tak.StoneCounts(c.flat_count - n + 1, max(c.capstone_count, 1) - 1))
    return tak.Position(size=n, stones=stones, ply=ply, board=board)


def _both_axes(rng, n, color_value, ply):
    """one colour has a left-right AND a bottom-top road (a cross through a random row and column)"""
    import tak
    col = tak.Color(color_value)
    r, cc = rng.randrange(n), rng.randrange(n)
    board = [[] for _ in range(n * n)]
    for k in range(n):
        board[k + r * n] = _stack_on(rng, col, tak.Kind.FLAT)
        board[cc + k * n] = _stack_on(rng, col, tak.Kind.CAPSTONE if k == (r + 1) % n else tak.Kind.FLAT)
    c = tak.Config(size=n)
    return tak.Position(size=n, stones=(tak.StoneCounts(c.flat_count, c.capstone_count),) * 2, ply=ply, board=board)


def finished_positions(rng, k_random):
    """positions whose outcome is decided, built on purpose (playouts almost never give two roads at once):
    double roads (both axes' worth, both ply parities, every size, a capstone in each road), one colour with roads on
    both axes, and - borrowed from the C02 harness - self-avoiding roads with every perturbation (wall / opposing
    capstone / buried piece / hole on the path, crossing and PARALLEL roads of both colours), full boards with equal
    and unequal flat counts, and every reserve state (either / both sides exhausted, capstone only, ...)"""
    from . import c02
    out = []
    for n in range(3, 9):
        for horizontal in (True, False):
            for parity in (0, 1):
                out.append((f"double-road{n}-{'h' if horizontal else 'v'}{parity}",
                            _double_road(rng, n, horizontal, 2 * n + 2 + parity)))
        out.append((f"both-axes{n}", _both_axes(rng, n, n % 2, 2 * n + (n // 2) % 2)))
    kinds = list(c02.PERTURB) + ["parallel", "parallel", "parallel"]
    for i in range(k_random):
        n = rng.choice([3, 4, 4, 5, 5, 6, 6, 7, 8])
        stones, state = c02.gen_reserves(rng, n)
        ply = rng.randint(2, 81)
        r = i % 5
        if r < 3:
            kind = kinds[i % len(kinds)]
            out.append((f"c02road{n}-{kind}", c02.mkpos(n, c02.road_board(rng, n, kind), ply, stones)))
        elif r == 3:
            board = c02.full_equal_flats(rng, n) if i % 2 else c02.random_board(rng, n, 1.0, rng.choice([0.3, 0.5, 0.8]), 0.15)
            out.append((f"c02full{n}", c02.mkpos(n, board, ply, stones)))
        else:
            stones, state = c02.gen_reserves(rng, n, rng.choice(["w0", "b0", "both0", "w_caponly", "one_left"]))
            out.append((f"c02reserve{n}-{state}", c02.mkpos(n, c02.random_board(rng, n, rng.choice([0.2, 0.5]), 0.5, 0.15), ply, stones)))
    return out


def positions(run, count):
    """[(label, position)]: fixed special positions first, then a seeded mix"""
    import tak
    rng = run.rng
    out = []
    for n in range(3, 9):
        out.append((f"empty{n}", tak.Position.from_config(tak.Config(size=n))))
    out.append(("empty3-custom", tak.Position.from_config(tak.Config(size=3, pieces=5, capstones=1))))  # the F7 input
    out.append(("row-mid5", _line(5, True, 2)))
    out.append(("row-edge4", _line(4, True, 0)))
    out.append(("col-edge6", _line(6, False, 5)))
    p = tak.Position.from_config(tak.Config(size=5, pieces=7, capstones=2))
    for m in [tak.Move(0, 0), tak.Move(4, 4), tak.Move(2, 2, tak.MoveType.PLACE_CAPSTONE), tak.Move(1, 3, tak.MoveType.PLACE_STANDING)]:
        p = p.move(m)
    out.append(("custom5-opening", p))
    out += finished_positions(rng, max(40, count // 8))
    sizes = [3, 3, 4, 4, 5, 5, 5, 6, 6, 7, 8]
    groups = list(SUBGROUPS)
    while len(out) < count:
        n = rng.choice(sizes)
        r = rng.random()
        custom = rng.random() < 0.4
        if r < 0.40:
            out.append((f"playout{n}", _playout(rng, n, custom, rng.randint(1, 6 * n), False)))
        elif r < 0.55:
            out.append((f"endgame{n}", _playout(rng, n, custom, 40 * n, True)))
        else:
            g = rng.choice(groups)
            out.append((f"constructed{n}-{g}", _constructed(rng, n, g, rng.choice([0.15, 0.4, 0.8, 1.0]), custom)))
    return out[:count]


def illformed_moves(rng, n, k, allow_none_slides):
    import tak
    types = list(tak.MoveType)
    out = []
    for _ in range(k):
        t = rng.choice(types)
        x = rng.choice([-n - 1, -2, -1, 0, 1, n - 1, n, n + 1, 2 * n, rng.randint(0, n - 1)])
        y = rng.choice([-n - 1, -2, -1, 0, 1, n - 1, n, n + 1, 2 * n, rng.randint(0, n - 1)])
        if t.is_slide():
            sl = tuple(rng.choice([-1, 0, 1, 1, 2, 3, n, n + 1]) for _ in range(rng.randint(0, n + 1)))
            if allow_none_slides and rng.random() < 0.1:
                sl = None
        else:
            sl = None if rng.random() < 0.8 else (1,)
        out.append(tak.Move(x, y, t, sl))
    return out


def moves_for(rng, p, k_table, k_legalish, k_ill):
    """moves tried on position p by the commutation oracle: generator output (mostly legal), table sample, ill-formed"""
    import tak
    from tak import moves as tm
    n = p.size
    table = tm.all_moves_for_size(n)
    ms = list(p.all_moves())
    rng.shuffle(ms)
    ms = ms[:k_legalish]
    ms += table if len(table) <= k_table else rng.sample(table, k_table)
    ms += illformed_moves(rng, n, k_ill, False)
    return ms


# --------------------------------------------------------------------------
# the property's own statement, on the implementation
# --------------------------------------------------------------------------
def _try_move(p, m):
    import tak
    try:
        return ("ok", p.move(m))
    except tak.IllegalMove:
        return ("illegal", None)
    except Exception as e:  # noqa
        return ("crash:" + type(e).__name__, None)


def oracle_group():
    """the eight matrices are the symmetry group of the square.  Returns None or a dict describing the failure."""
    import numpy as np
    from tak.symmetry import symmetry as S
    syms = [[[int(v) for v in row] for row in m] for m in S.SYMMETRIES]
    if len(syms) != 8:
        return {"clause": "eight symmetries", "count": len(syms)}
    for n in (2, 3, 4, 5, 8):
        images = []
        for s in syms:
            img = tuple(_act(s, n, x, y) for x in range(n) for y in range(n))
            if sorted(img) != sorted((x, y) for x in range(n) for y in range(n)):
                return {"clause": "each symmetry is a bijection of the board", "size": n, "matrix": s}
            for x in range(n):
                for y in range(n):
                    for (dx, dy) in ((1, 0), (0, 1)):
                        if x + dx < n and y + dy < n:
                            a, b = _act(s, n, x, y), _act(s, n, x + dx, y + dy)
                            if abs(a[0] - b[0]) + abs(a[1] - b[1]) != 1:
                                return {"clause": "adjacency preserved", "size": n, "matrix": s, "square": [x, y]}
            images.append(img)
        for i, j in itertools.combinations(range(8), 2):
            if images[i] == images[j]:
                return {"clause": "the eight symmetries are pairwise distinct maps of the board", "size": n,
                        "indices": [i, j], "matrices": [syms[i], syms[j]]}
        for i in range(8):
            for j in range(8):
                comp = tuple(_act(syms[i], n, *_act(syms[j], n, x, y)) for x in range(n) for y in range(n))
                if comp not in images:
                    return {"clause": "closed under composition", "size": n, "indices": [i, j]}
        if images[0] != tuple((x, y) for x in range(n) for y in range(n)):
            return {"clause": "the first symmetry is the identity", "size": n, "matrix": syms[0]}
    return None


def oracle_position(p, ms):
    """C15's statement for one position and a list of moves, on the implementation.  None or a failure dict."""
    import tak
    from tak.symmetry import symmetry as S
    n = p.size
    base = [(_try_move(p, m)) for m in ms]
    pw = p.winner()
    ph = p.has_road()
    ts = []
    for k, s in enumerate(S.SYMMETRIES):
        try:
            t = S.transform_position(s, p)
        except Exception as e:  # noqa
            return {"clause": "transform_position raised", "sym": k, "error": repr(e)}
        ts.append(t)
        if (t.size, t.ply, t.to_move(), t.stones) != (p.size, p.ply, p.to_move(), p.stones):
            return {"clause": "size, ply, side to move and reserves are unchanged by a transformation", "sym": k,
                    "before": [p.size, p.ply, [[c.stones, c.caps] for c in p.stones]],
                    "after": [t.size, t.ply, [[c.stones, c.caps] for c in t.stones]]}
        if len(t.board) != n * n or any(t.board[_act(s, n, x, y)[0] + _act(s, n, x, y)[1] * n] != p.board[x + y * n]
                                        for x in range(n) for y in range(n)):
            return {"clause": "the transformed board holds at g(v) what the board held at v", "sym": k}
        if t.winner() != pw or t.has_road() != ph:
            return {"clause": "game outcome is unchanged by a transformation", "sym": k,
                    "before": repr((pw, ph)), "after": repr((t.winner(), t.has_road())),
                    "transformed": takio.j_pos(t)}
        for m, (st, r) in zip(ms, base):
            try:
                m2 = S.transform_move(s, m, n)
            except Exception as e:  # noqa
                return {"clause": "transform_move raised", "sym": k, "move": takio.j_move(m), "error": repr(e)}
            st2, r2 = _try_move(t, m2)
            if st != st2:
                return {"clause": "legality is unchanged by a transformation", "sym": k, "move": takio.j_move(m),
                        "transformed_move": takio.j_move(m2), "before": st, "after": st2}
            if st == "ok":
                tr = S.transform_position(s, r)
                if tr != r2:
                    return {"clause": "transform then play = play then transform", "sym": k, "move": takio.j_move(m),
                            "transformed_move": takio.j_move(m2),
                            "play_then_transform": takio.j_pos(tr), "transform_then_play": takio.j_pos(r2)}
    try:
        vs = S.symmetries(p)
    except Exception as e:  # noqa
        return {"clause": "symmetries raised", "error": repr(e)}
    if not vs or vs[0][1] != p:
        return {"clause": "the list of variants starts with the position itself",
                "head": takio.j_pos(vs[0][1]) if vs else None}
    for i, j in itertools.combinations(range(len(vs)), 2):
        if vs[i][1] == vs[j][1]:
            return {"clause": "each distinct variant exactly once", "duplicate_indices": [i, j]}
    for t in ts:
        if not any(t == q for _, q in vs):
            return {"clause": "every variant is listed", "missing": takio.j_pos(t)}
    for s, q in vs:
        if not any(q == t for t in ts):
            return {"clause": "only variants are listed", "extra": takio.j_pos(q)}
        if S.transform_position(s, p) != q:
            return {"clause": "each entry pairs a matrix with its variant", "matrix": [[int(v) for v in row] for row in s]}
    return None


# --------------------------------------------------------------------------
# Coq literals
# --------------------------------------------------------------------------
def c_mat(m):
    return clist([core.czlist([int(v) for v in row]) for row in m])


def _c_outcome(w, h):
    reason = "None" if w[1] is None else ("(Some Road)" if w[1].name == "ROAD" else "(Some Flats)")
    return f"(({takio.c_color(w[0])}, {reason}), {takio.c_color(h)})"


def _cases_positions(run, plist):
    from tak.symmetry import symmetry as S
    cs = core.Cases(ID, "tp", HEADER,
                    "position * list position * list (mat * position) * list ((option color * option reason) * option color)",
                    "fun c => let '(p, ts, vs, ws) := c in "
                    "list_eqb position_eqb (map (fun g => transform_position g p) syms) ts && variants_eqb (symmetries p) vs && "
                    "list_eqb out_eqb (map (fun g => (winner (transform_position g p), has_road (transform_position g p))) syms) ws",
                    show="fun c => let '(p, ts, vs, ws) := c in "
                         "(map (fun gt => position_eqb (transform_position (fst gt) p) (snd gt)) (combine syms ts), "
                         "Z.of_nat (length syms), variants_eqb (symmetries p) vs, "
                         "map (fun gq => existsb (mat_eqb (fst gq)) syms) (symmetries p), Z.of_nat (length (symmetries p)), "
                         "map (fun g => (winner (transform_position g p), has_road (transform_position g p))) syms, ws)",
                    shard=12)
    crashes = []
    for label, p in plist:
        try:
            ts = [S.transform_position(s, p) for s in S.SYMMETRIES]
            vs = S.symmetries(p)
            ws = [(t.winner(), t.has_road()) for t in ts]
        except Exception as e:  # noqa
            crashes.append((label, p, repr(e)))
            continue
        term = (f"({takio.c_pos(p)}, {clist([takio.c_pos(t) for t in ts])}, "
                f"{clist(['(' + c_mat(s) + ', ' + takio.c_pos(q) + ')' for s, q in vs])}, "
                f"{clist([_c_outcome(w, h) for w, h in ws])})")
        cs.add(term, {"kind": "transform_position+symmetries", "label": label, "pos": takio.j_pos(p), "n_variants": len(vs)})
    return cs, crashes


def _cases_moves(run):
    """transform_move: 8 matrices x (table or sample + ill-formed) per size"""
    import tak
    from tak import moves as tm
    from tak.symmetry import symmetry as S
    rng = run.rng
    cs = core.Cases(ID, "tm", HEADER, "Z * Z * list (mv * option mv)",
                    "fun c => let '(n, k, l) := c in let g := nth (Z.to_nat k) syms [] in "
                    "forallb (fun mm => opt_eqb mv_eqb (transform_move_opt g (fst mm) n) (snd mm)) l",
                    show="fun c => let '(n, k, l) := c in let g := nth (Z.to_nat k) syms [] in "
                         "(g, filter (fun r => negb (opt_eqb mv_eqb (fst r) (snd (snd r)))) "
                         "(map (fun mm => (transform_move_opt g (fst mm) n, mm)) l))",
                    shard=16)
    full_upto = 5 if run.quick else 6
    n_sample = 250 if run.quick else 3000
    n_ill = 120 if run.quick else 1000
    tot = nontrivial = 0
    dist = {}
    crashes = []
    for n in range(3, 9):
        table = tm.all_moves_for_size(n)
        ms = list(table) if n <= full_upto else rng.sample(table, min(n_sample, len(table)))
        ms += illformed_moves(rng, n, n_ill, True)
        dist[f"size{n}"] = len(ms)
        chunks = [ms[i:i + 150] for i in range(0, len(ms), 150)]
        for k, s in enumerate(S.SYMMETRIES):
            for chunk in chunks:
                items = []
                for m in chunk:
                    try:
                        m2 = S.transform_move(s, m, n)
                    except KeyError:
                        m2 = None
                    except Exception as e:  # noqa
                        crashes.append((n, k, m, repr(e)))
                        continue
                    items.append(f"({takio.c_move(m)}, {copt(None if m2 is None else takio.c_move(m2))})")
                    tot += 1
                    nontrivial += int(m.type.is_slide() and k != 0)
                # the chunk (shared by the 8 matrices) is turned into JSON only if the case fails
                cs.add(f"({n}, {k}, {clist(items)})", {"kind": "transform_move", "size": n, "sym": k, "chunk": chunk})
    return cs, tot, nontrivial, dist, crashes


def _h(obj):
    return hashlib.sha256(json.dumps(obj, sort_keys=True, default=str).encode()).hexdigest()[:10]


def _canon(p):
    return (p.size, p.ply, tuple((s.stones, s.caps) for s in p.stones),
            tuple(tuple((x.color.value, x.kind.value) for x in sq) for sq in p.board))


# --------------------------------------------------------------------------
# entry points
# --------------------------------------------------------------------------
def _oracle_pass(run, plist):
    k_moves = (24, 24, 12) if run.quick else (100, 100, 40)
    n_oracle = len(plist) if run.quick else 1200
    evals = 0
    bad = None
    for label, p in plist[:n_oracle]:
        ms = moves_for(run.rng, p, *k_moves)
        verdict = oracle_position(p, ms)
        evals += 8 * len(ms)
        if verdict is not None:
            bad = (label, p, ms, verdict)
            break
    return evals, bad


def correspondence(run):
    core.setup_impl()
    import tak  # noqa: F401
    from tak.symmetry import symmetry as S
    n_pos = 400 if run.quick else 5000
    plist = positions(run, n_pos)

    # (1) the group, on the implementation's matrices
    gfail = oracle_group()
    run.oblige("oracle:the eight matrices form the symmetry group of the square (sizes 2,3,4,5,8)", gfail is None, str(gfail))
    if gfail is not None:
        run.violation("group", {"clause": gfail["clause"], "input": {"kind": "group"}, "detail": gfail,
                                "SYMMETRIES": [[[int(v) for v in row] for row in m] for m in S.SYMMETRIES]})

    # (2) transform_position (8 x positions) and symmetries(p), compared with the model inside Coq
    cs, crashes = _cases_positions(run, plist)
    cm, tot, nontrivial, mdist, mcrashes = _cases_moves(run)
    pool = ThreadPoolExecutor(max_workers=2)       # the Coq shards run while the oracle (4) runs below
    fut_tp, fut_tm = pool.submit(cs.run), pool.submit(cm.run)
    oracle_result = _oracle_pass(run, plist)
    failing, shard_fail, nshards = fut_tp.result()
    run.oblige(f"correspondence:transform_position+symmetries ({nshards} shards)", not shard_fail and not crashes,
               str(shard_fail)[:1500] + str([c[2] for c in crashes[:3]]))
    distinct = {_canon(p) for _, p in plist}
    nontriv = {_canon(p) for _, p in plist if any(p.board)}
    dist = {}
    for label, p in plist:
        key = label.rstrip("0123456789") if label.startswith(("playout", "endgame")) else label.split("-")[0].rstrip("0123456789")
        dist[key] = dist.get(key, 0) + 1
        dist[f"size{p.size}"] = dist.get(f"size{p.size}", 0) + 1
    custom = sum(1 for _, p in plist if p.stones[0] != p.stones[1] or
                 (p.stones[0].stones + sum(1 for sq in p.board for x in sq if x.color.value == 0 and x.kind.value != 2)) !=
                 tak.Config(size=p.size).flat_count)
    dist["custom_or_unequal_reserves"] = custom
    dist["finished_games"] = sum(1 for _, p in plist if p.winner()[1] is not None)
    dist["built_double_roads"] = sum(1 for label, _ in plist if label.startswith("double-road") or label.endswith("-parallel"))
    nv = {}
    for m in cs.metas:
        nv[m["n_variants"]] = nv.get(m["n_variants"], 0) + 1
    dist["variants_histogram"] = {str(k): v for k, v in sorted(nv.items())}
    run.count(8 * len(cs) + len(cs), len(nontriv),
              "8 x positions: transform_position output compared with the model, plus the symmetries(p) list (matrix and position "
              "of every entry); distinct by (size, ply, reserves, board), non-trivial = non-empty board",
              [{"label": m["label"], "tps": m["pos"]["tps"], "stones": m["pos"]["stones"], "n_variants": m["n_variants"]}
               for m in cs.metas[6:10]], dist, label="transform_position")
    run.extra["distinct_positions"] = len(distinct)
    for label, p, err in crashes:
        run.violation(f"tp-crash-{label}", {"clause": "transform_position / symmetries raised", "error": err,
                                            "input": {"kind": "position", "pos": takio.j_pos(p), "moves": []}})
    for meta in failing[:6]:
        p = takio.mk_pos(meta["pos"])
        verdict = oracle_position(p, moves_for(run.rng, p, 60, 60, 30))
        run.violation(f"tp-{meta['label']}-{_h(meta['pos'])}",
                      {"clause": (verdict or {}).get("clause", "transform_position / symmetries differ from the model (proved to satisfy C15)"),
                       "input": {"kind": "position", "pos": meta["pos"], "moves": []}, "oracle": verdict,
                       "impl_variants": meta["n_variants"],
                       "model_view(per-matrix agreement, |syms|, variants agree, matrices known, |symmetries p|, model outcomes, impl outcomes)":
                           cs.model_view(cs.terms[cs.metas.index(meta)])},
                      found_input=verdict is not None)

    # (3) transform_move, compared with the model inside Coq
    failing2, shard_fail2, nshards2 = fut_tm.result()
    pool.shutdown()
    run.oblige(f"correspondence:transform_move ({nshards2} shards)", not shard_fail2 and not mcrashes,
               str(shard_fail2)[:1500] + str(mcrashes[:2]))
    run.count(tot, nontrivial // 7,
              "8 x (whole move table of sizes 3-5 [thorough: 3-6] or a sample of it + ill-formed moves with off-board squares in "
              "[-size-1, 2*size]): transform_move output (KeyError = None) compared with the model; non-trivial = distinct slide moves",
              [{"size": 5, "sym": 3, "move": {"x": 1, "y": 2, "type": "SLIDE_LEFT", "slides": [1]}}], mdist, label="transform_move")
    for (n, k, m, err) in mcrashes[:3]:
        run.violation(f"tm-crash-{n}-{k}", {"clause": "transform_move raised", "error": err,
                                            "input": {"kind": "move", "size": n, "sym": k, "moves": [takio.j_move(m)]}})
    for meta in failing2[:4]:
        view = cm.model_view(cm.terms[[id(x) for x in cm.metas].index(id(meta))])
        # feed the disagreement to the oracle: play the moves of the case on a position of that size
        p = _playout(run.rng, meta["size"], False, 3 * meta["size"], True)
        meta = dict(meta, moves=[takio.j_move(x) for x in meta["chunk"]])
        del meta["chunk"]
        ms = [takio.mk_move(d) for d in meta["moves"] if not (d["type"].startswith("SLIDE") and d["slides"] is None)]
        ms += moves_for(run.rng, p, 40, 60, 0)
        verdict = oracle_position(p, ms)
        run.violation(f"tm-size{meta['size']}-sym{meta['sym']}",
                      {"clause": (verdict or {}).get("clause", "transform_move differs from the model (proved to satisfy C15)"),
                       "input": {"kind": "position", "pos": takio.j_pos(p), "moves": meta["moves"]},
                       "sym": meta["sym"], "oracle": verdict, "model_view(matrix, [(model output, (input, impl output))])": view},
                      found_input=verdict is not None)

    # (4) the property's own statement, directly on the implementation
    evals, bad = oracle_result
    run.oblige("oracle:commutation, legality, outcome, ply/side/reserves, variants list on the implementation", bad is None,
               "" if bad is None else str(bad[3])[:800])
    run.count(evals, 0, "8 x positions x (legal-ish + table sample + ill-formed moves): transform-then-play vs play-then-transform, "
              "winner/ply/side/reserves equality and the symmetries(p) statement evaluated on the implementation alone",
              [], label="oracle")
    if bad is not None:
        label, p, ms, verdict = bad
        keep = [m for m in ms if verdict.get("move") is None or takio.j_move(m) == verdict.get("move")][:20]
        run.violation(f"oracle-{label}-{_h(takio.j_pos(p))}",
                      {"clause": verdict["clause"], "oracle": verdict,
                       "input": {"kind": "position", "pos": takio.j_pos(p), "moves": [takio.j_move(m) for m in keep]}})


def search(run, broken):
    """a proof / tie / shard broke but nothing concrete was found yet: the property's statement on the implementation"""
    core.setup_impl()
    from tak.symmetry import symmetry as S
    g = oracle_group()
    if g is not None:
        run.violation("group", {"clause": g["clause"], "input": {"kind": "group"}, "detail": g,
                                "SYMMETRIES": [[[int(v) for v in row] for row in m] for m in S.SYMMETRIES]})
        return True
    for label, p in positions(run, 600):
        ms = moves_for(run.rng, p, 80, 80, 40)
        verdict = oracle_position(p, ms)
        if verdict is not None:
            keep = [m for m in ms if verdict.get("move") is None or takio.j_move(m) == verdict.get("move")][:20]
            run.violation(f"oracle-{label}", {"clause": verdict["clause"], "oracle": verdict,
                                              "input": {"kind": "position", "pos": takio.j_pos(p),
                                                        "moves": [takio.j_move(m) for m in keep]}})
            return True
    return False


def replay(run, rp):
    core.setup_impl()
    inp = rp.get("input", {})
    if inp.get("kind") == "group" or "pos" not in inp:
        g = oracle_group()
        return {"violates": g is not None, "detail": g}
    p = takio.mk_pos(inp["pos"])
    ms = [takio.mk_move(d) for d in inp.get("moves", [])]
    ms = [m for m in ms if not (m.type.is_slide() and m.slides is None)]
    if not ms:
        ms = moves_for(run.rng, p, 60, 60, 30)
    verdict = oracle_position(p, ms)
    out = {"violates": verdict is not None, "oracle": verdict}
    if verdict is None:
        # the statement holds on the implementation for this input: re-run the comparison with the model
        cs, crashes = _cases_positions(run, [("replay", p)])
        failing, shard_fail, _ = cs.run()
        out.update({"violates": bool(failing or shard_fail or crashes), "model_disagrees": bool(failing)})
    return out


# ---- translator tie (T): the C15_source_* theorems quantify over functions REGENERATED FROM THE SOURCE; t15's
# correspondence validates the semantics library and the translation scheme on every run.
from . import t15 as _t15  # noqa: E402

MODEL_TARGETS = sorted(set(list(MODEL_TARGETS) + list(_t15.MODEL_TARGETS)))
TRUSTED_BASE = list(TRUSTED_BASE) + list(getattr(_t15, "TRUSTED_BASE", []))
_c15_correspondence = correspondence


def pregen(run):
    return _t15.pregen(run)


def correspondence(run):
    _c15_correspondence(run)
    _t15.correspondence(run)
