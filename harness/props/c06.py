"""C06 - position token encoding is lossless and mover-relative.

Correspondence (D): the real tak.model.encoding.encode / decode / encode_batch are run on
  * positions of sizes 3-6 from seeded random playouts (standard and custom reserves),
  * constructed boards with tall stacks, walls, capstones and custom reserves incl. the ends
    of the vocabulary (0, 49, caps 0/1),
  * out-of-domain positions (reserves >= 50, negative reserves that Python's indexing wraps,
    caps >= 2, buried walls, boards that are not size^2): compared faithfully with the model,
    but a disagreement THERE is not a violation of the property (it is listed in the evidence),
  * token streams that are no encodings (decode on malformed input; same remark),
  * batches of positions in shuffled order incl. mixed sizes and out-of-domain members,
  * batch HISTORIES: r1 = encode_batch(A); r2 = encode_batch(B) [; r3 = encode_batch(C)] with len(B) == len(A)
    (B = reversed(A), B = A, other positions of the same / a larger / a smaller width), after which EVERY earlier
    result is read again (tokens and mask) and compared with the model's batch of ITS OWN input - a result
    that a later call overwrites (shared buffer) is a violation with the whole call sequence as the replay,
and the observed lists / decoded positions / nested tensors are compared inside Coq with
model/Encoding.v (check_position, check_decode, check_batch).  Every in-domain input is also
put through an executable oracle of the property's own clauses on the implementation
(round trip, injectivity over everything seen, colour-swap law, byte range, batch layout)."""
import hashlib
import json

from .. import core, takio
from ..core import cz, clist, czlist, cbool

ID = "C06"
THEOREMS = ["C06_decode_encode", "C06_encode_distinct", "C06_encode_injective", "C06_encode_swap",
            "C06_encode_swap_token", "C06_tokens_byte", "C06_batch_rows", "C06_batch_rows_inv",
            "C06_batch_raises", "C06_batch_defined", "C06_mask_selects_encoding", "C06_pad_is_empty_token",
            "C06_mask_essential", "C06_vocabulary_tie", "C06_reachable_encodable",
            "C06_reachable_encodable_standard",
            "C06_source_encode_eq", "C06_source_decode_encode", "C06_source_encode_injective", "C06_source_encode_swap", "C06_source_tokens_byte", "C06_source_decode_ok_iff", "C06_source_round_trip",
            "C06_source_encode_batch_eq", "C06_source_batch_rows", "C06_source_batch_raises", "C06_source_uninit_irrelevant"]
MODEL_TARGETS = ["model/Tak.vo", "model/Harness.vo", "model/Lit.vo", "model/Encoding.vo"]
TRUSTED_BASE = [
    "CPython list indexing incl. negative indices (py_index), torch.tensor/zeros/slice assignment as list operations, "
    "tensor.tolist(): modelled, validated by the correspondence",
    "int(len ** 0.5) modelled as Z.sqrt (exact for every tensor length that occurs)",
]
ASSUMPTIONS = [
    "domain of the lossless/injective clauses: encodable = size 3..6, size^2 squares, reserves 0..49, capstones 0..1, "
    "only the top piece of a stack standing/capstone; reachable positions of sizes 3..6 are in it by "
    "C06_reachable_encodable (from C04's invariant, proofs/Invariant.v)",
    "decode() raising AssertionError/IndexError/KeyError/AttributeError is one outcome (None) in the model",
]

HEADER = ("From Coq Require Import ZArith List Bool.\n"
          "From TV Require Import model.Tak model.Lit model.Encoding.\nImport ListNotations.")

DEC_RAISES = ("AssertionError", "IndexError", "KeyError", "AttributeError")
MAX_REPORT = 4          # replay files written per family


# --------------------------------------------------------------------------
# implementation side
# --------------------------------------------------------------------------
def _impl():
    core.setup_impl()
    import tak
    import torch
    from tak.model import encoding
    return tak, torch, encoding


def pos_key(p):
    h = hashlib.sha256(json.dumps(takio.j_pos(p), sort_keys=True).encode()).hexdigest()[:16]
    return f"{p.size}x{p.size}-ply{p.ply}-{h}"


def in_domain(p):
    import tak
    if not (3 <= p.size <= 6 and len(p.board) == p.size * p.size):
        return False
    for s in p.stones:
        if not (0 <= s.stones <= 49 and 0 <= s.caps <= 1):
            return False
    return all(x.kind == tak.Kind.FLAT for sq in p.board for x in sq[1:])


def triple(p):
    return (tuple(tuple((x.color.value, x.kind.value) for x in sq) for sq in p.board), p.to_move().value,
            tuple((s.stones, s.caps) for s in p.stones))


def swap_colours(p):
    import tak
    board = [[tak.Piece.cached(x.color.flip(), x.kind) for x in sq] for sq in p.board]
    return tak.Position(size=p.size, ply=p.ply + 1, stones=(p.stones[1], p.stones[0]), board=board)


def obs_encode(enc, p, s):
    try:
        r = enc.encode(p, s)
        return ("ok", [int(t) for t in r])
    except IndexError:
        return ("raise", "IndexError")
    except Exception as e:  # noqa
        return ("crash", type(e).__name__)


def obs_decode(torch, enc, toks, dtype=None):
    try:
        r = enc.decode(torch.tensor(toks, dtype=dtype or torch.uint8))
        return ("ok", r)
    except Exception as e:  # noqa
        n = type(e).__name__
        return ("raise", n) if n in DEC_RAISES else ("crash", n)


def obs_batch(torch, enc, ps, s):
    try:
        out, mask = enc.encode_batch(ps, s)
        if out.dtype != torch.uint8 or mask.dtype != torch.bool or out.shape != mask.shape or out.dim() != 2:
            return ("crash", f"dtype/shape {out.dtype} {mask.dtype} {tuple(out.shape)} {tuple(mask.shape)}")
        return ("ok", (out.tolist(), mask.tolist()))
    except IndexError:
        return ("raise", "IndexError")
    except Exception as e:  # noqa
        return ("crash", type(e).__name__)


def c_obs(o, lit):
    if o[0] == "ok":
        return f"(ObsOk {lit(o[1])})"
    return "ObsRaise" if o[0] == "raise" else "ObsCrash"


def c_rows(rm):
    rows, mask = rm
    return ("(" + clist([czlist(r) for r in rows]) + ", "
            + clist([clist([cbool(b) for b in m]) for m in mask]) + ")")


def j_obs(o):
    if o[0] != "ok":
        return {"exception": o[1]}
    v = o[1]
    if hasattr(v, "board"):
        return takio.j_pos(v)
    return v


# --------------------------------------------------------------------------
# generators
# --------------------------------------------------------------------------
def playout_positions(rng, cfg, max_ply):
    """every position of one seeded random playout; slides are favoured so that stacks grow"""
    import tak
    p = tak.Position.from_config(cfg)
    seen = [p]
    while p.ply < max_ply:
        if p.ply >= 2 and p.winner()[0] is not None:
            break
        ms = list(p.all_moves())
        rng.shuffle(ms)
        if rng.random() < 0.55:
            ms.sort(key=lambda m: 0 if (m.type.is_slide() and sum(m.slides) >= 2) else (1 if m.type.is_slide() else 2))
        q = None
        for m in ms[:60]:
            try:
                q = p.move(m)
                break
            except tak.IllegalMove:
                continue
        if q is None:
            break
        p = q
        seen.append(p)
    return seen


RES_CHOICES = [0, 0, 1, 2, 10, 15, 21, 30, 48, 49, 49]


def constructed_position(rng, size, tall=False):
    """a board with tall mixed-colour stacks, walls and capstones (only on top); reserves chosen
    freely inside the vocabulary (the board does not have to account for them)"""
    import tak
    C, K = tak.Color, tak.Kind
    squares = []
    for _ in range(size * size):
        r = rng.random()
        if r < 0.35:
            squares.append([])
            continue
        if tall and r > 0.9:
            h = rng.randint(10, 40)
        else:
            h = 1 if r < 0.55 else rng.randint(2, size + 4)
        kr = rng.random()
        kind = K.FLAT if kr < 0.55 else (K.STANDING if kr < 0.8 else K.CAPSTONE)
        st = [tak.Piece.cached(C(rng.randint(0, 1)), kind)]
        st += [tak.Piece.cached(C(rng.randint(0, 1)), K.FLAT) for _ in range(h - 1)]
        squares.append(st)

    def res():
        return rng.choice(RES_CHOICES) if rng.random() < 0.6 else rng.randint(0, 49)
    stones = (tak.StoneCounts(res(), rng.randint(0, 1)), tak.StoneCounts(res(), rng.randint(0, 1)))
    return tak.Position(size=size, ply=rng.randint(0, 80), stones=stones, board=squares)


OOD_RES = [50, 51, 64, 100, 255, 1000, -1, -2, -49, -50, -51, -100]
OOD_CAPS = [2, 3, 7, -1, -2, -3, -10]


def out_of_domain_position(rng, base):
    """one thing wrong with an in-domain position: a reserve / capstone count the vocabulary cannot index
    (or that Python wraps), a buried wall / capstone, a board that is not size^2, a size outside 3..6"""
    import tak
    import attrs
    C, K = tak.Color, tak.Kind
    k = rng.randint(0, 9)
    st = [[s.stones, s.caps] for s in base.stones]
    board = [list(sq) for sq in base.board]
    size, ply = base.size, base.ply
    if k <= 3:
        st[rng.randint(0, 1)][0] = rng.choice(OOD_RES)
    elif k <= 5:
        st[rng.randint(0, 1)][1] = rng.choice(OOD_CAPS)
    elif k == 6:
        st[0][0] = rng.choice(OOD_RES)
        st[1][1] = rng.choice(OOD_CAPS)
    elif k == 7:
        i = rng.randrange(len(board))
        board[i] = board[i] + [tak.Piece.cached(C(rng.randint(0, 1)), rng.choice([K.STANDING, K.CAPSTONE])),
                               tak.Piece.cached(C(rng.randint(0, 1)), K.FLAT)]
        if len(board[i]) == 2:
            board[i].insert(0, tak.Piece.cached(C(rng.randint(0, 1)), K.FLAT))
    elif k == 8:
        if rng.random() < 0.5:
            board = board[:-rng.randint(1, 2)]
        else:
            board = board + [[]] * rng.randint(1, 3)
    else:
        size = rng.choice([2, 7, 8])
        board = [[] for _ in range(size * size)]
        ply = rng.randint(-3, 5)
    return tak.Position(size=size, ply=ply, stones=tuple(tak.StoneCounts(a, b) for a, b in st), board=board)


def positions(run, n_playout, n_constructed, n_ood):
    """-> list of (position, kind); distinct by canonical hash"""
    import tak
    rng = run.rng
    out, seen = [], set()

    def add(p, kind):
        k = pos_key(p)
        if k in seen:
            return False
        seen.add(k)
        out.append((p, kind))
        return True

    # fixed seeds of the corpus kind: the start positions, the F2 input, ends of the vocabulary
    for size in (3, 4, 5, 6):
        add(tak.Position.from_config(tak.Config(size=size)), "start")
    add(tak.Position.from_config(tak.Config(size=3, pieces=5, capstones=1)), "custom-start")
    add(tak.Position.from_config(tak.Config(size=6, pieces=49, capstones=1)), "custom-start")
    add(tak.Position.from_config(tak.Config(size=4, pieces=0, capstones=0)), "custom-start")
    per_size = n_playout // 4
    for size in (3, 4, 5, 6):
        got, g = 0, 0
        while got < per_size and g < 10 * per_size:
            g += 1
            if g % 3 == 0:
                cfg = tak.Config(size=size, pieces=rng.randint(2, 49), capstones=rng.randint(0, 1))
                kind = "playout-custom"
            else:
                cfg = tak.Config(size=size)
                kind = "playout"
            seq = playout_positions(rng, cfg, max_ply=rng.choice([6, 20, 40, 80, 120]))
            take = min(len(seq), rng.choice([10, 25, 60]))
            for i in sorted(rng.sample(range(len(seq)), take)):
                if got < per_size and add(seq[i], kind):
                    got += 1
    for i in range(n_constructed):
        size = 3 + i % 4
        add(constructed_position(rng, size, tall=(i % 5 == 0)), "constructed")
    base = [p for p, _ in out]
    n = 0
    while n < n_ood:
        if add(out_of_domain_position(rng, rng.choice(base)), "out-of-domain"):
            n += 1
    # Positions that crossed a process boundary (self-play transcripts arrive through a multiprocessing queue)
    # hold Piece objects that are EQUAL to, but not identical with, the interned ones of Piece.cached:
    # every third position is replaced by its pickle round trip, so code relying on object identity is exercised.
    import pickle
    out = [((pickle.loads(pickle.dumps(p)), kind + "+pickled") if i % 3 == 1 else (p, kind)) for i, (p, kind) in enumerate(out)]
    return out


def malformed_streams(rng, enc, good, k):
    """token lists for decode(): mutated encodings and random bytes"""
    T = enc.Token
    alphabet = list(range(0, 12)) + [T.RESERVES[0] - 1, T.RESERVES[0], T.RESERVES[7], T.RESERVES[-1],
                                     T.CAPSTONES[0], T.CAPSTONES[-1], T.OUTPUT_SENTINEL, 100, 128]
    out = []
    for i in range(k):
        r = rng.random()
        if r < 0.12:
            l = [rng.choice(alphabet) for _ in range(rng.randint(0, 7))]
        elif r < 0.25:
            head = [rng.choice([T.WHITE_TO_PLAY, T.BLACK_TO_PLAY, 0, 255]), rng.choice(T.RESERVES), rng.choice(T.CAPSTONES),
                    rng.choice(T.RESERVES), rng.choice(T.CAPSTONES)]
            n = rng.choice([0, 1, 4, 9, 16, 25, 36, 49, 64, 81, 100, rng.randint(0, 40)])
            body = []
            for _ in range(n):
                body.append(rng.choice([0, 0, 1, 3, 4, 5, 7, 8]))
                if body[-1] != 0:
                    body += [rng.choice([2, 6]) for _ in range(rng.choice([0, 0, 1, 3]))]
            if rng.random() < 0.1:
                body = [rng.choice([2, 6])] + body      # a buried flat before any square
            l = ([255] if rng.random() < 0.5 else []) + head + body
        else:
            l = list(rng.choice(good))
            for _ in range(rng.choice([1, 1, 2, 3])):
                op = rng.randint(0, 3)
                if op == 0 and l:
                    del l[rng.randrange(len(l))]
                elif op == 1:
                    l.insert(rng.randint(0, len(l)), rng.choice(alphabet))
                elif op == 2 and l:
                    l[rng.randrange(len(l))] = rng.choice(alphabet)
                else:
                    l = l[:rng.randint(0, len(l))]
        out.append(l)
    return out


# --------------------------------------------------------------------------
# the property's own statement, on the implementation (in-domain inputs only)
# --------------------------------------------------------------------------
def flip_to_play(enc, l, s):
    T = enc.Token
    i = 1 if s else 0
    l = list(l)
    l[i] = {T.WHITE_TO_PLAY: T.BLACK_TO_PLAY, T.BLACK_TO_PLAY: T.WHITE_TO_PLAY}.get(l[i], l[i])
    return l


def oracle_position(tak, torch, enc, p, injective_seen=None):
    """clauses of C06 violated by the implementation on the in-domain position p"""
    bad = []
    for s in (True, False):
        try:
            l = [int(t) for t in enc.encode(p, s)]
        except Exception as e:  # noqa
            bad.append(f"encode(include_sentinel={s}) raised {type(e).__name__} on an encodable position")
            continue
        if not all(0 <= t < 256 for t in l):
            bad.append(f"a token does not fit in a byte (include_sentinel={s})")
            continue
        try:
            d = enc.decode(torch.tensor(l, dtype=torch.uint8))
            if triple(d) != triple(p):
                what = [n for n, a, b in zip(("board", "side to move", "reserves"), triple(d), triple(p)) if a != b]
                bad.append(f"decode(encode(p)) differs in {', '.join(what)} (include_sentinel={s})")
        except Exception as e:  # noqa
            bad.append(f"decode(encode(p)) raised {type(e).__name__} (include_sentinel={s})")
        try:
            l2 = [int(t) for t in enc.encode(swap_colours(p), s)]
            if l2 != flip_to_play(enc, l, s) or l2 == l:
                bad.append(f"colour-swapped twin does not differ in exactly the side-to-move token (include_sentinel={s})")
        except Exception as e:  # noqa
            bad.append(f"encode(swap_colours(p)) raised {type(e).__name__}")
        if injective_seen is not None:
            k = (s, tuple(l))
            t = triple(p)
            other = injective_seen.setdefault(k, (t, p))
            if other[0] != t:
                bad.append(("two different (board, side, reserves) triples encode alike", takio.j_pos(other[1])))
    return bad


def oracle_batch(torch, enc, ps, s):
    try:
        out, mask = enc.encode_batch(ps, s)
        rows, msk = out.tolist(), mask.tolist()
        encs = [[int(t) for t in enc.encode(p, s)] for p in ps]
    except Exception as e:  # noqa
        return [f"encode_batch raised {type(e).__name__} on encodable positions"]
    w = max([len(e) for e in encs], default=0)
    bad = []
    if rows != [e + [0] * (w - len(e)) for e in encs]:
        bad.append("a batch row is not the position's encoding padded with zeros to the longest encoding")
    if msk != [[True] * len(e) + [False] * (w - len(e)) for e in encs]:
        bad.append("the mask does not mark exactly the real tokens")
    return bad


def expected_batch(enc, ps, s):
    encs = [[int(t) for t in enc.encode(p, s)] for p in ps]
    w = max([len(e) for e in encs], default=0)
    return ([e + [0] * (w - len(e)) for e in encs], [[True] * len(e) + [False] * (w - len(e)) for e in encs])


def _storage_ptr(t):
    try:
        return t.untyped_storage().data_ptr()
    except Exception:  # noqa
        return t.data_ptr()


def run_history(torch, enc, hist):
    """hist = [(positions, include_sentinel), ...]: the calls are made in order; every result is read right
    after its own call ('first') and once more after the LAST call ('late').  -> (records, sharing pairs)"""
    recs = []
    for ps, s in hist:
        try:
            out, mask = enc.encode_batch(ps, s)
            ok = out.dtype == torch.uint8 and mask.dtype == torch.bool and out.shape == mask.shape and out.dim() == 2
            recs.append({"out": out, "mask": mask, "first": (out.tolist(), mask.tolist()) if ok else None,
                         "shape_ok": ok})
        except IndexError:
            recs.append({"exc": ("raise", "IndexError")})
        except Exception as e:  # noqa
            recs.append({"exc": ("crash", type(e).__name__)})
    for r in recs:
        if "exc" in r:
            r["late_obs"] = r["exc"]
        elif not r["shape_ok"]:
            r["late_obs"] = ("crash", "dtype/shape")
        else:
            r["late"] = (r["out"].tolist(), r["mask"].tolist())
            r["late_obs"] = ("ok", r["late"])
    sharing = []
    for i in range(len(recs)):
        for j in range(i + 1, len(recs)):
            a, b = recs[i], recs[j]
            if "out" in a and "out" in b:
                for name in ("out", "mask"):
                    if a[name].numel() and b[name].numel() and _storage_ptr(a[name]) == _storage_ptr(b[name]):
                        sharing.append({"calls": [i, j], "tensor": name})
    return recs, sharing


def oracle_history(torch, enc, hist):
    """-> list of dicts describing calls whose result, read after the last call, is not the batch of its own input"""
    recs, sharing = run_history(torch, enc, hist)
    bad = []
    for k, ((ps, s), r) in enumerate(zip(hist, recs)):
        try:
            exp = expected_batch(enc, ps, s)
        except Exception:  # noqa
            continue
        if r["late_obs"][0] != "ok":
            bad.append({"call": k, "what": f"encode_batch raised {r['late_obs'][1]} on encodable positions"})
            continue
        late = r["late"]
        if (late[0], late[1]) != exp:
            changed = r["first"] is not None and (r["first"][0], r["first"][1]) != (late[0], late[1])
            part = "tokens" if late[0] != exp[0] else "mask"
            bad.append({"call": k, "what": (f"the result of call {k} (of {len(hist)}) no longer holds the batch of its own input "
                                            f"after the later call(s): {part} differ" if changed else
                                            f"the result of call {k} is not the padded per-position encoding ({part} differ)"),
                        "changed_after_return": changed,
                        "shares_storage_with_calls": [x for x in sharing if k in x["calls"]],
                        "read_right_after_the_call": None if r["first"] is None else {"rows": r["first"][0], "mask": r["first"][1]},
                        "read_after_the_last_call": {"rows": late[0], "mask": late[1]},
                        "expected": {"rows": exp[0], "mask": exp[1]}})
    return bad, recs, sharing


def make_history(rng, dom_pool, by_size, i):
    """call sequences around one batch length: reversed, repeated, other positions, wider / narrower followers"""
    n = rng.choice([1, 2, 2, 3, 4, 5, 8])
    szs = sorted(by_size)
    sa = rng.choice(szs)
    A = [rng.choice(by_size[sa]) for _ in range(n)]
    kind = i % 6
    s = (i % 2 == 0)
    if kind == 0:
        hist = [(A, s), (list(reversed(A)), s)]
    elif kind == 1:                                   # other positions, same board size (often the same width)
        hist = [(A, s), ([rng.choice(by_size[sa]) for _ in range(n)], s)]
    elif kind == 2:                                   # the follower is wider
        sb = rng.choice([z for z in szs if z >= sa])
        hist = [(A, s), ([rng.choice(by_size[max(szs)]) if k == 0 else rng.choice(by_size[sb]) for k in range(n)], s)]
    elif kind == 3:                                   # the follower is narrower
        hist = [(A, s), ([rng.choice(by_size[min(szs)]) for _ in range(n)], s)]
    elif kind == 4:                                   # three calls, mixed sizes, the middle one of another length
        hist = [(A, s), ([rng.choice(dom_pool) for _ in range(n + 1)], s), ([rng.choice(dom_pool) for _ in range(n)], not s)]
    else:                                             # the same batch twice, then something else
        hist = [(A, s), (list(A), s), ([rng.choice(dom_pool) for _ in range(n)], s)]
    return hist


def j_history(hist):
    return [{"include_sentinel": s, "positions": [takio.j_pos(p) for p in ps]} for ps, s in hist]


def history_key(hist):
    return "history:" + hashlib.sha256(json.dumps(j_history(hist), sort_keys=True).encode()).hexdigest()[:16]


# --------------------------------------------------------------------------
# correspondence
# --------------------------------------------------------------------------
def position_case(tak, torch, enc, p, ss):
    et, ef = obs_encode(enc, p, True), obs_encode(enc, p, False)
    dt = obs_decode(torch, enc, et[1]) if et[0] == "ok" else ("raise", "-")
    df = obs_decode(torch, enc, ef[1], torch.long) if ef[0] == "ok" else ("raise", "-")
    try:
        q = swap_colours(p)
        es = obs_encode(enc, q, ss)
    except Exception as e:  # noqa
        es = ("crash", type(e).__name__)
    term = (f"({takio.c_pos(p)}, {c_obs(et, czlist)}, {c_obs(ef, czlist)}, {c_obs(dt, takio.c_pos)}, "
            f"{c_obs(df, takio.c_pos)}, {cbool(ss)}, {c_obs(es, czlist)})")
    observed = {"encode(sentinel)": j_obs(et), "encode(no sentinel)": j_obs(ef), "decode(encode(sentinel))": j_obs(dt),
                "decode(encode(no sentinel))": j_obs(df), "swap_include_sentinel": ss, "encode(swap_colours)": j_obs(es)}
    return term, observed, (et, ef, dt, df, es)


def _volumes(run):
    if run.quick:
        return dict(playout=3000, constructed=1500, ood=500, malformed=1200, batches=200, histories=60)
    return dict(playout=20000, constructed=10000, ood=3000, malformed=8000, batches=2000, histories=400)


def _pos_cases():
    return core.Cases(ID, "position", HEADER, "pos_case", "check_position", show="view_position", shard=250)


def _report(run, counter, fam, key, payload):
    counter[fam] = counter.get(fam, 0) + 1
    if counter[fam] <= MAX_REPORT:
        run.violation(key, payload)


def correspondence(run):
    tak, torch, enc = _impl()
    rng = run.rng
    vol = _volumes(run)
    reported = {}
    ood_disagree = []

    # ---------------- positions
    pool = positions(run, vol["playout"], vol["constructed"], vol["ood"])
    cs = _pos_cases()
    inj = {}
    dist = {}
    nontriv = 0
    good_encodings = []
    for i, (p, kind) in enumerate(pool):
        dom = in_domain(p)
        term, observed, raw = position_case(tak, torch, enc, p, ss=(i % 2 == 0))
        cs.add(term, {"kind": kind, "in_domain": dom, "position": takio.j_pos(p), "observed": observed, "key": pos_key(p)})
        dist[f"{kind}-size{p.size}"] = dist.get(f"{kind}-size{p.size}", 0) + 1
        if dom and any(len(sq) >= 2 for sq in p.board):
            nontriv += 1
        if raw[0][0] == "ok" and len(good_encodings) < 400 and p.size <= 4:
            good_encodings.append(raw[0][1] if i % 3 else raw[1][1])
        if dom:
            for b in oracle_position(tak, torch, enc, p, inj):
                extra = {}
                if isinstance(b, tuple):
                    b, other = b
                    extra = {"other_position": other}
                _report(run, reported, "oracle", "position:" + pos_key(p),
                        dict({"clause": b, "input": takio.j_pos(p), "observed": observed}, **extra))
    failing, shard_fail, nshards = cs.run()
    run.oblige(f"correspondence:position ({nshards} shards)", not shard_fail, str(shard_fail)[:1500])
    for meta in failing:
        if meta["in_domain"]:
            view = cs.model_view(cs.terms[cs.metas.index(meta)]) if reported.get("model", 0) < MAX_REPORT else None
            _report(run, reported, "model", "position:" + meta["key"],
                    {"clause": "encode / decode / colour-swap of the implementation differs from the proved model "
                               "on an encodable position", "input": meta["position"], "observed": meta["observed"],
                     "model_view": view})
        else:
            ood_disagree.append({"family": "position", "input": meta["position"], "observed": meta["observed"]})
    n_dom = sum(1 for p, _ in pool if in_domain(p))
    run.count(len(pool), nontriv,
              "positions distinct by canonical hash; each: encode with and without sentinel, decode of both tensors "
              "(uint8 and int64), encode of the colour-swapped twin, all compared in Coq; in-domain ones also through the "
              "property oracle incl. injectivity over everything seen; non-trivial = in-domain with a stack of height >= 2",
              [{"kind": k, "position": takio.j_pos(p)} for p, k in (pool[7:8] + pool[len(pool) // 2:len(pool) // 2 + 1])],
              dict(dist, in_domain=n_dom, out_of_domain=len(pool) - n_dom,
                   max_stack=max((len(sq) for p, _ in pool for sq in p.board), default=0)),
              label="position")

    # ---------------- decode on streams that are no encodings (outside the property; model still compared)
    streams = malformed_streams(rng, enc, good_encodings or [[255, 9, 203, 253, 203, 253]], vol["malformed"])
    cd = core.Cases(ID, "decode", HEADER, "list Z * obs position", "check_decode",
                    show="fun c => decode_pos (fst c)", shard=400)
    kinds = {}
    rejected = set()
    for l in streams:
        o = obs_decode(torch, enc, l, torch.uint8 if rng.random() < 0.7 else torch.long)
        k = o[1] if o[0] != "ok" else "ok"
        kinds[k] = kinds.get(k, 0) + 1
        if k != "ok":
            rejected.add(tuple(l))
        cd.add(f"({czlist(l)}, {c_obs(o, takio.c_pos)})", {"tokens": l, "observed": j_obs(o)})
    failing_d, shard_fail_d, nsh_d = cd.run()
    run.oblige(f"correspondence:decode-malformed ({nsh_d} shards)", not shard_fail_d, str(shard_fail_d)[:1500])
    for meta in failing_d:
        ood_disagree.append({"family": "decode-malformed", "input": meta["tokens"], "observed": meta["observed"]})
    run.count(len(streams), len(rejected),
              "token streams that are not encodings (mutated encodings, random headers/bodies, non-square counts, "
              "sizes > 8): decode's result or exception class compared with the model; non-trivial = distinct rejected ones",
              [{"tokens": streams[0]}], kinds, label="decode-malformed")

    # ---------------- batches
    dom_pool = [p for p, _ in pool if in_domain(p)]
    ood_pool = [p for p, _ in pool if not in_domain(p)]
    cb = core.Cases(ID, "batch", HEADER, "batch_case", "check_batch", show="view_batch", shard=25)
    bdist = {"mixed_sizes": 0, "with_out_of_domain": 0, "empty": 0, "rows": 0}
    bnon = 0
    for i in range(vol["batches"]):
        n = 0 if i == 0 else (1 if i == 1 else rng.choice([2, 2, 3, 4, 5, 8, 8, 12, 16]))
        if i % 4 == 0:
            sz = rng.choice([3, 4, 5, 6])
            ps = [rng.choice([p for p in dom_pool if p.size == sz]) for _ in range(n)]
        else:
            ps = [rng.choice(dom_pool) for _ in range(n)]
        has_ood = False
        if i % 10 == 9 and ps:
            ps[rng.randrange(len(ps))] = rng.choice(ood_pool)
            has_ood = True
        if i % 3 == 1 and len(ps) >= 2:
            ps = ps + [ps[0]]                    # a repeated member
        rng.shuffle(ps)
        s = (i % 2 == 0)
        o = obs_batch(torch, enc, ps, s)
        meta = {"include_sentinel": s, "positions": [takio.j_pos(p) for p in ps], "in_domain": all(in_domain(p) for p in ps),
                "observed": {"exception": o[1]} if o[0] != "ok" else {"rows": o[1][0], "mask": o[1][1]}}
        meta["key"] = "batch:" + hashlib.sha256(json.dumps([s, meta["positions"]], sort_keys=True).encode()).hexdigest()[:16]
        cb.add(f"({cbool(s)}, {clist([takio.c_pos(p) for p in ps])}, {c_obs(o, c_rows)})", meta)
        bdist["rows"] += len(ps)
        bdist["empty"] += (n == 0)
        bdist["with_out_of_domain"] += has_ood
        if len({p.size for p in ps}) > 1:
            bdist["mixed_sizes"] += 1
        if meta["in_domain"]:
            if len({len(r) for r in ([enc.encode(p, s) for p in ps])}) > 1:
                bnon += 1
            for b in oracle_batch(torch, enc, ps, s):
                _report(run, reported, "oracle-batch", meta["key"],
                        {"clause": b, "input": {"include_sentinel": s, "positions": meta["positions"]},
                         "observed": meta["observed"]})
    failing_b, shard_fail_b, nsh_b = cb.run()
    run.oblige(f"correspondence:batch ({nsh_b} shards)", not shard_fail_b, str(shard_fail_b)[:1500])
    for meta in failing_b:
        if meta["in_domain"]:
            view = cb.model_view(cb.terms[cb.metas.index(meta)]) if reported.get("model-batch", 0) < MAX_REPORT else None
            _report(run, reported, "model-batch", meta["key"],
                    {"clause": "encode_batch tensors / mask differ from the proved model on a batch of encodable positions",
                     "input": {"include_sentinel": meta["include_sentinel"], "positions": meta["positions"]},
                     "observed": meta["observed"], "model_view": view})
        else:
            ood_disagree.append({"family": "batch", "input": meta["positions"], "observed": meta["observed"]})
    run.count(vol["batches"], bnon,
              "batches (0..17 positions, shuffled, repeated members, single-size and mixed sizes, some with an "
              "out-of-domain member): out/mask tensors as nested lists compared in Coq and with the padded per-position "
              "encodings; non-trivial = in-domain batches whose rows need different amounts of padding",
              [{"include_sentinel": cb.metas[2]["include_sentinel"], "sizes": [p["size"] for p in cb.metas[2]["positions"]]}]
              if len(cb) > 2 else [], bdist, label="batch")

    # ---------------- batch histories: every earlier result is read again after the later calls
    by_size = {}
    for p in dom_pool:
        by_size.setdefault(p.size, []).append(p)
    ch = core.Cases(ID, "batch_history", HEADER, "batch_case", "check_batch", show="view_batch", shard=25)
    hdist = {"calls": 0, "same_length_followers": 0, "reversed": 0, "wider_follower": 0, "narrower_follower": 0,
             "storage_shared_between_results": 0}
    hnon = 0
    hist_reported = set()
    for i in range(vol["histories"]):
        hist = make_history(rng, dom_pool, by_size, i)
        bad, recs, sharing = oracle_history(torch, enc, hist)
        jh = j_history(hist)
        key = history_key(hist)
        hdist["calls"] += len(hist)
        hdist["storage_shared_between_results"] += bool(sharing)
        widths = [len(r["late"][0][0]) if r.get("late") and r["late"][0] else 0 for r in recs]
        for k in range(1, len(hist)):
            if len(hist[k][0]) == len(hist[0][0]):
                hdist["same_length_followers"] += 1
                hdist["wider_follower"] += widths[k] > widths[0]
                hdist["narrower_follower"] += widths[k] < widths[0]
        hdist["reversed"] += (i % 6 == 0)
        if len(hist[0][0]) >= 2 and len({tuple(r) for r in (recs[0].get("late") or ([], []))[0]}) > 1:
            hnon += 1
        for k, ((ps, s_k), r) in enumerate(zip(hist, recs)):
            ch.add(f"({cbool(s_k)}, {clist([takio.c_pos(p) for p in ps])}, {c_obs(r['late_obs'], c_rows)})",
                   {"key": key, "history": jh, "call": k, "sharing": sharing,
                    "observed": {"exception": r["late_obs"][1]} if r["late_obs"][0] != "ok"
                    else {"rows": r["late"][0], "mask": r["late"][1]}})
        for b in bad[:1]:
            hist_reported.add(key)
            _report(run, reported, "oracle-history", key,
                    dict({"clause": "batch encoding equals per-position encoding padded under a mask marking exactly the real "
                                    "tokens - for all batches in any order: " + b["what"],
                          "call": b["call"], "changed_after_return": b.get("changed_after_return"),
                          "storage_sharing": sharing, "input": {"history": jh}}, **b))
    failing_h, shard_fail_h, nsh_h = ch.run()
    run.oblige(f"correspondence:batch-history ({nsh_h} shards)", not shard_fail_h, str(shard_fail_h)[:1500])
    for meta in failing_h:
        if meta["key"] in hist_reported:      # the oracle's replay (same key) already carries the full picture
            continue
        view = ch.model_view(ch.terms[ch.metas.index(meta)]) if reported.get("model-history", 0) < MAX_REPORT else None
        _report(run, reported, "model-history", meta["key"],
                {"clause": f"the result of encode_batch call {meta['call']}, read after the last call of the sequence, differs "
                           "from the proved model's batch of that call's own input",
                 "input": {"history": meta["history"]}, "call": meta["call"], "storage_sharing": meta["sharing"],
                 "read_after_the_last_call": meta["observed"], "model_view": view})
    run.count(hdist["calls"], hnon,
              "call sequences r1 = encode_batch(A); r2 = encode_batch(B) [; r3] with followers of the same length "
              "(reversed, identical, other positions, wider, narrower, other include_sentinel): every result re-read after "
              "the last call and compared in Coq with the model's batch of its own input, and with the padded per-position "
              "encodings; non-trivial = first batch has >= 2 distinct rows",
              [{"calls": [[p["size"] for p in c["positions"]] for c in ch.metas[0]["history"]]}] if len(ch) else [],
              hdist, label="batch-history")

    run.extra["out_of_domain_disagreements"] = len(ood_disagree)
    run.extra["out_of_domain_disagreement_samples"] = ood_disagree[:5]
    run.extra["reported_per_family"] = reported
    if ood_disagree:
        core.log(f"[C06] note: {len(ood_disagree)} disagreement(s) between model and implementation OUTSIDE the property's "
                 f"domain (not a violation; first: {json.dumps(ood_disagree[0], default=str)[:600]})")


def search(run, broken):
    """a proof, tie or shard broke but no concrete disagreement was reported: run the property's own clauses"""
    tak, torch, enc = _impl()
    vol = _volumes(run)
    pool = positions(run, vol["playout"] // 2, vol["constructed"] // 2, 0)
    inj = {}
    for p, kind in pool:
        if not in_domain(p):
            continue
        bad = oracle_position(tak, torch, enc, p, inj)
        if bad:
            b = bad[0]
            extra = {}
            if isinstance(b, tuple):
                b, other = b
                extra = {"other_position": other}
            run.violation("position:" + pos_key(p), dict({"clause": b, "input": takio.j_pos(p)}, **extra))
            return True
    dom = [p for p, _ in pool if in_domain(p)]
    for i in range(vol["batches"]):
        ps = [run.rng.choice(dom) for _ in range(run.rng.randint(1, 8))]
        s = i % 2 == 0
        bad = oracle_batch(torch, enc, ps, s)
        if bad:
            js = [takio.j_pos(p) for p in ps]
            run.violation("batch:" + hashlib.sha256(json.dumps([s, js], sort_keys=True).encode()).hexdigest()[:16],
                          {"clause": bad[0], "input": {"include_sentinel": s, "positions": js}})
            return True
    # call sequences: a result must still be the batch of its own input after later calls
    by_size = {}
    for p in dom:
        by_size.setdefault(p.size, []).append(p)
    for i in range(3 * vol["histories"]):
        hist = make_history(run.rng, dom, by_size, i)
        bad, recs, sharing = oracle_history(torch, enc, hist)
        if bad:
            b = bad[0]
            run.violation(history_key(hist),
                          dict({"clause": "batch encoding equals per-position encoding padded under a mask marking exactly "
                                          "the real tokens - for all batches in any order: " + b["what"],
                                "call": b["call"], "changed_after_return": b.get("changed_after_return"),
                                "storage_sharing": sharing, "input": {"history": j_history(hist)}}, **b))
            return True
    return False


def replay(run, rp):
    tak, torch, enc = _impl()
    inp = rp.get("input")
    if isinstance(inp, dict) and "history" in inp:
        hist = [([takio.mk_pos(d) for d in c["positions"]], bool(c["include_sentinel"])) for c in inp["history"]]
        bad, recs, sharing = oracle_history(torch, enc, hist)
        ch = core.Cases(ID, "replay_history", HEADER, "batch_case", "check_batch", show="view_batch", shard=25)
        for (ps, s_k), r in zip(hist, recs):
            ch.add(f"({cbool(s_k)}, {clist([takio.c_pos(p) for p in ps])}, {c_obs(r['late_obs'], c_rows)})", {})
        failing, shard_fail, _ = ch.run()
        return {"violates": bool(bad or failing or shard_fail), "oracle": bad, "model_disagrees": bool(failing),
                "storage_sharing": sharing, "calls": len(hist)}
    if isinstance(inp, dict) and "positions" in inp:
        ps = [takio.mk_pos(d) for d in inp["positions"]]
        s = bool(inp.get("include_sentinel", True))
        o = obs_batch(torch, enc, ps, s)
        cb = core.Cases(ID, "replay_batch", HEADER, "batch_case", "check_batch", show="view_batch", shard=25)
        term = f"({cbool(s)}, {clist([takio.c_pos(p) for p in ps])}, {c_obs(o, c_rows)})"
        cb.add(term, {})
        failing, shard_fail, _ = cb.run()
        bad = oracle_batch(torch, enc, ps, s) if all(in_domain(p) for p in ps) else []
        return {"violates": bool(failing or shard_fail or bad), "oracle": bad, "model_disagrees": bool(failing),
                "observed": {"exception": o[1]} if o[0] != "ok" else {"rows": o[1][0], "mask": o[1][1]},
                "model_view": cb.model_view(term)}
    if isinstance(inp, dict) and "board" in inp:
        p = takio.mk_pos(inp)
        cs = core.Cases(ID, "replay_position", HEADER, "pos_case", "check_position", show="view_position", shard=250)
        res = {}
        failing_any = False
        for ss in (True, False):
            term, observed, _ = position_case(tak, torch, enc, p, ss)
            cs.add(term, {"ss": ss})
            res = observed
        failing, shard_fail, _ = cs.run()
        failing_any = bool(failing or shard_fail)
        bad = oracle_position(tak, torch, enc, p) if in_domain(p) else []
        other = rp.get("other_position")
        if other is not None:
            q = takio.mk_pos(other)
            for s in (True, False):
                if triple(p) != triple(q) and obs_encode(enc, p, s) == obs_encode(enc, q, s):
                    bad.append("two different (board, side, reserves) triples encode alike")
                    break
        return {"violates": bool((failing_any and in_domain(p)) or bad), "oracle": [str(b) for b in bad],
                "model_disagrees": failing_any, "in_domain": in_domain(p), "observed": res,
                "model_view": cs.model_view(cs.terms[0])}
    return {"violates": False, "note": "replay file carries no concrete input (a proof / tie obligation broke); "
                                       "re-run ./check C06"}


# ---- translator tie (T): the C06_source_* theorems quantify over gen/EncodingGen.v (encode/decode regenerated from the
# source by harness/py2coq.py against model/PySem.v); t06's correspondence validates PySem.v and the translation scheme.
def pregen(run):
    from . import t06
    return t06.pregen(run)


from . import t06 as _t06  # noqa: E402

MODEL_TARGETS = sorted(set(list(MODEL_TARGETS) + list(_t06.MODEL_TARGETS)))
TRUSTED_BASE = list(TRUSTED_BASE) + [
    "translator harness/py2coq.py and model/PySem.v (Python list indexing incl. negative wrap, dict lookup, unpacking; a tensor "
    "is the list of its entries), validated against CPython and the implementation on every run",
]
_c06_correspondence = correspondence


def correspondence(run):
    _c06_correspondence(run)
    _t06.correspondence(run)


# ---- translator tie (T): the C06_source_* theorems quantify over functions REGENERATED FROM THE SOURCE; t06b's
# correspondence validates the semantics library and the translation scheme on every run.
from . import t06b as _t06b  # noqa: E402

MODEL_TARGETS = sorted(set(list(MODEL_TARGETS) + list(_t06b.MODEL_TARGETS)))
TRUSTED_BASE = list(TRUSTED_BASE) + list(getattr(_t06b, "TRUSTED_BASE", []))
_c06_t06b_correspondence = correspondence
_c06_t06b_pregen = pregen


def pregen(run):
    _c06_t06b_pregen(run)
    return _t06b.pregen(run)


def correspondence(run):
    _c06_t06b_correspondence(run)
    _t06b.correspondence(run)
