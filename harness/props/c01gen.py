"""Translator hook only: regenerates coq/gen/GameGen.v (the shallow embedding of game.py / moves.py / pieces.py written
against model/PySem.v) from the tree under test.  The theorems about it are props/T01.v (harness/props/t01.py)."""
import hashlib

from .. import core, py2coq


def pregen(run):
    text, err = py2coq.translate(core.REPO / "python")
    core.write_if_changed(core.COQ / "gen" / "GameGen.v", text)
    run.oblige("translate:tak/game.py,moves.py,pieces.py -> gen/GameGen.v (shallow embedding over PySem.v)",
               err is None, err or "")
    run.extra["GameGen_sha256"] = hashlib.sha256(text.encode()).hexdigest()[:16]
    return err
