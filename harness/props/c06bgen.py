"""Translator hook only: regenerates coq/gen/EncodeBatchGen.v (the shallow embedding of encoding._encode_batch and
encoding.encode_batch written against model/TorchLite.v / model/PySem.v, calling gen/EncodingGen.v's `encode`) from the
tree under test.  The theorems about it are props/T06b.v (harness/props/t06b.py)."""
import hashlib

from .. import core, torch2coq


def pregen(run):
    text, err = torch2coq.translate_encode_batch(core.REPO / "python")
    core.write_if_changed(core.COQ / "gen" / "EncodeBatchGen.v", text)
    run.oblige("translate:tak/model/encoding.py:_encode_batch, encode_batch -> gen/EncodeBatchGen.v "
               "(shallow embedding over TorchLite.v / PySem.v / EncodingGen.v)", err is None, err or "")
    run.extra["EncodeBatchGen_sha256"] = hashlib.sha256(text.encode()).hexdigest()[:16]
    return err
