"""C08 - search-tree bookkeeping is exact and every expansion is legal.

Trace-based correspondence: real searches of tak.mcts.MCTS are run with
  * a recording evaluator (logs position, raw priors (float32) and value of every populate),
  * a recording descend (torch.multinomial is replaced by a recording sampler: the chosen child
    indices of every simulation are logged; the sampler is the real one, seeded, or an arbitrary
    chooser - the theorems hold for every choice stream),
  * a Dirichlet stand-in that hands out a known noise vector,
all installed from the harness side (nothing in the repository is edited).  The streams and the
final tree as observed go to Coq; model/Mcts.v replays `analyze` on the same streams and the two
trees are compared node for node inside Coq.  A Python auditor of the invariant itself (the
property's own statement, in exact rational arithmetic) runs on every tree as the search oracle.
The machinery is shared with C09 (harness/props/c09.py)."""
import contextlib
import hashlib
import json
import os
import struct
import time
from collections import Counter
from fractions import Fraction

from .. import core, takio
from ..core import cz, clist, copt, czlist

ID = "C08"
THEOREMS = [
    "C08_good_init", "C08_simulate_good", "C08_root_visits_k", "C08_root_visits_fresh",
    "C08_root_visits_reused", "C08_analyze_good", "C08_expanded_bookkeeping", "C08_leaf_bookkeeping",
    "C08_terminal_outcome", "C08_children_one_to_one", "C08_child_positions",
    "C08_child_priors_renormalised", "C08_renorm_is_division", "C08_expansion_records_evaluator", "C08_position_untouched",
    "C08_simulate_bounded", "C08_abs_value_le_sims", "C08_live_has_path",
    "C08_children_are_rulebook_moves", "C08_prior_at_is_table_index",
            "C08_source_update_eq", "C08_source_update_root", "C08_source_populate_terminal", "C08_source_populate_expand", "C08_source_populate_children_legal",
            "C08_source_analyze_tree_eq", "C08_source_descend_eq", "C08_source_analyze_tree_good", "C08_source_analyze_eq"]
MODEL_TARGETS = ["model/Mcts.vo", "model/Harness.vo", "model/Lit.vo"]
TRUSTED_BASE = [
    "recorders installed from the harness side: subclass of MCTS (descend/populate call the originals), "
    "stand-ins for torch.multinomial and torch.distributions.Dirichlet for the duration of a search",
    "torch compares a float32 tensor with the Python float cutoff in float32 (checked on every run: tie:cutoff)",
    "evaluator values are dyadic (k/64) and root-noise inputs are dyadic, so the float sums and the noise mix "
    "of the implementation are exact; child priors are compared within 1e-5 relative inside Coq",
    "wall-clock termination (time_limit) is not modelled: every search runs with time_limit = 0",
]
ASSUMPTIONS = [
    "hypothesis of the property: the evaluator gives at least one legal move the cutoff probability at every "
    "expanded node (all generated evaluators guarantee it)",
    "the rules (Position.move, winner) are those of model/Tak.v, model/Road.v (C01, C02)",
]

HEADER = ("From Coq Require Import ZArith QArith List Bool.\n"
          "From TV Require Import model.Tak model.Lit model.Mcts.\nImport ListNotations.")
CTYPE = "(Z * Z) * (Z * Z) * position * list phase * list eval * onode"
CHECK = ("fun c => let '(co, mx, p0, phs, evs, obs) := c in "
         "check_search (fq co) (fq mx) (1 # 100000)%Q p0 phs evs obs")
SHOW = "fun c => let '(co, mx, p0, phs, evs, obs) := c in show_search (fq co) (fq mx) p0 phs evs obs"
PRIOR_TOL = Fraction(1, 100000)
MAX_REPORTS = 5        # replays written per run (every violating search is counted in the evidence)


class Runaway(Exception):
    pass


# --------------------------------------------------------------------------
# exact numbers
# --------------------------------------------------------------------------
def fme(x):
    """a float (or int) as (m, e) with x == m * 2**e exactly"""
    fr = Fraction(x)
    n, d = fr.numerator, fr.denominator
    e = -(d.bit_length() - 1)
    if e == 0 and n != 0:
        tz = (n & -n).bit_length() - 1
        n >>= tz
        e = tz
    return n, e


def c_fme(x):
    n, e = fme(x)
    return f"({cz(n)}, {cz(e)})"


def c_fq(x):
    return f"(fq {c_fme(x)})"


def c_qvec(vals):
    """a list of floats as a Coq `list Q`: default value + exceptions, or dense"""
    if not vals:
        return "[]"
    d, _ = Counter(vals).most_common(1)[0]
    exc = [(i, v) for i, v in enumerate(vals) if v != d]
    if len(exc) * 10 > len(vals) * 7:
        return "(map fq " + clist([c_fme(v) for v in vals]) + ")"
    return f"(sparse {len(vals)} {c_fme(d)} " + clist([f"({i}, {c_fme(v)})" for i, v in exc]) + ")"


def f32(x):
    import numpy as np
    return float(np.float32(x))


# --------------------------------------------------------------------------
# positions
# --------------------------------------------------------------------------
def snap(p):
    """independent deep structural snapshot of a Position: nested tuples of ints, shares nothing with the object"""
    return (int(p.size), tuple((int(c.stones), int(c.caps)) for c in p.stones), int(p.ply),
            tuple(tuple((int(pc.color.value), int(pc.kind.value)) for pc in sq) for sq in p.board))


def rebuild(s):
    """a Position made of fresh lists from a snapshot (the harness never applies move() to the search's own objects)"""
    import tak
    size, stones, ply, board = s
    return tak.Position(size=size, ply=ply, stones=tuple(tak.StoneCounts(stones=a, caps=b) for a, b in stones),
                        board=[[tak.Piece.cached(tak.Color(c), tak.Kind(k)) for c, k in sq] for sq in board])


def as_snap(x):
    return x if isinstance(x, tuple) else snap(x)


def snap_code(s):
    size, stones, ply, board = s
    digits = []
    for sq in board:
        digits += [3 * c + k + 1 for c, k in sq] + [0]
    val = 0
    for d in reversed(digits):
        val = d + 7 * val
    return [size, stones[0][0], stones[0][1], stones[1][0], stones[1][1], ply, val]


def pos_code(p):
    return snap_code(as_snap(p))


def j_snap(s):
    return takio.j_pos(rebuild(s))


_legal_cache = {}
MUTATING = {}       # snapshot -> ids of moves whose application modified the position they were applied to


def legal_ids(pos):
    """{id: snapshot of the child} over the id table of the size, by the implementation's own rules, computed on a
    private copy rebuilt from a snapshot.  If applying the moves changes the copy (Position.move must not), the set
    is recomputed with a fresh copy per move and the offending ids are remembered in MUTATING."""
    import tak
    from tak.model import encoding
    s = as_snap(pos)
    r = _legal_cache.get(s)
    if r is None:
        size = s[0]
        n = encoding.n_moves_for_size(size)
        fresh = rebuild(s)
        r = {}
        for i in range(n):
            try:
                r[i] = snap(fresh.move(encoding.decode_move(size, i)))
            except tak.IllegalMove:
                pass
        if snap(fresh) != s:
            r, culprits = {}, []
            for i in range(n):
                f = rebuild(s)
                try:
                    r[i] = snap(f.move(encoding.decode_move(size, i)))
                except tak.IllegalMove:
                    pass
                if snap(f) != s:
                    culprits.append((i, snap(f)))
            MUTATING[s] = culprits
        if len(_legal_cache) > 20000:
            _legal_cache.clear()
        _legal_cache[s] = r
    return r


_outcome_cache = {}


def outcome(pos):
    """None if play goes on, else +1/-1/0 for the side to move (on a private copy)"""
    sn = as_snap(pos)
    if sn not in _outcome_cache:
        p = rebuild(sn)
        w, why = p.winner()
        if why is None:
            o = None
        elif w is None:
            o = 0
        else:
            o = 1 if w == p.to_move() else -1
        if len(_outcome_cache) > 50000:
            _outcome_cache.clear()
        _outcome_cache[sn] = o
    return _outcome_cache[sn]


# --------------------------------------------------------------------------
# evaluators (any function of the position / the call count is allowed by the property)
# --------------------------------------------------------------------------
def _h(*parts):
    return int.from_bytes(hashlib.sha256("|".join(str(x) for x in parts).encode()).digest()[:8], "big")


class Evaluator:
    def __init__(self, spec, size):
        self.kind = spec["kind"]
        self.seed = spec.get("seed", 0)
        self.len_mode = spec.get("len", "max")
        self.dyadic = spec.get("dyadic", True)
        self.cutoff32 = f32(spec.get("cutoff", 1e-6))
        # smallest power of two that reaches the cutoff, times 4 when root noise will scale priors down
        p2 = 1.0
        while p2 / 2 >= self.cutoff32:
            p2 /= 2
        self.above = p2 * (4 if spec.get("noisy") else 1)
        self.size = size
        self.calls = 0
        # "constant": one tensor object handed out on every call; "memo": one tensor object per position.  The object
        # handed out is the evaluator's own; `pristine` keeps what it holds by contract (a private copy).
        self.tiny, self.root_value, self.root_ply = spec.get("tiny", 1e-10), spec.get("root_value", 1.0), spec.get("root_ply", -1)
        self.share = spec.get("share")
        self.store = {}          # key -> (tensor handed out, pristine list of floats)
        self.last = None         # (key, tensor, pristine) of the last call
        self.net = None
        if self.kind == "transformer":
            self.net = _make_transformer(self.seed)

    def _shared_vector(self, n):
        """a position-independent dyadic prior vector: uniform, or peaked on a few ids; every entry reaches the cutoff
        also after the noise mix, so the evaluator's hypothesis holds at every position"""
        import numpy as np
        import random as _r
        import torch
        from tak.model import encoding
        full = encoding.MAX_MOVE_ID
        arr = np.full(full, 2.0 ** -12, dtype=np.float32)
        if self.kind != "uniform":
            rng = _r.Random(_h(self.seed, "shared"))
            for i in rng.sample(range(n), min(n, 5)):
                arr[i] = rng.choice([0.25, 0.125, 0.0625])
        return torch.from_numpy(arr)

    def _value(self, key):
        if self.kind in ("pm1", "illegal_mass"):
            return 1.0 if _h(self.seed, "v", key) & 1 else -1.0
        return ((_h(self.seed, "v", key) % 129) - 64) / 64.0

    def evaluate(self, pos):
        import numpy as np
        import torch
        from tak.model import encoding
        self.calls += 1
        n = encoding.n_moves_for_size(pos.size)
        key = tuple(pos_code(pos))
        if self.kind == "drift":
            key = key + (self.calls,)
        if self.kind == "transformer":
            probs, v = self.net.evaluate(pos)
            return probs.clone(), round(v * 64) / 64.0
        if self.share:
            skey = "constant" if self.share == "constant" else key
            if skey not in self.store:
                t = self._shared_vector(n)
                self.store[skey] = (t, [float(x) for x in t.tolist()])
            t, pristine = self.store[skey]
            self.last = (skey, t, pristine)
            return t, self._value(key)          # the evaluator's OWN tensor object
        full = {"max": encoding.MAX_MOVE_ID, "exact": n, "short": max(1, n - 3)}[self.len_mode]
        m = min(n, full)            # the part of the answer that lies inside the size's id table
        legal = sorted(i for i in legal_ids(pos) if i < m)
        arr = np.zeros(full, dtype=np.float32)
        k = self.kind
        h = _h(self.seed, "p", key)
        if k in ("uniform", "pm1"):
            val = 2.0 ** -((n - 1).bit_length()) if self.dyadic else 1.0 / n
            arr[:] = val
        elif k in ("random", "drift"):
            import random as _r
            rng = _r.Random(h)
            back = rng.choice([0, 0, 1, 2, 64])
            arr[:m] = back / 2.0 ** 20
            hot = rng.sample(range(m), min(m, rng.randint(3, 24)))
            for i in hot:
                arr[i] = rng.choice([0, 1, 2, 3, 17, 255, 1024, 4096, 30000]) / 2.0 ** 20
            if legal and not any(arr[i] >= self.above for i in legal):
                arr[legal[h % len(legal)]] = max(4096 / 2.0 ** 20, self.above)
            arr[n:] = 0.25         # beyond the size's table: must be ignored
        elif k == "dense":
            import random as _r
            rng = _r.Random(h)
            arr[:m] = np.array([rng.randint(0, 255) for _ in range(m)], dtype=np.float32) / 2.0 ** 14
            if legal and not any(arr[i] >= self.above for i in legal):
                arr[legal[h % len(legal)]] = 1 / 64.0
            arr[n:] = 0.5
        elif k == "blind_win":
            # the network is blind to the winning moves (prior `tiny`, far below any ordinary cutoff), uniform elsewhere;
            # values: `root_value` at the ply the search starts from, +1 ("the side to move is better") below it
            wins = [i for i in legal if outcome(legal_ids(pos)[i]) == -1]
            if not wins and legal:
                wins = [legal[h % len(legal)]]
            rest = [i for i in legal if i not in wins]
            for i in rest:
                arr[i] = 1.0 / max(1, len(rest))
            for i in wins:
                arr[i] = self.tiny
            v = self.root_value if pos.ply == self.root_ply else 1.0
            return torch.from_numpy(arr.copy()), v
        elif k == "illegal_mass":
            # all the mass on ids the rules refuse, one legal id just above the cutoff, the rest 0
            illegal = [i for i in range(m) if i not in legal_ids(pos)]
            for j in range(min(6, len(illegal))):
                arr[illegal[(h >> (3 * j)) % len(illegal)]] = 0.125
            if legal:
                arr[legal[h % len(legal)]] = self.above
            arr[n:] = 0.125
        elif k == "cutoff_edge":
            # legal ids sit exactly on the cutoff (kept: the test is >=) or one float32 below it (dropped)
            below = float(np.nextafter(np.float32(self.cutoff32), np.float32(0)))
            arr[:] = below
            for j, i in enumerate(legal):
                if (h >> (j % 60)) & 1:
                    arr[i] = self.cutoff32
            if legal:
                arr[legal[h % len(legal)]] = self.cutoff32
        else:
            raise ValueError(k)
        return torch.from_numpy(arr.copy()), self._value(key)


def _make_transformer(seed):
    import torch
    import xformer
    from tak.model import heads, wrapper
    torch.manual_seed(seed)
    cfg = xformer.Config(n_vocab=256, n_layer=1, d_model=16, d_head=8, n_ctx=64, output_head=heads.PolicyValue)
    model = xformer.Transformer(cfg)
    model.init_weights()
    model.eval()
    return wrapper.ModelWrapper(model)


# --------------------------------------------------------------------------
# recording
# --------------------------------------------------------------------------
class Recorder:
    def __init__(self, spec):
        import random as _r
        self.spec = spec
        self.rng = _r.Random(spec["sampler"].get("seed", 0))
        self.mode = spec["sampler"]["mode"]
        self.gen = None
        self.evals = []          # {"node": id, "pos": Position, "raw": [float], "value": float, "is_root": bool, "noise": [float]|None}
        self.node_eval = {}      # id(node) -> index in evals
        self.cur = None          # (node, is_root) while populate runs
        self.choices = []        # indices sampled since the last mark
        self.calls = []          # solver calls since the last mark
        self.policy_log = []     # every Node.policy_probs call with the statistics it read (C09)
        self.all_calls = []      # every solver call of the whole history (C09)
        self.phases = []
        self.problems = []
        self.phase_noise = None
        self.noise_draws = 0
        self.keep = []           # keeps nodes alive so id() stays unique
        self.mutation_seen = False
        self.pre_snap = {}       # id(node) -> snapshot of node.position just before populate() ran on it
        self.born = {}           # id(child) -> snapshot of its position right after the populate() that created it

    # --- stand-ins -------------------------------------------------------
    def multinomial(self, orig):
        import torch

        def fake(inp, num_samples, *a, **k):
            pol = inp.detach().to(torch.float64)
            n = pol.shape[0]
            if self.mode == "torch":
                idx = int(orig(inp, num_samples, generator=self.gen).item())
            elif self.mode == "uniform":
                idx = self.rng.randrange(n)
            elif self.mode == "first":
                idx = 0
            elif self.mode == "last":
                idx = n - 1
            else:  # "skew": mostly the first children, so that paths get deep
                idx = min(n - 1, int(self.rng.expovariate(1.0)))
            self.choices.append(idx)
            return torch.tensor([idx])
        return fake

    def dirichlet(self):
        import torch
        rec = self

        class FakeDirichlet:
            def __init__(self, concentration, *a, **k):
                self.n = int(concentration.shape[0])

            def sample(self, *a, **k):
                rec.noise_draws += 1
                nz = list(rec.phase_noise or [])
                nz = (nz + [0.0] * self.n)[: self.n]
                if rec.cur is not None:
                    rec.cur_noise = nz
                return torch.tensor(nz, dtype=torch.float32)
        return FakeDirichlet

    @contextlib.contextmanager
    def patched(self, record_solver=False):
        import torch
        import tak_ext
        from tak import mcts
        self.gen = torch.Generator()
        self.gen.manual_seed(self.spec["sampler"].get("seed", 0))
        o_multi, o_dir = torch.multinomial, torch.distributions.Dirichlet
        o_solve, o_pp = tak_ext.solve_policy, mcts.Node.policy_probs
        torch.multinomial = self.multinomial(o_multi)
        torch.distributions.Dirichlet = self.dirichlet()
        if record_solver:
            rec = self

            def solve(pi, q, lam):
                out = o_solve(pi, q, lam)
                call = {"pi": pi.detach().clone(), "q": q.detach().clone(), "lam": lam, "pi_obj": pi,
                        "out": out.detach().clone()}
                rec.calls.append(call)
                rec.all_calls.append(call)
                return out

            def policy_probs(node, c):
                stats = snapshot_stats(node)
                k0 = len(rec.all_calls)
                out = o_pp(node, c)
                call = rec.all_calls[-1] if len(rec.all_calls) > k0 else None
                rec.policy_log.append({"node": node, "c": c, "out": out, "stats": stats, "call": call,
                                       "prior": node.child_probs})
                return out
            tak_ext.solve_policy = solve
            mcts.Node.policy_probs = policy_probs
        try:
            yield
        finally:
            torch.multinomial, torch.distributions.Dirichlet = o_multi, o_dir
            tak_ext.solve_policy, mcts.Node.policy_probs = o_solve, o_pp


def snapshot_stats(node):
    """the statistics policy_probs reads, frozen at call time (C09 oracle)"""
    if node.children is None:
        return None
    return {"N": node.simulations, "v_zero": node.v_zero,
            "kids": [(c.simulations, c.value) for c in node.children]}


class RecEval:
    def __init__(self, inner, rec):
        self.inner, self.rec = inner, rec

    def evaluate(self, pos):
        raw, v = self.inner.evaluate(pos)
        node, is_root = self.rec.cur if self.rec.cur else (None, False)
        at_call = [float(x) for x in raw.tolist()]          # by value, at the time of the call
        shared = getattr(self.inner, "share", None)
        logged = at_call
        if shared:
            # the evaluator hands out its own tensor; what it answers by contract is its private pristine copy.  On a
            # search that leaves the evaluator's tensors alone the two are the same; if they differ the tensor was
            # written to by an earlier populate (reported, and the model replays the pristine answer)
            logged = list(self.inner.last[2])
            if at_call != logged:
                i = next(k for k, (a, b) in enumerate(zip(at_call, logged)) if a != b)
                self.rec.problems.append({
                    "clause": "evaluator-output-mutated: the search wrote into a tensor the evaluator returned; the evaluator "
                              "(" + shared + ") hands the same tensor out again, so this node is expanded from altered priors "
                              "(child priors are the evaluator's priors renormalised)",
                    "node_id": id(node) if node is not None else None, "position": j_snap(snap(pos)), "is_root": is_root,
                    "first_differing_id": i, "handed_out": at_call[i], "evaluator_holds_by_contract": logged[i]})
        self.rec.evals.append({"node": id(node) if node is not None else None, "pos": snap(pos),
                               "raw": logged, "value": v, "is_root": is_root,
                               "noise": None, "phase": len(self.rec.phases) - 1})
        if node is not None:
            self.rec.node_eval[id(node)] = len(self.rec.evals) - 1
            self.rec.keep.append(node)
        return (raw if shared else raw.clone()), v


def make_engine(cfg, evaluator, rec):
    from tak import mcts

    class RecMCTS(mcts.MCTS):
        def descend(self, tree):
            rec.choices, rec.calls = [], []
            path = super().descend(tree)
            ph = rec.phases[-1]
            ph["css"].append(list(rec.choices))
            ph["calls"].append(list(rec.calls))
            # the path must be the one the recorded choices describe
            node = tree
            ok = path[0] is tree and len(path) == len(rec.choices) + 1
            for i, c in enumerate(rec.choices):
                if not ok:
                    break
                ok = node.children is not None and c < len(node.children) and path[i + 1] is node.children[c]
                node = path[i + 1]
            if not ok or path[-1].children is not None:
                rec.problems.append({"clause": "descend follows the sampled children down to a leaf",
                                     "choices": list(rec.choices), "path_len": len(path)})
            if len(ph["css"]) > 3 * ph["limit"] + 20:
                raise Runaway()
            return path

        def populate(self, node, is_root=False):
            rec.cur = (node, is_root)
            rec.cur_noise = None
            before = len(rec.evals)
            rec.pre_snap.setdefault(id(node), snap(node.position))
            rec.keep.append(node)
            try:
                return super().populate(node, is_root)
            finally:
                if len(rec.evals) > before:
                    rec.evals[-1]["noise"] = rec.cur_noise
                    for c in (node.children or []):
                        rec.born.setdefault(id(c), snap(c.position))
                    inner = getattr(self.network, "inner", None)
                    if getattr(inner, "share", None) and inner.last is not None and not rec.mutation_seen:
                        skey, t, pristine = inner.last
                        now = [float(x) for x in t.tolist()]
                        if now != pristine:
                            i = next(k for k, (a, b) in enumerate(zip(now, pristine)) if a != b)
                            rec.mutation_seen = True
                            rec.problems.append({
                                "clause": "evaluator-output-mutated: populate() wrote into the tensor the evaluator returned "
                                          "(the searched position's priors are the evaluator's; its tensor is not the search's to change)",
                                "node_id": id(node), "position": j_snap(snap(node.position)), "is_root": bool(is_root),
                                "first_differing_id": i, "after_populate": now[i], "evaluator_returned": pristine[i]})
                rec.cur = None
    return RecMCTS(cfg, RecEval(evaluator, rec))


def phase_noise(spec, j, n):
    """the known Dirichlet sample of phase j: dyadic (k/4096), a few non-zero entries, sum 1"""
    import random as _r
    if spec.get("noise") is None:
        return None
    rng = _r.Random(_h(spec["noise"]["seed"], "noise", j))
    k = rng.randint(1, min(12, n))
    ids = rng.sample(range(n), k)
    cuts = sorted(rng.sample(range(1, 4096), k - 1)) if k > 1 else []
    parts = [b - a for a, b in zip([0] + cuts, cuts + [4096])]
    nz = [0.0] * n
    for i, p in zip(ids, parts):
        nz[i] = p / 4096.0
    return nz


def start_position(size, opening, start=None):
    """the root position of a spec: `start` (a structural description: size, ply, reserves, stacks top first - built
    directly, no parser and no rule of the implementation involved) or the opening ids played from the empty board"""
    import tak
    from tak.model import encoding
    if start is not None:
        return takio.mk_pos(start)
    pos = tak.Position.from_config(tak.Config(size=size))
    for mid in opening:
        pos = pos.move(encoding.decode_move(size, mid))
    return pos


DEFAULT_PIECES = {3: (10, 0), 4: (15, 0), 5: (21, 1), 6: (30, 1), 7: (40, 1), 8: (50, 2)}


def tps_start(tps, reserves=None):
    """the harness's own reading of a TPS string (not tak.ptn): rows from the top rank down, stacks bottom to top,
    S/C marks the top piece; returns the structural description start_position() builds from.
    reserves = ((white stones, caps), (black stones, caps)) or None = the default set minus what is on the board"""
    rows, player, moveno = tps.split()
    rows = rows.split("/")
    size = len(rows)
    board = [None] * (size * size)
    for r, row in enumerate(rows):
        y = size - 1 - r
        x = 0
        for cell in row.split(","):
            if cell.startswith("x"):
                k = int(cell[1:] or "1")
                for _ in range(k):
                    board[y * size + x] = []
                    x += 1
                continue
            kind = "F"
            if cell[-1] in "SC":
                kind, cell = cell[-1], cell[:-1]
            st = [("W" if ch == "1" else "B") + "F" for ch in cell]
            st[-1] = st[-1][0] + kind
            board[y * size + x] = st[::-1]            # top first
            x += 1
        assert x == size, tps
    assert all(b is not None for b in board), tps
    if reserves is None:
        ds, dc = DEFAULT_PIECES[size]
        cnt = {"W": [0, 0], "B": [0, 0]}
        for sq in board:
            for pc in sq:
                cnt[pc[0]][1 if pc[1] == "C" else 0] += 1
        reserves = ((ds - cnt["W"][0], dc - cnt["W"][1]), (ds - cnt["B"][0], dc - cnt["B"][1]))
    return {"size": size, "ply": 2 * (int(moveno) - 1) + (int(player) - 1),
            "stones": [list(reserves[0]), list(reserves[1])], "board": board, "tps": tps}


def swap_colours(tps):
    """the same position with the colours exchanged and the other side to move"""
    rows, player, moveno = tps.split()
    rows = rows.translate(str.maketrans("12", "21"))
    rows = ",".join(rows.split(","))
    # the x<n> run lengths must not be translated: redo them from the original
    out = []
    for a, b in zip(tps.split()[0].replace("/", ",/,").split(","), rows.replace("/", ",/,").split(",")):
        out.append(a if a.startswith("x") else b)
    return "".join(",".join(out).replace(",/,", "/")) + f" {3 - int(player)} {moveno}"


# (tps, reserves or None, what the position is one move away from)
NEAR_TERMINAL = [
    ("2,2,1S/2,2,1S/1,1,x 1 5", None, "3x3: the move that fills the board also completes a road; the flat count favours the other side"),
    ("1,2,1/2,1,2/2,1,x 1 5", None, "3x3: the filling move ends the game on flats (flat: win, wall: drawn count)"),
    ("1,1,x/2,2,x/x3 1 3", None, "3x3: both sides one move from a road"),
    ("1,2,x/2,1,x/x,x,1 2 3", None, "3x3: diagonal, nobody close; game goes on below the root"),
    ("2,2,x,2/2,2,x2/x4/1,1,1,x 1 9", ((1, 0), (9, 0)), "4x4: the last reserve piece completes a road; the flat count favours the other side"),
    ("2,1,2,1/1,2,1,2/2,1,2,1/1,2,1,x 1 9", None, "4x4: full board next move, no road: flats decide (8 v 7 / drawn with a wall)"),
    ("2,x3/2,x3/2,1,1,1/x4 2 5", ((12, 0), (1, 0)), "4x4: last reserve piece, flat win or road for either side"),
    ("x5/x5/2,2,2,x,1C/11111111111111112,2,2,x2/1,1,1,1,x 1 20", None, "5x5: white's last flat completes the first-rank road while black leads the flat count"),
    ("1,1,1,1,x/2,2,2,2,x/x5/x5/x5 1 5", None, "5x5: both sides one move from a road"),
    ("2,1,2,1,2/1,2,1,2,1/2,1,2,1,2/1,2,1,2,1/2,1,2,1,x 1 13", None, "5x5: full board next move, flats decide"),
    ("1,1,x/1,2,2/x,2,1S 1 4", None, "3x3: a slide can give both sides a road at once"),
    ("2,x2,2,x2/x2,1,1,1,1/x,2,1,2S,2,x/2,2,x,1,2,x/x2,2,1,2,2/1,1,1,1,x2 1 12", None,
     "6x6: one flat (c3) short of an S-shaped road that doubles back towards its starting edge"),
]

# capstone on top of a stack, a standing stone 2-3 squares away in a straight line, nothing in between
STACKED_CAPSTONE = [
    ("x5/x5/x2,2,x2/x2,2,x2/11C,x,2S,x2 1 4", "5x5: 2a1>11 sheds a flat and flattens c1"),
    ("x5,122C/x5,1/x5,2/x3,1,1,1S/x6/x6 2 6", "6x6: 3f6-111 arrives alone on f3"),
    ("x5/x5/x5/2,x4/121C,x2,2S,x 1 5", "5x5: 3a1>111"),
    ("2S,x4/x5/21C,x4/x5/x3,1,1 1 5", "5x5: 2a3+11 upwards"),
    ("x6/x6/x3,2,x2/1S,x2,112C,x,2/x6/1,x5 2 6", "6x6: 3d3<111 to the left"),
    ("x4,21C/x5/x5/x4,2S/1,x4 1 5", "5x5: 2e5-... three squares down needs 3 stones: only the 2-step drops short; control"),
]
STACKED_CAPSTONE = STACKED_CAPSTONE + [(swap_colours(t), w + " (colours exchanged)") for t, w in STACKED_CAPSTONE[:5]]


def do_search(spec, record_solver=False, select=False, after_phase=None):
    """run the searches a spec describes on the implementation; returns the trace"""
    import torch
    from tak import mcts
    from tak.model import encoding
    size = spec["size"]
    # simulation_limit = 0 means "no simulation limit" to analyze_tree (with time_limit = 0 the loop never ends): the
    # property's "stops at the limit" quantifies over positive budgets, so a spec never asks for less than 1
    for ph in spec["phases"]:
        ph["limit"] = max(1, int(ph["limit"]))
    pos = start_position(size, spec["opening"], spec.get("start"))
    n = encoding.n_moves_for_size(size)
    rec = Recorder(spec)
    ev = Evaluator(dict(spec["eval"], cutoff=spec["cutoff"], noisy=spec.get("noise") is not None), size)
    noise = spec.get("noise")
    cfg = mcts.Config(time_limit=0, simulation_limit=1,
                      root_noise_alpha=(noise["alpha"] if noise else None),
                      root_noise_mix=(noise["mix"] if noise else 0.25),
                      C=spec["C"], cutoff_prob=spec["cutoff"])
    engine = make_engine(cfg, ev, rec)
    root_snap = snap(pos)            # taken before anything is searched; the model's input
    root = mcts.Node(position=pos, move=None)
    tree = root
    expected = root_snap             # what the current tree's position must be, derived from root_snap only
    trace = {"spec": spec, "root_pos": pos, "root_snap": root_snap, "rec": rec, "crash": None, "select": None, "n": n,
             "old_trees": [], "old_roots": [], "phase0": 0, "evals0": 0}
    abs_path = []                    # child indices from the first root to the current tree
    with rec.patched(record_solver):
        try:
            for j, ph in enumerate(spec["phases"]):
                if ph.get("restart"):
                    # a new search from scratch on the same position, the evaluator object (and what it holds) shared
                    trace["old_trees"].append((tree, expected))
                    trace["old_roots"].append(root)
                    # the same position, or (the SAME engine object goes on) one derived from it: the moves in
                    # `moves` played on a private copy, and / or the ply shifted (the same board, side to move and reserves
                    # at a later ply - what attrs.evolve(p, ply=p.ply + 2) builds)
                    for mid in ph.get("moves", []):
                        nxt = legal_ids(root_snap).get(mid)
                        if nxt is None:
                            raise ValueError(f"spec: move id {mid} is not legal in the restart line")
                        root_snap = nxt
                    if ph.get("ply_shift"):
                        root_snap = (root_snap[0], root_snap[1], root_snap[2] + ph["ply_shift"], root_snap[3])
                    trace["root_snap"] = root_snap
                    pos = rebuild(root_snap)
                    root = mcts.Node(position=pos, move=None)
                    tree, expected, abs_path = root, root_snap, []
                    trace["root_pos"], trace["phase0"], trace["evals0"] = pos, j, len(rec.evals)
                actual = []
                for pick in ph["path"]:
                    if not tree.children:
                        break
                    if isinstance(pick, dict):      # the child reached by a given move id
                        ids_here = [encoding.encode_move(size, c.move) for c in tree.children]
                        if pick["id"] not in ids_here:
                            break
                        i = ids_here.index(pick["id"])
                    else:
                        i = pick % len(tree.children)
                    actual.append(i)
                    abs_path.append(i)
                    tree = tree.children[i]
                    try:
                        expected = legal_ids(expected).get(encoding.encode_move(size, tree.move))
                    except KeyError:
                        expected = None
                    if expected is None:        # the child's move is not a legal table move: the auditor reports it
                        expected = snap(tree.position)
                rec.phase_noise = phase_noise(spec, j, n)
                rec.phases.append({"path": actual, "limit": ph["limit"], "noise": rec.phase_noise, "css": [],
                                   "calls": [], "sims_before": tree.simulations, "pos": tree.position,
                                   "tree_id": id(tree), "snap_before": snap(tree.position)})
                cfg.simulation_limit = ph["limit"]
                out = engine.analyze_tree(tree)
                phr = rec.phases[-1]
                phr["sims_after"] = tree.simulations
                if out is not tree:
                    rec.problems.append({"clause": "analyze_tree returns the tree it was given", "phase": j})
                if tree.simulations != max(ph["limit"], phr["sims_before"]):
                    rec.problems.append({"clause": "the root has exactly n visits (a re-used tree reaches the limit)",
                                         "phase": j, "limit": ph["limit"], "visits_before": phr["sims_before"],
                                         "visits_after": tree.simulations})
                if tree.position is not phr["pos"] or snap(tree.position) != phr["snap_before"]:
                    rec.problems.append({"clause": "the searched position is left untouched", "phase": j,
                                         "position_before": j_snap(phr["snap_before"]),
                                         "position_after": takio.j_pos(tree.position)})
                if after_phase is not None and not rec.problems:
                    after_phase(trace, engine, root, tree, list(abs_path), j)
            if select and tree.children:      # a move is requested only where there is one to play
                rec.choices, rec.calls = [], []
                m = engine.select_root_move(tree)
                trace["select"] = {"move": m, "choices": list(rec.choices), "calls": list(rec.calls)}
        except Runaway:
            ph = rec.phases[-1]
            rec.problems.append({"clause": "the root has exactly n visits (the search stops at the limit)",
                                 "limit": ph["limit"], "descents_made": len(ph["css"]),
                                 "root_visits": tree.simulations})
            trace["crash"] = "runaway"
        except Exception as e:  # noqa
            rec.problems.append({"clause": "the search completes", "exception": repr(e)[:300]})
            trace["crash"] = repr(e)[:300]
    if snap(pos) != root_snap:
        rec.problems.append({"clause": "the searched position is left untouched (first root)",
                             "position_before": j_snap(root_snap), "position_after": takio.j_pos(pos)})
    trace["tree"] = tree
    trace["tree_expected"] = expected
    # the evaluator's stored tensors, re-read after the search, against what it holds by contract
    if getattr(ev, "share", None):
        for skey, (t, pristine) in ev.store.items():
            now = [float(x) for x in t.tolist()]
            if now != pristine and not rec.mutation_seen:
                i = next(k for k, (a, b) in enumerate(zip(now, pristine)) if a != b)
                rec.mutation_seen = True
                rec.problems.append({"clause": "evaluator-output-mutated: a tensor the evaluator returned differs after the search",
                                     "first_differing_id": i, "after_search": now[i], "evaluator_returned": pristine[i]})
    # node ids in the driver's findings -> paths from the root of the tree they belong to
    paths = {}

    def index(node, path):
        paths[id(node)] = path
        for i, c in enumerate(node.children or []):
            index(c, path + [i])
    for k, r0 in enumerate(trace["old_roots"]):
        index(r0, [f"search{k}"])
    index(root, [])                  # paths from the node the (last) search was started on
    for pr in rec.problems:
        if "node_id" in pr:
            pr["node_path"] = paths.get(pr.pop("node_id"))
    return trace


# --------------------------------------------------------------------------
# the auditor: the invariant of the property, stated on the implementation's tree
# --------------------------------------------------------------------------
def mixed_priors(e, n, mix, noise):
    """exact rationals of the prior vector populate() must work with (noise = the phase's Dirichlet sample if the
    node was the root of its search and root noise is on, else None), and whether the float32 mix is exact"""
    import numpy as np
    raw = e["raw"][:n]
    if noise is None:
        return [Fraction(x) for x in raw], True
    nz = noise[: len(raw)]
    exact = [Fraction(mix) * Fraction(z) + (1 - Fraction(mix)) * Fraction(r) for z, r in zip(nz, raw)]
    fl = (np.float32(mix) * np.array(nz, dtype=np.float32)
          + np.float32(1 - mix) * np.array(raw, dtype=np.float32))
    ok = all(Fraction(float(a)) == b for a, b in zip(fl, exact))
    return exact, ok


def audit(trace, max_problems=5):
    """returns (problems, stats); problems name the clause of C08 that fails and the node (path from the tree)"""
    from tak.model import encoding
    spec, rec = trace["spec"], trace["rec"]
    cutoff = Fraction(f32(spec["cutoff"]))
    mix = spec["noise"]["mix"] if spec.get("noise") else 0.25
    problems = []
    stats = Counter()
    used_evals = set()

    def bad(clause, path, **kw):
        if len(problems) < max_problems:
            problems.append(dict(clause=clause, node_path=list(path), **kw))

    def fr(x, what, path):
        try:
            return Fraction(x)
        except (ValueError, OverflowError, TypeError):
            bad(f"{what} is a finite number", path, got=repr(x))
            return Fraction(0)

    def diff_squares(a, b):
        return [{"square": [i % a[0], i // a[0]], "expected": list(x), "found": list(y)}
                for i, (x, y) in enumerate(zip(a[3], b[3])) if x != y][:6]

    def walk(node, path, pos):
        """pos = the snapshot this node's position must equal, derived from the pre-search snapshot of the root by
        the rules applied to private copies - never from the search's own (possibly aliased) objects"""
        stats["nodes"] += 1
        now = snap(node.position)
        for what, got in (("after the search", now), ("when it was expanded", rec.pre_snap.get(id(node))),
                          ("when it was created", rec.born.get(id(node)))):
            if got is not None and got != pos:
                bad("the searched position is left untouched" if not path else
                    "each child holds the parent's position after its move", path, when=what,
                    move=None if node.move is None else takio.j_move(node.move),
                    expected=j_snap(pos), differing_squares_color_kind=diff_squares(pos, got),
                    ply_expected=pos[2], ply_found=got[2], reserves_expected=list(pos[1]), reserves_found=list(got[1]))
                break
        o = outcome(pos)
        sims, value, v0 = node.simulations, fr(node.value, "value", path), fr(node.v_zero, "v_zero", path)
        if node.children is None:
            if sims == 0:
                stats["unvisited"] += 1
                if value != 0 or v0 != 0 or node.child_probs is not None:
                    bad("an unvisited node carries no statistics", path, value=str(value), v_zero=str(v0))
            else:
                stats["terminal"] += 1
                if sims > 1:
                    stats["terminal_revisited"] += 1
                if o is None:
                    bad("a visited node without children is terminal", path, visits=sims)
                else:
                    if v0 != o:
                        bad("terminal outcome is +1/-1/0 for the side to move by the rules", path, v_zero=str(v0), outcome=o)
                    if value != sims * o:
                        bad("terminal value is visits times outcome", path, value=str(value), visits=sims, outcome=o)
                if id(node) in rec.node_eval:
                    bad("a terminal node is not evaluated", path)
            return
        stats["expanded"] += 1
        if o is not None:
            bad("a terminal node is not expanded", path)
        ei = rec.node_eval.get(id(node))
        if ei is None:
            bad("an expanded node was evaluated once", path)
            return
        used_evals.add(ei)
        e = rec.evals[ei]
        n = encoding.n_moves_for_size(pos[0])
        ph = rec.phases[e["phase"]]
        noise = ph["noise"] if (spec.get("noise") and e["node"] == ph["tree_id"]) else None
        if (noise is None) != (e["noise"] is None):
            bad("root noise is mixed into the priors of the searched root only", path, sampled=e["noise"] is not None)
        pri, exact = mixed_priors(e, n, mix, noise)
        if not exact:
            stats["inexact_noise_mix"] += 1
        if v0 != Fraction(e["value"]):
            bad("v_zero is the node's own evaluation", path, v_zero=str(v0), evaluation=e["value"])
        legal = legal_ids(pos)
        if pos in MUTATING:
            stats["move_mutates_position"] += 1
            bad("the searched position is left untouched: trying a move (what populate does for every candidate id) "
                "modifies the position it is applied to", path, position=j_snap(pos),
                moves=[{"id": i, "move": takio.j_move(encoding.decode_move(pos[0], i)),
                        "differing_squares_color_kind": diff_squares(pos, after)} for i, after in MUTATING[pos][:4]])
        want = [i for i in range(len(pri)) if pri[i] >= cutoff and i in legal]
        if not want:
            stats["hypothesis_not_met"] += 1
        if any(pri[i] == cutoff for i in want):
            stats["prior_exactly_at_cutoff"] += 1
        got_moves = [c.move for c in node.children]
        want_moves = [encoding.decode_move(pos[0], i) for i in want]
        if got_moves != want_moves:
            bad("children are one-to-one with the legal moves whose prior reaches the cutoff (id order)", path,
                children=[takio.j_move(m) for m in got_moves][:12], expected_ids=want[:40],
                expected=[takio.j_move(m) for m in want_moves][:12])
            return
        cp = node.child_probs
        if cp is None or len(cp) != len(want):
            bad("child priors are the evaluator's priors renormalised", path, n_priors=None if cp is None else len(cp),
                n_children=len(want))
        else:
            s = sum(pri[i] for i in want)
            for j, i in enumerate(want):
                expect = pri[i] / s if s else None
                try:
                    got = Fraction(float(cp[j]))
                except (ValueError, OverflowError):
                    got = None
                if expect is None or got is None or abs(got - expect) > PRIOR_TOL * expect:
                    bad("child priors are the evaluator's priors renormalised", path, child=j,
                        prior=float(cp[j]), expected=None if expect is None else float(expect))
                    break
        if sims != 1 + sum(c.simulations for c in node.children):
            bad("visits are one plus the children's visits", path, visits=sims,
                children=[c.simulations for c in node.children if c.simulations])
        cv = sum((fr(c.value, "value", path) for c in node.children), Fraction(0))
        if value != v0 - cv:
            bad("accumulated value is own evaluation minus the children's accumulated values", path,
                value=str(value), v_zero=str(v0), children_sum=str(cv))
        for j, (i, c) in enumerate(zip(want, node.children)):
            walk(c, path + [j], legal[i])

    for k, (old_tree, old_expected) in enumerate(trace.get("old_trees", [])):
        walk(old_tree, [f"search{k}"], old_expected)
    if trace.get("tree") is not None:
        walk(trace["tree"], [], trace["tree_expected"])
    # what the driver saw while searching (visit counts, crashes) after the tree's clauses - except a write into the
    # evaluator's tensor, which is the cause of whatever the tree shows and comes first
    problems[:0] = [p for p in rec.problems if p["clause"].startswith("evaluator-output-mutated")]
    problems.extend(p for p in rec.problems if not p["clause"].startswith("evaluator-output-mutated"))
    stats["evals"] = len(rec.evals)
    stats["simulations"] = sum(len(p["css"]) for p in rec.phases)
    return problems, stats


# --------------------------------------------------------------------------
# Coq literals of a trace
# --------------------------------------------------------------------------
def code_chk(code):
    acc = 7
    for d in code:
        acc = (acc * 1000003 + d) % 2147483647
    return acc


def c_onode(node):
    from tak.model import encoding
    code = czlist(pos_code(node.position))
    if (node.children is None and node.simulations == 0 and node.move is not None and node.child_probs is None
            and node.value == 0 and node.v_zero == 0):
        try:   # a child nobody has touched: checksum of the position code + move id
            return f"(OUn {code_chk(pos_code(node.position))} {encoding.encode_move(node.position.size, node.move)})"
        except KeyError:
            pass
    mv = copt(None if node.move is None else takio.c_move(node.move))
    if node.child_probs is None:
        probs = "[]"
    else:
        pl = [float(x) for x in node.child_probs.tolist()]
        if len(pl) > 3 and all(x == pl[0] for x in pl):
            probs = f"(repeat {c_fq(pl[0])} {len(pl)}%nat)"
        else:
            probs = clist([c_fq(x) for x in pl])
    kids = "None" if node.children is None else "(Some " + clist([c_onode(c) for c in node.children]) + ")"
    return (f"(ONode {code} {mv} {c_fq(node.v_zero)} {c_fq(node.value)} {cz(node.simulations)} {probs} {kids})")


def f64_bits(x):
    return struct.unpack("<Q", struct.pack("<d", float(x)))[0]


def c_call(call):
    lam = float(call["lam"])
    l64 = struct.unpack("<Q", struct.pack("<d", lam))[0]        # lambda_n as policy_probs computed it (binary64)
    l32 = struct.unpack("<I", struct.pack("<f", lam))[0]        # what the native solver receives (float)
    return "(" + c_qvec([float(x) for x in call["q"].tolist()]) + f", {c_fq(lam)}, ({l64}, {l32}))"


def c_phase(ph, with_calls):
    noise = copt(None if ph["noise"] is None else c_qvec(ph["noise"]))
    css = clist([czlist(cs) for cs in ph["css"]])
    calls = clist([clist([c_call(c) for c in cl]) for cl in ph["calls"]]) if with_calls else "[]"
    queries = "[]"
    if with_calls and ph.get("queries"):
        queries = clist([f"({czlist(q['path'])}, ({c_fq(q['C'])}, {f64_bits(q['C'])}), "
                         f"{copt(None if q['call'] is None else c_call(q['call']))})"
                         for q in ph["queries"]])
    return f"(mkPhase {czlist(ph['path'])} {cz(ph['limit'])} {noise} {css} {calls} {queries})"


def c_evals(trace):
    n = trace["n"]
    out = []
    for e in trace["rec"].evals[trace.get("evals0", 0):]:
        raw = e["raw"][: n + 2]          # two entries beyond the table when the evaluator gives them
        out.append(f"({c_qvec(raw)}, {c_fq(e['value'])})")
    return clist(out)


def case_term(trace):
    spec = trace["spec"]
    mix = spec["noise"]["mix"] if spec.get("noise") else 0.25
    phs = clist([c_phase(p, False) for p in trace["rec"].phases[trace.get("phase0", 0):]])
    return (f"({c_fme(f32(spec['cutoff']))}, {c_fme(mix)}, {takio.c_pos(rebuild(trace['root_snap']))}, {phs}, "
            f"{c_evals(trace)}, {c_onode(trace['tree'])})")


def representable(trace):
    """the observed numbers can be written as exact rationals (no nan/inf) - otherwise the auditor reports"""
    import math

    def ok(node):
        for x in (node.value, node.v_zero):
            if isinstance(x, float) and not math.isfinite(x):
                return False
        if node.child_probs is not None and not bool(node.child_probs.isfinite().all()):
            return False
        return all(ok(c) for c in (node.children or []))
    return ok(trace["tree"])


def tree_summary(node, depth=1):
    d = {"visits": node.simulations, "value": node.value, "v_zero": node.v_zero,
         "move": None if node.move is None else takio.j_move(node.move)}
    if node.children is not None and depth > 0:
        d["children"] = [tree_summary(c, depth - 1) for c in node.children if c.simulations][:12]
        d["n_children"] = len(node.children)
    return d


# --------------------------------------------------------------------------
# generation of searches
# --------------------------------------------------------------------------
def random_opening(rng, size, k, near_end=False):
    """k random legal plies from the start (fewer if the game would end): ids.  near_end: keep playing (at most 40
    plies) until some legal move ends the game, so that the search meets terminal nodes"""
    import tak
    from tak.model import encoding
    pos = tak.Position.from_config(tak.Config(size=size))
    ids = []
    for ply in range(40 if near_end else k):
        leg = legal_ids(pos)
        cand = [i for i, c in leg.items() if outcome(c) is None]
        if not cand or (near_end and ply >= k and len(cand) < len(leg)):
            break
        i = rng.choice(sorted(cand))
        ids.append(i)
        pos = rebuild(leg[i])
    return ids


def smash_openings(size):
    """openings (ids) that put a capstone of the side to move orthogonally next to an enemy standing stone, so that
    the capstone's one-step slide onto the wall (which flattens it) is among the moves populate tries.  Sizes >= 5."""
    import tak
    from tak.model import encoding
    T = tak.MoveType

    def ids(ms):
        return [encoding.encode_move(size, tak.Move(x, y, t, None)) for x, y, t in ms]
    n = size - 1
    a = [(0, 0, T.PLACE_FLAT), (n, n, T.PLACE_FLAT), (1, 1, T.PLACE_CAPSTONE), (2, 1, T.PLACE_STANDING)]
    b = a + [(3, 2, T.PLACE_STANDING), (3, 3, T.PLACE_CAPSTONE), (0, n, T.PLACE_FLAT)]
    c = [(n, 0, T.PLACE_FLAT), (0, n, T.PLACE_FLAT), (2, 2, T.PLACE_CAPSTONE), (2, 3, T.PLACE_STANDING),
         (1, 2, T.PLACE_FLAT), (3, 1, T.PLACE_FLAT)]                # wall above the capstone, flats around
    d = c[:4] + [(1, 3, T.PLACE_STANDING), (1, 2, T.PLACE_CAPSTONE), (n, n, T.PLACE_FLAT)]   # black cap, walls beside/above
    out = []
    for seq in (a, b, c, d):
        try:
            start_position(size, ids(seq))
            out.append(ids(seq))
        except Exception:  # noqa  (a rule change made the construction illegal: the other openings still count)
            pass
    return out


def smash_specs(rng, sizes, per_size):
    specs = []
    for size, k in zip(sizes, per_size):
        ops = smash_openings(size)
        for j in range(k):
            kind = ["uniform", "pm1", "uniform", "drift", "cutoff_edge", "uniform"][j % 6]
            noise = {"alpha": 0.3, "mix": 0.25, "seed": rng.randrange(1 << 30)} if j % 3 == 2 and kind != "cutoff_edge" else None
            budget = rng.randint(2, 10)
            phases = [{"path": [], "limit": budget}]
            if j % 2:
                phases.append({"path": [rng.randrange(1000)], "limit": rng.randint(1, 8)})
            specs.append({"size": size, "opening": ops[j % len(ops)],
                          "eval": {"kind": kind, "seed": rng.randrange(1 << 30), "len": "max", "dyadic": True},
                          "sampler": {"mode": ["torch", "uniform", "skew", "last"][j % 4], "seed": rng.randrange(1 << 30)},
                          "noise": noise, "C": 4.0, "cutoff": 1e-6, "phases": phases, "tag": "capstone-next-to-wall"})
    return specs


def start_from_snap(sn):
    size, stones, ply, board = sn
    return {"size": size, "ply": ply, "stones": [list(stones[0]), list(stones[1])],
            "board": [["WB"[c] + "FSC"[k] for c, k in sq] for sq in board]}


def late_position(rng, size, max_plies):
    """a random game played until every legal move ends it (or max_plies): the last position that is not over"""
    import tak
    sn = snap(tak.Position.from_config(tak.Config(size=size)))
    for _ in range(max_plies):
        leg = legal_ids(sn)
        cand = sorted(i for i, c in leg.items() if outcome(c) is None)
        if not cand:
            break
        # mostly flats, so that boards fill and reserves run down
        flats = [i for i in cand if leg[i][3] and sum(len(q) for q in leg[i][3]) > sum(len(q) for q in sn[3])]
        i = rng.choice(flats if flats and rng.random() < 0.8 else cand)
        sn = leg[i]
    return sn


def fixed_start_spec(rng, start, kind, budget, tag, what, sampler="uniform", second=False):
    phases = [{"path": [], "limit": budget}]
    if second:
        phases.append({"path": [rng.randrange(1000)], "limit": max(2, budget // 3)})
    return {"size": start["size"], "opening": [], "start": start,
            "eval": {"kind": kind, "seed": rng.randrange(1 << 30), "len": "max", "dyadic": True},
            "sampler": {"mode": sampler, "seed": rng.randrange(1 << 30)},
            "noise": None, "C": 4.0, "cutoff": 1e-6, "phases": phases, "tag": tag, "what": what}


def near_terminal_specs(rng, generated):
    """start positions one move from every kind of ending (both colours), budgets that visit the terminal children
    several times; `generated` = (size, how many) late positions of random games on top of the fixed ones"""
    specs = []
    for j, (tps, reserves, what) in enumerate(NEAR_TERMINAL):
        for swapped in (False, True):
            t = swap_colours(tps) if swapped else tps
            r = (reserves[1], reserves[0]) if (swapped and reserves) else reserves
            st = tps_start(t, r)
            budget = {3: 40, 4: 70, 5: 100, 6: 14}[st["size"]]
            sp = fixed_start_spec(rng, st, ["uniform", "pm1"][(j + swapped) % 2], budget, "near-terminal",
                                  what + (" (colours exchanged)" if swapped else ""),
                                  sampler=["uniform", "torch"][j % 2 if st["size"] < 5 else 0])
            if st["size"] == 6:     # the network sees the finishing move (prior 0.5), the real sampler goes there: few simulations
                sp["eval"] = {"kind": "blind_win", "seed": rng.randrange(1 << 30), "len": "max", "dyadic": True, "tiny": 0.5,
                              "root_value": 0.25, "root_ply": st["ply"]}
                sp["sampler"]["mode"] = "torch"
            specs.append(sp)
    for size, k in generated:
        for j in range(k):
            sn = late_position(rng, size, {3: 30, 4: 60, 5: 120}[size])
            specs.append(fixed_start_spec(rng, start_from_snap(sn), ["pm1", "uniform", "drift"][j % 3],
                                          {3: 30, 4: 50, 5: 90}[size], "near-terminal",
                                          "late position of a random game", sampler=["uniform", "torch", "skew"][j % 3]))
    return specs


def stacked_capstone_specs(rng, repeat=1):
    specs = []
    for r in range(repeat):
        for j, (tps, what) in enumerate(STACKED_CAPSTONE):
            specs.append(fixed_start_spec(rng, tps_start(tps), "uniform" if r == 0 else ["pm1", "cutoff_edge", "uniform"][(r + j) % 3],
                                          rng.randint(2, 8), "stacked-capstone", what,
                                          sampler=["torch", "uniform", "last", "skew"][(j + r) % 4], second=(j % 3 == 1)))
    return specs


def shared_eval_specs(rng, count):
    """evaluators that hand out THEIR OWN tensor: the same object on every call (constant uniform / peaked vector) or
    one object per position (memoising), root noise on; fresh trees, re-used trees, and a second search from scratch with
    the same evaluator object"""
    specs = []
    for j in range(count):
        size = 3 if j % 3 else 4
        b = rng.randint(4, 18)
        shape = j % 4
        phases = [{"path": [], "limit": b}]
        if shape == 1:
            phases.append({"path": [rng.randrange(1000)], "limit": rng.randint(2, b)})
        elif shape == 2:
            phases.append({"path": [], "limit": rng.randint(3, 14), "restart": True})
        elif shape == 3:
            phases.append({"path": [], "limit": rng.randint(3, 12), "restart": True})
            phases.append({"path": [rng.randrange(1000)], "limit": rng.randint(2, 10)})
        specs.append({"size": size, "opening": random_opening(rng, size, rng.choice([0, 1, 2, 4])),
                      "eval": {"kind": ["uniform", "peaked"][(j // 2) % 2], "seed": rng.randrange(1 << 30), "len": "max",
                               "dyadic": True, "share": ["constant", "memo"][j % 2]},
                      "sampler": {"mode": ["torch", "uniform", "skew"][j % 3], "seed": rng.randrange(1 << 30)},
                      "noise": {"alpha": 0.3, "mix": rng.choice([0.25, 0.5, 0.125]), "seed": rng.randrange(1 << 30)},
                      "C": 4.0, "cutoff": 1e-6, "phases": phases, "tag": "evaluator-hands-out-its-own-tensor"})
    return specs


def engine_reuse_specs(rng, count):
    """ONE engine object across searches of the same configuration at different plies: (a) P, then P' reached from P by
    two slides there and two back (same board, side to move and reserves, ply + 4); (b) P, then P with the ply shifted by
    2 (constructed); (c) one tree in which the configuration of the root occurs again four plies deeper (the search is
    continued on that node).  Every expanded node must hold child.position == node.position.move(child.move), ply included"""
    import tak
    from tak.model import encoding
    T = tak.MoveType

    def mid(size, x, y, t, slides=None):
        return encoding.encode_move(size, tak.Move(x, y, t, slides))
    specs = []
    for j in range(count):
        size = 3 if j % 4 != 3 else 4
        n = size - 1
        # after the two opening placements White owns the stone on (n, n), Black the one on (0, 0)
        opening = [mid(size, 0, 0, T.PLACE_FLAT), mid(size, n, n, T.PLACE_FLAT)]
        there_and_back = [mid(size, n, n, T.SLIDE_DOWN, (1,)), mid(size, 0, 0, T.SLIDE_UP, (1,)),
                          mid(size, n, n - 1, T.SLIDE_UP, (1,)), mid(size, 0, 1, T.SLIDE_DOWN, (1,))]
        b = rng.randint(6, 14)
        shape = j % 3
        if shape == 0:
            phases = [{"path": [], "limit": b}, {"path": [], "limit": rng.randint(4, 12), "restart": True, "moves": there_and_back}]
        elif shape == 1:
            extra = random_opening(rng, size, rng.choice([0, 1, 2]))
            opening = extra if extra else opening
            phases = [{"path": [], "limit": b}, {"path": [], "limit": rng.randint(4, 12), "restart": True, "ply_shift": 2},
                      {"path": [rng.randrange(1000)], "limit": rng.randint(2, 6)}]
        else:
            phases = [{"path": [], "limit": b}] + [{"path": [{"id": m}], "limit": 3} for m in there_and_back[:3]] + \
                     [{"path": [{"id": there_and_back[3]}], "limit": rng.randint(5, 10)}]
        specs.append({"size": size, "opening": opening,
                      "eval": {"kind": ["uniform", "pm1"][j % 2], "seed": rng.randrange(1 << 30), "len": "max", "dyadic": True},
                      "sampler": {"mode": ["uniform", "torch", "skew"][j % 3], "seed": rng.randrange(1 << 30)},
                      "noise": None, "C": 4.0, "cutoff": 1e-6, "phases": phases, "tag": "one-engine-same-configuration-other-ply"})
    return specs


def gen_specs(run, count, sizes, max_budget, transformer=2, smash=(), near_terminal=(), stacked=0, shared=0, engine_reuse=0):
    rng = run.rng
    specs = []
    kinds = ["uniform", "random", "random", "drift", "dense", "illegal_mass", "cutoff_edge", "pm1"]
    for k in range(count):
        size = sizes[k % len(sizes)] if k < 2 * len(sizes) else rng.choice(sizes)
        kind = kinds[k % len(kinds)]
        if kind == "dense" and size > 3:
            kind = "random"
        opening_len = rng.choice([0, 0, 1, 2, 3, 4, 6, 8, 10] if size <= 4 else [0, 1, 2, 5, 9])
        budget = 1 + (k % max_budget) if k < max_budget else rng.randint(1, max_budget)
        noise = None
        if k % 3 == 1 and kind not in ("cutoff_edge",):
            noise = {"alpha": 0.3, "mix": rng.choice([0.25, 0.25, 0.5, 0.125]), "seed": rng.randrange(1 << 30)}
        phases = [{"path": [], "limit": budget}]
        r = k % 5
        if r == 1:      # continue on the child a move selection would take
            phases.append({"path": [rng.randrange(1000)], "limit": max(1, budget // 2 + rng.randint(0, budget))})
        elif r == 2:    # same tree, larger limit; then a limit already reached
            phases.append({"path": [], "limit": budget + rng.randint(1, 12)})
            phases.append({"path": [], "limit": max(1, budget // 2)})
        elif r == 3 and budget > 3:   # two levels down
            phases.append({"path": [rng.randrange(1000), rng.randrange(1000)], "limit": rng.randint(1, budget)})
        spec = {"size": size, "opening": random_opening(rng, size, opening_len, near_end=(k % 4 == 3)),
                "eval": {"kind": kind, "seed": rng.randrange(1 << 30),
                         "len": rng.choice(["max", "max", "max", "exact", "short"]),
                         "dyadic": noise is not None or rng.random() < 0.5},
                "sampler": {"mode": rng.choice(["torch", "torch", "uniform", "skew", "first", "last"]),
                            "seed": rng.randrange(1 << 30)},
                "noise": noise, "C": rng.choice([4.0, 4.0, 1.5, 8.0]),
                "cutoff": rng.choice([1e-6, 1e-6, 1e-6, 2.0 ** -10]), "phases": phases}
        if kind == "cutoff_edge" or noise is not None or size > 4:
            spec["cutoff"] = 1e-6
        specs.append(spec)
    for t in range(transformer):   # the real network (a small one) on 3x3
        specs.append({"size": 3, "opening": random_opening(rng, 3, 2 * t),
                      "eval": {"kind": "transformer", "seed": rng.randrange(1 << 30)},
                      "sampler": {"mode": "torch", "seed": rng.randrange(1 << 30)},
                      "noise": None, "C": 4.0, "cutoff": 1e-6,
                      "phases": [{"path": [], "limit": 16 + 8 * t}, {"path": [rng.randrange(1000)], "limit": 12}]})
    if smash:
        specs.extend(smash_specs(rng, [5, 6], smash))
    if near_terminal:
        specs.extend(near_terminal_specs(rng, near_terminal))
    if stacked:
        specs.extend(stacked_capstone_specs(rng, stacked))
    if shared:
        specs.extend(shared_eval_specs(rng, shared))
    if engine_reuse:
        specs.extend(engine_reuse_specs(rng, engine_reuse))
    return specs


def spec_key(spec):
    return hashlib.sha256(json.dumps(spec, sort_keys=True).encode()).hexdigest()[:16]


def tie_cutoff(run):
    """the comparison `raw_probs >= cutoff_prob` is carried out in float32"""
    import numpy as np
    import torch
    ok = True
    for c in (1e-6, 2.0 ** -10, 1e-3):
        c32 = np.float32(c)
        x = torch.tensor([float(c32), float(np.nextafter(c32, np.float32(0))), float(np.nextafter(c32, np.float32(1)))],
                         dtype=torch.float32)
        ok = ok and (x >= c).tolist() == [True, False, True]
    run.oblige("tie:cutoff comparison of float32 priors with the Python float is done in float32", ok)
    return ok


def volumes(run):
    if run.quick:
        return dict(count=110, sizes=[3, 4], max_budget=60, transformer=2, smash=(6, 1),
                    near_terminal=((3, 6), (4, 4)), stacked=1, shared=8, engine_reuse=6)
    # sizes 5 and 6 are a quarter of the searches (their trees and id tables are large)
    return dict(count=800, sizes=[3, 4, 3, 4, 5, 3, 4, 6], max_budget=200, transformer=6, smash=(40, 12),
                near_terminal=((3, 60), (4, 40), (5, 20)), stacked=6, shared=80, engine_reuse=45)


# --------------------------------------------------------------------------
# the three entry points
# --------------------------------------------------------------------------
def one_search(spec):
    """worker: run the searches of one spec, audit, build the Coq case.  Returns picklable data only"""
    import torch
    torch.set_num_threads(1)
    trace = do_search(spec)
    problems, stats = audit(trace)
    if os.environ.get("VERIF_COQ_ONLY") and not trace["crash"]:
        problems = []           # self-test of the Coq tie: let the model's replay find the disagreement on its own
    out = {"spec": spec, "key": spec_key(spec), "problems": problems, "stats": dict(stats), "term": None,
           "root_position": j_snap(trace["root_snap"]),
           "impl_tree": tree_summary(trace["tree"], 1) if trace.get("tree") is not None else None}
    if not problems and not stats["inexact_noise_mix"] and not stats["hypothesis_not_met"] and representable(trace):
        out["term"] = case_term(trace)
    return out


def pmap(fn, items, workers=None):
    """fork-based process pool (the implementation is already imported; torch runs single-threaded)"""
    import multiprocessing as mp
    workers = workers or max(1, min(core.NPROC, 12))
    if workers == 1 or len(items) < 4:
        return [fn(x) for x in items]
    with mp.get_context("fork").Pool(workers) as pool:
        return pool.map(fn, items, chunksize=1)


def correspondence(run):
    core.setup_impl(ext=True, shims=True)
    import torch
    torch.set_num_threads(1)
    tie_cutoff(run)
    specs = gen_specs(run, **volumes(run))
    cs = core.Cases(ID, "search", HEADER, CTYPE, CHECK, show=SHOW, shard=(3 if run.quick else 4))
    seen, dist, samples = set(), Counter(), []
    total_stats = Counter()
    nontrivial = 0
    t0 = time.time()
    results = pmap(one_search, specs)
    for res in results:
        spec, stats, key = res["spec"], Counter(res["stats"]), res["key"]
        total_stats.update(stats)
        dist[f"size{spec['size']}"] += 1
        dist[f"eval:{spec['eval']['kind']}"] += 1
        dist[f"sampler:{spec['sampler']['mode']}"] += 1
        dist["noise:on" if spec["noise"] else "noise:off"] += 1
        dist["reused" if len(spec["phases"]) > 1 else "fresh"] += 1
        if spec.get("tag"):
            dist["tag:" + spec["tag"]] += 1
        if key not in seen and stats["expanded"] >= 2:
            nontrivial += 1
        seen.add(key)
        if stats["hypothesis_not_met"]:
            dist["skipped:no-legal-move-reaches-the-cutoff"] += 1
            continue
        if res["problems"]:
            dist["searches_violating"] += 1
            if dist["searches_violating"] <= MAX_REPORTS:
                report(run, res, None)
            continue
        if res["term"] is None:
            dist["skipped:inexact-noise-mix"] += 1
            continue
        cs.add(res["term"], {"spec": spec, "key": key})
        if len(samples) < 4:
            samples.append({"spec": spec, "tree": res["impl_tree"]})
    gen_s = time.time() - t0
    failing, shard_fail, nshards = cs.run()
    run.oblige(f"correspondence:search ({nshards} shards, {len(cs)} searches replayed by the model)", not shard_fail,
               str(shard_fail)[:1500])
    dist["searches_disagreeing_with_model"] = len(failing)
    for meta in failing[:MAX_REPORTS]:
        res = one_search(meta["spec"])
        view = cs.model_view(cs.terms[cs.metas.index(meta)])
        report(run, res, view)
    dist.update({f"nodes:{k}": v for k, v in total_stats.items()})
    run.extra["impl_wall_s"] = round(gen_s, 1)
    run.count(len(specs), nontrivial,
              "one evaluation = one recorded search history (1-3 calls of analyze_tree) audited against the invariant and "
              "replayed by the model inside Coq, final trees compared node for node; distinct by spec hash, "
              "non-trivial = at least two expanded nodes",
              samples, dict(dist), label="search")


FIELD_CLAUSE = {
    1: "each child holds the parent's position after its move (position differs from the model's move parent m)",
    2: "children are one-to-one with the legal moves whose prior reaches the cutoff (a node's move differs from the model's)",
    3: "v_zero: own evaluation / terminal outcome +1/-1/0 for the side to move by the rules (the model's Road.winner)",
    4: "accumulated value (terminal: visits times outcome by the rules; expanded: own evaluation minus the children's)",
    5: "visits are one plus the children's visits",
    6: "child priors are the evaluator's priors renormalised",
    7: "children are one-to-one with the legal moves whose prior reaches the cutoff (legal by the model's Tak.move): "
       "terminal / expanded status or number of children differs",
    8: "an unvisited node carries no statistics",
    9: "children are one-to-one with the legal moves whose prior reaches the cutoff (legal by the model's Tak.move): "
       "the children's moves differ",
}


def first_difference(spec, model_view):
    """locate the node the model's view names and describe it on the implementation's tree (a concrete input)"""
    import re
    m = re.search(r"Some\s*\(\s*Some\s*\(\[([^\]]*)\],\s*(\d+)\)", model_view or "")
    if not m:
        return None
    path = [int(x) for x in re.findall(r"-?\d+", m.group(1))]
    field = int(m.group(2))
    trace = do_search(spec)
    node = trace.get("tree")
    for i in path:
        if node is None or not node.children or i >= len(node.children):
            node = None
            break
        node = node.children[i]
    out = {"node_path": path, "field": field, "clause": FIELD_CLAUSE.get(field, "?")}
    if node is not None:
        from tak.model import encoding
        sn = snap(node.position)
        leg = legal_ids(sn)
        out.update({"position": j_snap(sn), "move_into_it": None if node.move is None else takio.j_move(node.move),
                    "impl": {"visits": node.simulations, "value": node.value, "v_zero": node.v_zero,
                             "outcome_by_impl_winner": outcome(sn),
                             "children": None if node.children is None else [takio.j_move(c.move) for c in node.children][:120],
                             "n_legal_by_impl_move": len(leg)},
                    "model": "see model_view: (visits, value, v_zero, outcome by Road.winner, children's moves) of this node"})
        mm = re.search(r"Some\s*\[([-\d;\s]*)\]\)\s*,\s*\d+%nat\)", model_view)     # the model's children, as move ids
        if mm and node.children is not None:
            size = sn[0]
            model_ids = [int(v) for v in re.findall(r"-?\d+", mm.group(1))]
            impl_ids = []
            for c in node.children:
                try:
                    impl_ids.append(encoding.encode_move(size, c.move))
                except KeyError:
                    impl_ids.append(-1)

            def show(i):
                return {"id": i, "move": takio.j_move(encoding.decode_move(size, i)) if 0 <= i < encoding.n_moves_for_size(size) else None}
            out["children_the_model_has_and_the_implementation_lacks"] = [show(i) for i in model_ids if i not in impl_ids][:10]
            out["children_the_implementation_has_and_the_model_lacks"] = [show(i) for i in impl_ids if i not in model_ids][:10]
    return out


def report(run, res, model_view):
    spec, problems = res["spec"], res["problems"]
    clause = problems[0]["clause"] if problems else "the model's replay of the recorded streams gives a different tree"
    fd = None
    if not problems and model_view:
        try:
            fd = first_difference(spec, model_view)
        except Exception as e:  # noqa
            fd = {"error": repr(e)[:200]}
        if fd and fd.get("clause"):
            clause = fd["clause"]
    run.violation(f"search-{spec_key(spec)}", {
        "clause": clause, "spec": spec, "first_difference_with_the_model": fd,
        "root_position": res["root_position"],
        "auditor_problems": problems,
        "impl_tree": res["impl_tree"],
        "model_view": model_view,
        "how_to_replay": "./check C08 --replay <this file>: re-runs the searches the spec describes (evaluator, sampler and "
                         "noise are functions of the seeds in the spec) and audits the tree",
    })


def search(run, broken):
    """something no longer checks: audit freshly generated searches against the invariant itself"""
    core.setup_impl(ext=True, shims=True)
    for res in pmap(one_search, gen_specs(run, count=60, sizes=[3, 4], max_budget=40, transformer=0, shared=4, engine_reuse=6)):
        if res["problems"] and not res["stats"].get("hypothesis_not_met"):
            report(run, res, None)
            return True
    return False


def replay(run, rp):
    core.setup_impl(ext=True, shims=True)
    spec = rp["spec"]
    trace = do_search(spec)
    problems, stats = audit(trace)
    out = {"auditor_problems": problems, "impl_tree": tree_summary(trace["tree"], 1)}
    model_disagrees = None
    if not problems and representable(trace) and not stats["inexact_noise_mix"]:
        cs = core.Cases(ID, "replay", HEADER, CTYPE, CHECK, show=SHOW, shard=1)
        cs.add(case_term(trace), {"spec": spec})
        failing, shard_fail, _ = cs.run()
        model_disagrees = bool(failing or shard_fail)
        if model_disagrees:
            out["model_view"] = cs.model_view(cs.terms[0])
    out["model_disagrees"] = model_disagrees
    out["violates"] = bool(problems) or bool(model_disagrees)
    return out


# ---- translator tie (T): the C08_source_* theorems quantify over functions REGENERATED FROM THE SOURCE; t08's
# correspondence validates the semantics library and the translation scheme on every run.
from . import t08 as _t08  # noqa: E402

MODEL_TARGETS = sorted(set(list(MODEL_TARGETS) + list(_t08.MODEL_TARGETS)))
TRUSTED_BASE = list(TRUSTED_BASE) + list(getattr(_t08, "TRUSTED_BASE", []))
_c08_t08_correspondence = correspondence


def pregen(run):
    return _t08.pregen(run)


def correspondence(run):
    _c08_t08_correspondence(run)
    _t08.correspondence(run)
