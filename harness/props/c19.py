"""C19 - training state survives snapshots, mode switches and interruption.

T: harness/save_ir.py regenerates coq/gen/SaveIR.v (the save program and the
read set) from the source; proofs/SnapshotProofs.v re-checks its shape.
D: the real SavingHook / save_snapshot / load_or_init_model / load_state run
on a scratch run directory with the file-system mutators patched from here so
that the process "dies" after k primitive operations (partial writes really
truncated); for every k of sampled histories the directory is resumed by a
fresh TrainingRun and the outcome, what was loaded and the directory listing
are compared with the model inside Coq.  Plus bit-exact save/load round trips,
serve_mode/train_mode round trips (with aliasing observed by data_ptr) and the
replay window of the real train_step."""
import builtins
import hashlib
import importlib
import io
import os
import re
import shutil
import sys
import tempfile
import time
import types

from .. import core, save_ir, train_ir
from ..core import cz, clist, cbool

ID = "C19"
THEOREMS = ["C19_ir_tie", "C19_save_load_exact", "C19_history_load_exact", "C19_crash_safe_partial",
            "C19_crash_safe_from_partial", "C19_save_never_raises", "C19_window_exact", "C19_window_exact_from",
            "C19_mode_roundtrip_exact", "C19_mode_roundtrip_all_exact", "C19_tensor_outside_state_dict_refuted",
            "C19_master_aliases_live_iff", "C19_snapshot_after_serve_exact_same_dtype",
            "C19_master_copy_in_snapshot_refuted", "C19_crash_unlink_symlink_refuted",
            "C19_crash_resave_refuted", "C19_resave_after_crash_stale_refuted",
            "C19_window_tie", "C19_serve_mode_tie", "C19_train_mode_tie", "C19_train_step_order_tie",
            "C19_run_async_order_tie", "C19_train_loop_order_tie", "C19_hooks_run_in_serving_precision",
            "C19_resume_precedence_tie"]
MODEL_TARGETS = ["gen/SaveIR.vo", "gen/TrainIR.vo", "model/Snapshot.vo", "model/Harness.vo"]
TRUSTED_BASE = [
    "harness/save_ir.py (fail-closed ast translator saving.py/trainer.py/loading.py -> gen/SaveIR.v)",
    "the fault injector of harness/props/c19.py (patched os.makedirs/rename/unlink/symlink/replace, shutil.rmtree, "
    "builtins.open, torch.save, yaml.dump) and its directory lister",
    "POSIX semantics of rename/replace/symlink/unlink/makedirs/rmtree as written in model/Snapshot.v (step_op), at "
    "process-crash granularity: completed operations persist, no power-loss reordering, rmtree atomic",
    "torch.save/torch.load and yaml.dump/yaml.unsafe_load round-trip their payloads (Section hypothesis de_ser of "
    "save_load_exact; exercised bit for bit by the round trips of the correspondence)",
    "'step_%06d' % n, that + '.tmp', 'latest', 'latest.tmp' are pairwise different names (constructors of `name`)",
]
ASSUMPTIONS = [
    "PARTIAL by design: a crash is a prefix of the primitive-operation list; fsync / power-loss ordering is outside the model",
    "a re-save of the step `latest` designates writes nothing: exact only because within a run the training state "
    "changes only in train_step, which increments the step (hypothesis `coherent` / third premise of save_load_exact)",
    "one parameter = one storage (no tied weights): checked by data_ptr in every mode-switch case",
]

HEADER = ("From Coq Require Import String.\nFrom Coq Require Import ZArith List Bool.\n"
          "From TV Require Import gen.SaveIR model.Snapshot.\nImport ListNotations.")


# ----------------------------------------------------------------------------
# translator
# ----------------------------------------------------------------------------
STUB = ("(* harness/save_ir.py could not translate the source: %s *)\n"
        "From Coq Require Import List String.\nImport ListNotations.\nOpen Scope string_scope.\n\n" + save_ir.TYPES +
        "\n\nDefinition save_prog : list stmt := [].\nDefinition load_reads : list (string * comp) := [].\n"
        "Definition resume_probe : pexp := PLatest.\n"
        "Definition resume_branches : list (list rcond * ract) := [].\n")


def train_ir_stub(why):
    """TrainIR.v with the type definitions of the real one and empty programs (model/Snapshot.v still builds, every
    tie lemma of proofs/SnapshotTie.v fails)"""
    return ("(* harness/train_ir.py could not translate trainer.py: %s *)\n" % why.replace("*)", "* )")[:300]
            + TRAIN_TYPES + train_ir.STUB_DEFS)


TRAIN_TYPES = (
    "From Coq Require Import List String ZArith.\nImport ListNotations.\nOpen Scope string_scope.\nOpen Scope Z_scope.\n\n"
    "Inductive cmp := CGt | CGe | CLt | CLe | CEq | CNe.\n"
    "Inductive wstmt := WAppend | WIfSlice (c : cmp) (lo hi : option Z).\n"
    "Inductive dsel := DServe | DTrain.\n"
    "Inductive mstmt := MCapture | MTo (d : dsel) (with_device : bool) | MLoad.\n"
    "Inductive ev := EBuildModel | EBuildOpt | ELoadOrInit | EServeMode | ETrainMode | ETrainLoop | ETrainStep\n"
    "| EHook (name : string) | EWindow | EStepInc | EOptimise.\n\n")


def pregen(run):
    """both translators run; a failure leaves a stub behind (never yesterday's text) and is re-raised"""
    errs = []
    try:
        save_ir.regen(core.REPO)
        run.oblige("translate:SavingHook.save_snapshot+save_snapshot+save_model / load_or_init_model+load_state+"
                   "load_snapshot -> gen/SaveIR.v", True)
    except Exception as e:
        core.write_if_changed(core.COQ / "gen" / "SaveIR.v", STUB % (str(e).replace("*)", "* )")[:300]))
        errs.append(e)
    try:
        train_ir.regen(core.REPO)
        run.oblige("translate:TrainingRun.train_step (window, order) / serve_mode / train_mode / train_loop / run_async "
                   "-> gen/TrainIR.v", True)
    except Exception as e:
        core.write_if_changed(core.COQ / "gen" / "TrainIR.v", train_ir_stub(str(e)))
        errs.append(e)
    if errs:
        raise errs[0]


# ----------------------------------------------------------------------------
# implementation
# ----------------------------------------------------------------------------
class Impl:
    pass


_impl = None


def impl():
    global _impl
    if _impl is not None:
        return _impl
    core.setup_impl(ext=True, shims=True)
    import torch
    import yaml
    import xformer
    from xformer import loading
    import tak.alphazero.trainer as trainer
    from tak.alphazero import Config, stats
    from tak.model import heads
    # tak/alphazero/hooks/__init__.py imports wandb.py and test_loss.py (wandb is absent): load the REAL
    # saving.py as tak.alphazero.hooks.saving under a package object that does not run that __init__
    name = "tak.alphazero.hooks"
    if name not in sys.modules or not hasattr(sys.modules[name], "SavingHook"):
        pkg = types.ModuleType(name)
        pkg.__path__ = [os.path.join(os.path.dirname(trainer.__file__), "hooks")]
        pkg.__package__ = name
        sys.modules[name] = pkg
    saving = importlib.import_module(name + ".saving")
    assert os.path.realpath(saving.__file__).startswith(os.path.realpath(str(core.REPO)))
    m = Impl()
    m.torch, m.yaml, m.xformer, m.loading, m.trainer, m.saving = torch, yaml, xformer, loading, trainer, saving
    m.Config, m.stats, m.heads = Config, stats, heads
    torch.set_num_threads(1)
    _impl = m
    return m


def model_cfg(m, pe="sin"):
    return m.xformer.Config(n_vocab=256, n_layer=1, d_model=8, d_head=4, n_ctx=12, output_head=m.heads.PolicyValue,
                            positional_encoding=pe, autoregressive_mask=False)   # as scripts/alpha_zero.py


def all_tensors(model):
    """every tensor the forward pass reads: parameters and buffers, persistent or not (a non-persistent buffer is
    not in state_dict())"""
    out = dict(model.named_parameters())
    for k, v in model.named_buffers():
        out.setdefault(k, v)
    return out


FIXED_TOKENS = [[3, 17, 101, 42, 7, 199], [250, 0, 5, 64, 128, 33]]


def forward_out(m, model):
    """one forward pass on a fixed token batch -> {name: tensor}; None if this dtype cannot run on the cpu"""
    torch = m.torch
    try:
        with torch.no_grad():
            out = model(torch.tensor(FIXED_TOKENS, dtype=torch.long))
        return {k: v.detach().clone() for k, v in out.items()}
    except Exception:     # noqa
        return None


def tensor_diffs(m, a, b):
    """names whose tensors differ bit for bit -> (dtype pair, max abs difference)"""
    torch = m.torch
    out = {}
    for k in sorted(set(a) | set(b)):
        if k not in a or k not in b:
            out[k] = ("missing", "missing", float("inf"))
            continue
        x, y = a[k], b[k]
        if x.dtype != y.dtype or x.shape != y.shape or not torch.equal(x, y):
            d = float("inf")
            if x.shape == y.shape and x.numel():
                d = float((x.double() - y.double()).abs().max())
            out[k] = (str(x.dtype), str(y.dtype), d)
    return out


def new_run(m, run_dir, serve=None, train=None, cap=4, dtype=None, pe="sin", load_model=None):
    """what TrainingRun.run_async builds before load_or_init_model"""
    cfg = m.Config(model=model_cfg(m, pe), device="cpu", run_dir=run_dir, load_model=load_model, hooks=[],
                   replay_buffer_steps=cap,
                   train_batch=4, train_positions=4, lr=1e-2)
    if serve is not None:
        cfg.serve_dtype = serve
    if train is not None:
        cfg.train_dtype = train
    tr = m.trainer.TrainingRun(config=cfg)
    model = m.xformer.Transformer(cfg.model, device="cpu")
    if dtype is not None:
        model.to(dtype)
    tr.state = m.trainer.TrainState(model=model, opt=m.torch.optim.AdamW(model.parameters(), lr=cfg.lr))
    return tr


def make_state(m, step, ver, dtype=None, nbuf=2, pe="sin"):
    """a deterministic training state for (step, version): weights, AdamW after one step, replay buffer, counters"""
    torch = m.torch
    g = torch.Generator().manual_seed(1000003 * ver + step)
    tr = new_run(m, None, dtype=dtype, pe=pe)
    st = tr.state
    with torch.no_grad():
        for p in st.model.parameters():
            p.copy_(torch.randn(p.shape, generator=g).to(p.dtype) * 0.05)
    for p in st.model.parameters():
        p.grad = (torch.randn(p.shape, generator=g) * 0.1).to(p.dtype)
    st.opt.step()
    st.opt.zero_grad()
    st.replay_buffer = [
        {"positions": torch.randint(0, 200, (3 + i, 5), generator=g),
         "mask": torch.rand((3 + i, 5), generator=g) > 0.3,
         "values": torch.randn((3 + i,), generator=g),
         "moves": torch.rand((3 + i, 7), generator=g)} for i in range(nbuf)]
    st.elapsed = m.stats.Elapsed(step=step, positions=64 * step + ver, epoch=ver)
    return st


# ---- canonical digests -------------------------------------------------------
def tensor_bytes(m, t):
    torch = m.torch
    t = t.detach().contiguous().cpu()
    head = f"{t.dtype}|{tuple(t.shape)}|".encode()
    if t.numel() == 0:
        return head
    return head + t.reshape(-1).view(torch.uint8).numpy().tobytes()


def canon(m, o, h):
    torch = m.torch
    if isinstance(o, torch.Tensor):
        h.update(b"T" + tensor_bytes(m, o))
    elif isinstance(o, dict):
        h.update(b"D%d" % len(o))
        for k in o:                      # insertion order is part of the saved object
            h.update(repr(k).encode())
            canon(m, o[k], h)
    elif isinstance(o, (list, tuple)):
        h.update(b"L%d" % len(o))
        for x in o:
            canon(m, x, h)
    elif hasattr(o, "__attrs_attrs__"):
        h.update(type(o).__name__.encode())
        canon(m, {a.name: getattr(o, a.name) for a in o.__attrs_attrs__}, h)
    else:
        h.update(repr((type(o).__name__, o)).encode())


def digest(m, o):
    h = hashlib.sha256()
    canon(m, o, h)
    return int.from_bytes(h.digest()[:7], "big")


def state_digests(m, st):
    return {"CModel": digest(m, st.model.state_dict()), "COpt": digest(m, st.opt.state_dict()),
            "CReplay": digest(m, st.replay_buffer), "CElapsed": digest(m, st.elapsed)}


# ----------------------------------------------------------------------------
# fault injection
# ----------------------------------------------------------------------------
class Crash(BaseException):
    """the process dies here (BaseException: no `except OSError`/`except Exception` of the code under test sees it)"""


class FaultFS:
    """counts primitive file-system operations below run_dir and raises Crash before operation number crash_at.
    A file write is two operations (truncate, complete); dying between them leaves half of the bytes."""

    def __init__(self, m, run_dir, crash_at=None):
        self.m, self.root, self.crash_at = m, os.path.realpath(run_dir), crash_at
        self.count = 0
        self.trace = []
        self.depth = 0
        self.pending = {}          # open file object -> relative path (opened "w", yaml.dump not yet done)
        self.saved = []

    def rel(self, p):
        try:
            p = os.fspath(p)
        except TypeError:
            return None
        ap = os.path.join(os.path.realpath(os.path.dirname(os.path.abspath(p))), os.path.basename(p))
        if ap == self.root or not ap.startswith(self.root + os.sep):
            return None
        r = os.path.relpath(ap, self.root)
        return None if r == "SAVE_NOW" or r == "run.yaml" else r

    def tick(self, *ev):
        """called before an operation takes effect"""
        if self.crash_at is not None and self.count == self.crash_at:
            raise Crash()
        self.count += 1
        self.trace.append(ev)

    def _simple(self, mod, name, kind, npaths):
        real = getattr(mod, name)
        self.saved.append((mod, name, real))

        def wrapper(*a, **k):
            rels = [self.rel(x) for x in a[:npaths]] if kind != "Symlink" else [a[0], self.rel(a[1])]
            if self.depth or any(r is None for r in rels):
                return real(*a, **k)
            self.tick(kind, *rels)
            self.depth += 1
            try:
                return real(*a, **k)
            finally:
                self.depth -= 1
        setattr(mod, name, wrapper)

    def __enter__(self):
        m = self.m
        self._simple(os, "makedirs", "MkDirs", 1)
        self._simple(os, "rename", "Rename", 2)
        self._simple(os, "replace", "Replace", 2)
        self._simple(os, "unlink", "Unlink", 1)
        self._simple(os, "remove", "Unlink", 1)
        self._simple(os, "symlink", "Symlink", 2)
        self._simple(shutil, "rmtree", "RmTree", 1)
        self._simple(os, "mkdir", "MkDirs", 1)
        # torch.save(obj, path)
        real_save = m.torch.save
        self.saved.append((m.torch, "save", real_save))

        def t_save(obj, f, *a, **k):
            r = self.rel(f) if isinstance(f, (str, os.PathLike)) else None
            if self.depth or r is None:
                return real_save(obj, f, *a, **k)
            self.tick("OTruncate", r)
            self.depth += 1
            try:
                if self.crash_at is not None and self.count == self.crash_at:
                    buf = io.BytesIO()
                    real_save(obj, buf, *a, **k)
                    data = buf.getvalue()
                    with self._open(f, "wb") as fh:
                        fh.write(data[:len(data) // 2])
                    raise Crash()
                self.count += 1
                self.trace.append(("OComplete", r))
                return real_save(obj, f, *a, **k)
            finally:
                self.depth -= 1
        m.torch.save = t_save
        # open(path, "w") ... yaml.dump(obj, fh)
        real_open = builtins.open
        self._open = real_open
        self.saved.append((builtins, "open", real_open))

        def t_open(file, mode="r", *a, **k):
            r = self.rel(file) if isinstance(file, (str, os.PathLike)) else None
            if self.depth or r is None or not any(c in mode for c in "wax+"):
                return real_open(file, mode, *a, **k)
            self.tick("OTruncate", r)
            fh = real_open(file, mode, *a, **k)
            self.pending[id(fh)] = (fh, r)
            return fh
        builtins.open = t_open
        real_dump = m.yaml.dump
        self.saved.append((m.yaml, "dump", real_dump))

        def t_dump(data, stream=None, *a, **k):
            ent = self.pending.get(id(stream)) if stream is not None else None
            if self.depth or ent is None:
                return real_dump(data, stream, *a, **k)
            r = ent[1]
            if self.crash_at is not None and self.count == self.crash_at:
                text = real_dump(data, None, *a, **k)
                stream.write(text[:len(text) // 2])
                stream.flush()
                raise Crash()
            self.count += 1
            self.trace.append(("OComplete", r))
            del self.pending[id(stream)]
            self.depth += 1
            try:
                return real_dump(data, stream, *a, **k)
            finally:
                self.depth -= 1
        m.yaml.dump = t_dump
        return self

    def __exit__(self, *exc):
        for mod, name, real in reversed(self.saved):
            setattr(mod, name, real)
        self.saved = []
        for fh, _ in self.pending.values():
            try:
                fh.close()
            except Exception:
                pass
        return False


# ----------------------------------------------------------------------------
# histories on the real hook
# ----------------------------------------------------------------------------
KINDS = ("periodic", "request", "end")


class World:
    """one scratch run directory + the table content-hash -> (file, step, version)"""

    def __init__(self, m, base):
        self.m, self.base = m, base
        self.states = {}
        self.table = {}
        self.n = 0

    def state(self, step, ver):
        key = (step, ver)
        if key not in self.states:
            st = make_state(self.m, step, ver)
            self.states[key] = st
            ref = os.path.join(self.base, "ref", f"{step}_{ver}")
            self.m.saving.save_snapshot(st, ref)          # the real module-level writer, real file names
            for fn in os.listdir(ref):
                with open(os.path.join(ref, fn), "rb") as fh:
                    self.table.setdefault((fn, hashlib.sha256(fh.read()).hexdigest()), (step, ver))
            shutil.rmtree(ref)
        return self.states[key]

    def initial(self, with_opt):
        """a saved initial model (config.load_model), with or without an opt.pt next to it"""
        d = os.path.join(self.base, "init_opt" if with_opt else "init")
        if not os.path.isdir(d):
            st = make_state(self.m, 0, 77)
            self.m.loading.save_model(st.model, d)
            if with_opt:
                self.m.torch.save(st.opt.state_dict(), os.path.join(d, "opt.pt"))
            self.initial_state = {k: v.detach().clone() for k, v in st.model.state_dict().items()}
        return d

    def fresh_dir(self):
        self.n += 1
        d = os.path.join(self.base, f"run{self.n}")
        os.makedirs(d)
        return d


def do_event(m, hook, st, kind, run_dir):
    if kind == "end":
        hook.after_run(st)
    elif kind == "request" and st.elapsed.step > 0:
        hook.freq = st.elapsed.step + 1
        with open(os.path.join(run_dir, "SAVE_NOW"), "w"):
            pass
        hook.after_step(st)
    else:
        hook.freq = 1
        hook.after_step(st)


def execute(world, runs, spelling="abs"):
    """runs = [(events, crash_at or None)], events = [(kind, step, ver)].  Every run is a fresh hook on the same
    directory.  `spelling` is how the hook is told the run directory: "abs" (absolute), "rel" (relative to the
    current directory, the way scripts/alpha_zero.py passes --run-dir; cwd is restored afterwards) or "symlink"
    (absolute, through a symlinked parent).  Returns (real run_dir, per-run info)."""
    m = world.m
    run_dir = world.fresh_dir()
    spelled, cwd = run_dir, None
    if spelling == "rel":
        cwd = os.getcwd()
        spelled = os.path.basename(run_dir)
    elif spelling == "symlink":
        link = os.path.join(world.base, f"via{world.n}")
        os.symlink(os.path.dirname(run_dir), link)
        spelled = os.path.join(link, os.path.basename(run_dir))
    out = []
    try:
        if cwd is not None:
            os.chdir(os.path.dirname(run_dir))
        for events, crash_at in runs:
            cfg = types.SimpleNamespace(run_dir=spelled)
            hook = m.saving.SavingHook(freq=1)
            done = 0
            crashed = False
            states = [world.state(s, v) for _, s, v in events]
            with FaultFS(m, run_dir, crash_at) as ff:
                try:
                    hook.before_run(None, cfg)
                    for (kind, s, v), st in zip(events, states):
                        do_event(m, hook, st, kind, spelled)
                        done += 1
                except Crash:
                    crashed = True
            out.append({"done": done, "crashed": crashed, "trace": ff.trace, "count": ff.count})
    finally:
        if cwd is not None:
            os.chdir(cwd)
    return run_dir, out


NAME_RE = re.compile(r"^step_(\d{6,})(\.tmp)?$")


def coq_name(s):
    if s == "latest":
        return "Latest"
    if s == "latest.tmp":
        return "LatestTmp"
    mm = NAME_RE.match(s)
    if not mm:
        raise ValueError(f"name outside the model: {s!r}")
    return f"({'StepTmp' if mm.group(2) else 'Step'} {int(mm.group(1))})"


def coq_cb(comp, sv):
    return f"({comp}, {cz(sv[0])}, {cz(sv[1])})"


def listing(world, run_dir, comp_of):
    """the run directory as model entries; file contents identified by hash"""
    ents = []
    for top in sorted(os.listdir(run_dir)):
        p = os.path.join(run_dir, top)
        if top in ("SAVE_NOW", "run.yaml"):
            continue
        n = coq_name(top)
        if os.path.islink(p):
            ents.append(f"(Top {n}, Link {coq_name(os.readlink(p))})")
        elif os.path.isdir(p):
            ents.append(f"(Top {n}, Dir)")
            for fn in sorted(os.listdir(p)):
                fp = os.path.join(p, fn)
                if not os.path.isfile(fp) or os.path.islink(fp) or '"' in fn:
                    raise ValueError(f"entry outside the model: {top}/{fn}")
                with open(fp, "rb") as fh:
                    key = (fn, hashlib.sha256(fh.read()).hexdigest())
                sv = world.table.get(key)
                c = comp_of.get(fn)
                if sv is None or c is None:
                    ents.append(f'(Sub {n} "{fn}", File Partial)')
                else:
                    ents.append(f'(Sub {n} "{fn}", File (Complete {coq_cb(c, sv)}))')
        else:
            raise ValueError(f"entry outside the model: {top}")
    return ents


def resume_real(world, run_dir, load_model=None):
    """load_or_init_model of a fresh TrainingRun: ('Resumed', step, {comp: (step, ver) or None}) / ('Scratch',) /
    ('Initial',) (config.load_model was loaded) / ('Broken', exception class).  world.last_action = which branch ran."""
    m = world.m
    tr = new_run(m, run_dir, load_model=load_model)
    acts = []
    real_init = tr.state.model.init_weights
    tr.state.model.init_weights = lambda *a, **k: (acts.append("AInitWeights"), real_init(*a, **k))[1]
    real_ls, real_snap = m.trainer.load_state, m.loading.load_snapshot

    def ls(state, path):
        acts.append("ALoadState")
        return real_ls(state, path)

    def snap(model, path):
        if load_model is not None and os.path.realpath(path) == os.path.realpath(load_model):
            acts.append("ALoadInitial")
        return real_snap(model, path)
    m.trainer.load_state, m.loading.load_snapshot = ls, snap
    try:
        try:
            tr.load_or_init_model()
        finally:
            m.trainer.load_state, m.loading.load_snapshot = real_ls, real_snap
            action = world.last_action = acts[0] if acts else None
    except Exception as e:      # noqa
        return ("Broken", type(e).__name__), tr
    if action == "AInitWeights":
        return ("Scratch",), tr
    if action == "ALoadInitial":
        init = world.initial_state
        same = all(m.torch.equal(v, init[k]) for k, v in tr.state.model.state_dict().items())
        return (("Initial",) if same and tr.state.elapsed.step == 0 and not tr.state.replay_buffer
                else ("Broken", "initial model not restored")), tr
    el = tr.state.elapsed
    if not isinstance(el, m.stats.Elapsed) or not isinstance(getattr(el, "step", None), int):
        return ("Broken", f"elapsed={el!r}"[:80]), tr
    got = state_digests(m, tr.state)
    ident = {}
    for c in ("CModel", "COpt", "CReplay", "CElapsed"):
        ident[c] = None
        for key, st in world.states.items():
            if world_digest(world, key)[c] == got[c]:
                ident[c] = key
                break
    return ("Resumed", el.step, ident), tr


def world_digest(world, key):
    cache = world.__dict__.setdefault("_dig", {})
    if key not in cache:
        cache[key] = state_digests(world.m, world.states[key])
    return cache[key]


def gen_histories(run):
    """(label, [events]) single-run histories; events = (kind, step, ver); one version per step inside a run"""
    rng = run.rng
    hs = [
        ("periodic+end-repeat", [("periodic", 1, 1), ("periodic", 2, 1), ("end", 2, 1)]),
        ("request+end", [("request", 3, 1), ("periodic", 4, 1), ("end", 5, 1)]),
        ("triple-repeat", [("periodic", 1, 1), ("end", 1, 1), ("end", 1, 1), ("periodic", 2, 1)]),
        ("step0-end", [("end", 0, 1)]),
    ]
    extra = 1 if run.quick else 40
    for i in range(extra):
        ev, step = [], rng.randint(0, 3)
        for _ in range(rng.randint(2, 5)):
            kind = rng.choice(KINDS)
            if ev and rng.random() < 0.35:
                pass                                  # repeated save of the same step
            else:
                step += rng.randint(1, 3)
            ev.append((kind, step, 1))
        hs.append((f"random{i}", ev))
    return hs


def events_coq(events):
    return clist([f"({cz(s)}, {cz(v)})" for _, s, v in events])


def trace_coq(world, trace, run_dir_done, comp_of, events_by_file=None):
    """observed operations -> Coq op literals; OComplete payloads are identified from the file the operation wrote,
    which is only possible right after the run: the caller passes the (step, ver) in force"""
    out = []
    for ev in trace:
        k = ev[0]
        if k in ("MkDirs", "RmTree"):
            out.append(f"{k} {coq_name(ev[1])}")
        elif k == "Unlink":
            out.append(f"UnlinkQuiet {coq_name(ev[1])}")
        elif k in ("Rename", "Replace"):
            out.append(f"{k} {coq_name(ev[1])} {coq_name(ev[2])}")
        elif k == "Symlink":
            out.append(f"Symlink {coq_name(ev[1])} {coq_name(ev[2])}")
        elif k in ("OTruncate", "OComplete"):
            d, _, fn = ev[1].partition("/")
            if not fn or "/" in fn or '"' in fn:
                raise ValueError(f"write outside the model: {ev[1]}")
            if k == "OTruncate":
                out.append(f'OTruncate {coq_name(d)} "{fn}"')
            else:
                out.append(f'OComplete {coq_name(d)} "{fn}" {coq_cb(comp_of.get(fn, "CConfig"), ev[2])}')
        else:
            raise ValueError(f"unknown operation {ev}")
    return out


def annotate_trace(trace, events, dones):
    """attach the (step, ver) of the save in progress to every OComplete: the saves are sequential and every
    save ends with a Replace"""
    out, i = [], 0
    for ev in trace:
        if ev[0] == "OComplete":
            s, v = events[min(i, len(events) - 1)][1:]
            out.append(("OComplete", ev[1], (s, v)))
        else:
            out.append(ev)
        if ev[0] == "Replace" and ev[-1] == "latest":
            i += 1
    return out


def oracle(prev, events, done, crashed, res):
    """the property's own statement: after the run the directory resumes exactly the last completed save or the
    one that was in progress.  prev / return value: None (scratch) or (step, ver)."""
    allowed = []
    last = prev
    for (_, s, v) in events[:done]:
        last = (s, v)
    allowed.append(last)
    if crashed and done < len(events):
        allowed.append(tuple(events[done][1:]))
    if res[0] == "Scratch":
        got = None
    elif res[0] == "Resumed":
        vals = set(res[2].values())
        got = vals.pop() if len(vals) == 1 else "mixed"
        if got is not None and got != "mixed" and got[0] != res[1]:
            got = "mixed"
    else:
        got = "broken"
    return got in allowed, allowed, got


def crash_cases(run, world, comp_of):
    m = world.m
    cs = core.Cases(ID, "crash", HEADER, "crash_case", "crash_case_ok", show="crash_case_view", shard=60)
    bs = core.Cases(ID, "branch", HEADER, "(bool * bool * bool * option ract)%type", "branch_case_ok",
                    show="fun c => let '(rd, lm, ex, _) := c in choose_branch rd lm ex", shard=400)
    ts = core.Cases(ID, "trace", HEADER, "(list (Z * Z) * list (op CB))%type", "trace_case_ok",
                    show="fun c => hist_ops [] (hist_of (fst c))", shard=20)
    stats = {"runs": 0, "Scratch": 0, "Resumed": 0, "Broken": 0, "histories": 0}
    samples = []
    seen = set()
    t0 = time.time()

    def one(runs, label, spelling="abs"):
        """runs = [(events, crash_at)] -> case + oracle"""
        run_dir, info = execute(world, runs, spelling)
        res, tr0 = resume_real(world, run_dir)
        act0 = world.last_action
        exists = os.path.exists(os.path.join(run_dir, "latest"))
        bs.add(f"(true, false, {cbool(exists)}, {'Some ' + act0 if act0 else 'None'})",
               {"label": label, "load_model": None, "latest_exists": exists, "action": act0})
        if stats["runs"] % 2 == 0:
            # the same start with config.load_model set (as every restart of a run that began from an initial model has)
            with_opt = stats["runs"] % 4 == 0
            res2, tr2 = resume_real(world, run_dir, load_model=world.initial(with_opt))
            act2 = world.last_action
            bs.add(f"(true, true, {cbool(exists)}, {'Some ' + act2 if act2 else 'None'})",
                   {"label": label, "load_model": "initial model" + (" + opt.pt" if with_opt else ""),
                    "latest_exists": exists, "action": act2,
                    "runs": [{"events": ev, "crash_after_ops": k} for ev, k in runs]})
            want = res if res[0] != "Scratch" else ("Initial",)
            if res2[:2] != want[:2] or (res[0] == "Resumed" and res2[2] != res[2]):
                stats["load_model_failures"] = stats.get("load_model_failures", 0) + 1
                if stats["load_model_failures"] <= 6:
                    run.violation(f"resume-load-model:{label}:k={'/'.join(str(kk) for _, kk in runs)}",
                                  {"clause": "the run directory resumes from its last complete snapshot (never silently "
                                             "from the initial model) also when config.load_model is set",
                                   "history": [{"events": ev, "crash_after_ops": k} for ev, k in runs],
                                   "run_dir_spelling": spelling, "load_model": "saved initial model" + (" with opt.pt" if with_opt else ""),
                                   "latest_exists": exists, "without_load_model": res[:2], "with_load_model": res2[:2],
                                   "branch_taken": act2,
                                   "resumed_step": getattr(tr2.state.elapsed, "step", None),
                                   "replay_buffer_batches": len(tr2.state.replay_buffer)})
        try:
            ents = listing(world, run_dir, comp_of)
        except ValueError as e:
            run.oblige(f"correspondence:listing:{label}", False, str(e))
            ents = []
        stats["runs"] += 1
        stats[res[0]] += 1
        if res[0] == "Resumed":
            out = f"Resumed {cz(res[1])}"
            ld = "Some " + clist([f"({c}, {coq_cb(c, res[2][c] or (-1, -1))})" for c in READ_ORDER[0]])
        else:
            out = res[0]
            ld = "None"
        rs = clist([f"({events_coq(ev)}, {k if k is not None else 4000}%nat)" for ev, k in runs])
        meta = {"label": label, "run_dir_spelling": spelling,
                "runs": [{"events": ev, "crash_after_ops": k} for ev, k in runs],
                "impl_resume": list(res[:2]), "impl_loaded": {c: res[2][c] for c in res[2]} if res[0] == "Resumed" else None,
                "impl_listing": ents}
        cs.add(f"({rs}, {out}, {ld}, {clist(ents)})", meta)
        # the property itself, on the implementation
        # (for two processes: what the first one left was resumed and checked as a case of its own; its result
        # is the `prev` of the second)
        ev, k = runs[-1]
        inf = info[-1]
        if len(runs) > 1:
            pkey = tuple((tuple(e), kk) for e, kk in runs[:-1])
            if pkey not in PREV_CACHE:
                one(runs[:-1], label + "-prefix", spelling)       # the earlier processes are a case of their own
            prevs = PREV_CACHE.get(pkey)
        else:
            prevs = None
        ok, allowed, got = oracle(prevs if len(runs) > 1 else None, ev, inf["done"], inf["crashed"], res)
        if not ok:
            stats["oracle_failures"] = stats.get("oracle_failures", 0) + 1
        if not ok and stats["oracle_failures"] <= 12:        # the first dozen are reported one by one
            key = f"crash:{label}:k={'/'.join(str(kk) for _, kk in runs)}"
            run.violation(key, {"clause": "an interrupted save resumes from a complete snapshot - the previous one or "
                                          "the new one - never from a partial one and never silently from scratch; "
                                          "a completed save loads exactly what it was given",
                                "history": meta["runs"], "crash_index": k, "run_dir_spelling": spelling, "operations_done_in_last_run": inf["trace"][-6:],
                                "allowed (step, version)": allowed, "observed": got, "impl_resume": res[:2],
                                "impl_listing": ents})
        shutil.rmtree(run_dir, ignore_errors=True)
        ident = None
        if res[0] == "Resumed":
            vals = set(res[2].values())
            ident = vals.pop() if len(vals) == 1 else None
        PREV_CACHE[tuple((tuple(e), kk) for e, kk in runs)] = ident
        return res, info

    for label, events in gen_histories(run):
        stats["histories"] += 1
        # uncrashed reference: operation count and trace
        run_dir, info = execute(world, [(events, None)])
        n_ops = info[0]["count"]
        tr = annotate_trace(info[0]["trace"], events, info[0]["done"])
        try:
            ts.add(f"({events_coq(events)}, {clist(trace_coq(world, tr, run_dir, comp_of))})",
                   {"label": label, "events": events, "trace": info[0]["trace"]})
        except ValueError as e:
            run.oblige(f"correspondence:trace:{label}", False, str(e))
        shutil.rmtree(run_dir, ignore_errors=True)
        for k in range(n_ops + 1):
            res, _ = one([(events, k if k < n_ops else None)], label)
            h = (tuple(events), k)
            if h not in seen:
                seen.add(h)
        if len(samples) < 3:
            samples.append({"history": events, "operations": n_ops})
    # the same protocol with the run directory spelled as a relative path (cwd = its parent; how alpha_zero.py gets
    # --run-dir) and through a symlinked parent, each with repeated saves of one step; the model's verdict does not
    # depend on the spelling
    spelled = [("rel", "rel-repeat", [("periodic", 1, 1), ("periodic", 2, 1), ("end", 2, 1)]),
               ("rel", "rel-triple", [("periodic", 3, 1), ("end", 3, 1), ("end", 3, 1)]),
               ("symlink", "symlink-repeat", [("periodic", 1, 1), ("end", 1, 1), ("periodic", 2, 1), ("end", 2, 1)])]
    for spelling, label, events in spelled:
        stats["histories"] += 1
        run_dir, info = execute(world, [(events, None)], spelling)
        n_ops = info[0]["count"]
        shutil.rmtree(run_dir, ignore_errors=True)
        for k in range(n_ops + 1):
            one([(events, k if k < n_ops else None)], label, spelling)
    # two processes: the first dies at k1, the second resumes, reaches further steps (re-reaching the interrupted
    # step with OTHER weights = version 2) and is interrupted at every k2
    first = [("periodic", 1, 1), ("periodic", 2, 1)]
    run_dir, info = execute(world, [(first, None)])
    n1 = info[0]["count"]
    shutil.rmtree(run_dir, ignore_errors=True)
    k1s = sorted(set([n1 // 2 - 1, n1 - 5, n1 - 4, n1 - 3, n1 - 2, n1 - 1] if run.quick else range(1, n1)))
    for k1 in k1s:
        res1, info1 = one([(first, k1)], f"two-runs-first-k1={k1}")
        prev = None
        if res1[0] == "Resumed":
            vals = set(res1[2].values())
            prev = vals.pop() if len(vals) == 1 else None
        start = prev[0] if prev else 0
        second = [("periodic", start + 1, 2), ("end", start + 1, 2)] if start < 2 else [("end", 2, 1), ("periodic", 3, 2)]
        PREV_CACHE[((tuple(first), k1),)] = prev
        run_dir, info = execute(world, [(first, k1), (second, None)])
        n2 = info[1]["count"]
        shutil.rmtree(run_dir, ignore_errors=True)
        for k2 in range(n2 + 1):
            one([(first, k1), (second, k2 if k2 < n2 else None)], f"two-runs-k1={k1}")
    # process B has nothing left to train (train_steps already reached): it resumes and only performs the end-of-run
    # save of the step it resumed from, with the state it loaded; every crash index of that save
    n_first = None
    for k1 in ([None, n1 - 1, n1 - 2, n1 - 4, n1 // 2, n1 // 2 - 1] if run.quick else [None] + list(range(1, n1))):
        one([(first, k1)], f"end-only-first-k1={k1}")
        prev = PREV_CACHE.get(((tuple(first), k1),))
        b_only = [("end",) + (prev if prev else (0, 5))]
        run_dir, info = execute(world, [(first, k1), (b_only, None)])
        nb1 = info[1]["count"]
        shutil.rmtree(run_dir, ignore_errors=True)
        for kb in range(nb1 + 1):
            one([(first, k1), (b_only, kb if kb < nb1 else None)], f"end-only-k1={k1}")
    # config without run_dir: load_model or init_weights
    for lm in (None, world.initial(False)):
        resume_real(world, None, load_model=lm)
        actx = world.last_action
        bs.add(f"(false, {cbool(lm is not None)}, false, {'Some ' + actx if actx else 'None'})",
               {"label": "no-run-dir", "load_model": bool(lm), "action": actx})
    # the resumed process's FIRST save is for a DIFFERENT step than the one the dead process was interrupted in
    # (another frequency, a SAVE_NOW request): whatever the dead process left behind (latest.tmp, step_N.tmp, an
    # unpublished step_N) must not leak into the completed save.  Every crash index of the first process.
    for k1 in range(1, n1):
        res1, _ = one([(first, k1)], f"other-step-first-k1={k1}")
        start = PREV_CACHE.get(((tuple(first), k1),))
        s0 = start[0] if start else 0
        # one completed save of another step, then the process ends (a later save would hide a wrong link)
        one([(first, k1), ([("request", s0 + 2, 2)], None)], f"other-step-k1={k1}")
        if k1 % 6 == 0 or k1 >= n1 - 4:
            one([(first, k1), ([("periodic", s0 + 2, 2), ("request", s0 + 3, 2)], None)], f"other-steps-k1={k1}")
    # three processes: A dies between symlink(latest.tmp) and replace, B (other step) dies at every index, C completes;
    # and C interrupted at every index after B died in the same window
    a = (first, n1 - 1)
    b_ev = [("request", 3, 2)]
    run_dir, info = execute(world, [a, (b_ev, None)])
    nb = info[1]["count"]
    shutil.rmtree(run_dir, ignore_errors=True)
    c_ev = [("periodic", 4, 3), ("end", 4, 3)]
    for kb in range(nb):
        one([a, (b_ev, kb), (c_ev, None)], f"three-runs-kb={kb}")
    run_dir, info = execute(world, [a, (b_ev, nb - 1), (c_ev, None)])
    nc = info[2]["count"]
    shutil.rmtree(run_dir, ignore_errors=True)
    for kc in range(nc):
        one([a, (b_ev, nb - 1), (c_ev, kc)], "three-runs-kc")
    stats["wall_s"] = round(time.time() - t0, 1)
    return cs, ts, bs, stats, samples


PREV_CACHE = {}
READ_ORDER = [[]]


# ----------------------------------------------------------------------------
# round trips, mode switch, replay window
# ----------------------------------------------------------------------------
def roundtrip_cases(run, world):
    m = world.m
    torch = m.torch
    cs = core.Cases(ID, "roundtrip", HEADER, "(list Z * list Z)%type", "fun c => zlist_eqb (fst c) (snd c)", shard=200)
    n = 20 if run.quick else 200
    dist = {"float32": 0, "bfloat16": 0}
    for i in range(n):
        dt = torch.bfloat16 if i % 2 else torch.float32
        dist[str(dt).split(".")[1]] += 1
        step = run.rng.randint(0, 999999)
        pe = ("sin", "learned", "none")[i % 3]
        st = make_state(m, step, 100 + i, dtype=dt, nbuf=run.rng.randint(0, 3), pe=pe)
        run_dir = world.fresh_dir()
        hook = m.saving.SavingHook(freq=1)
        hook.before_run(st, types.SimpleNamespace(run_dir=run_dir))
        (hook.after_run if i % 3 == 0 else hook.after_step)(st)
        fresh = new_run(m, run_dir, dtype=dt, pe=pe)
        err = None
        try:
            fresh.load_or_init_model()
        except Exception as e:     # noqa
            err = repr(e)
        comps = ["CModel", "COpt", "CReplay", "CElapsed"]
        a = state_digests(m, st)
        b = state_digests(m, fresh.state) if err is None else {c: -1 for c in comps}
        if err is None:
            td = tensor_diffs(m, all_tensors(st.model), all_tensors(fresh.state.model))
            for k, (d1, d2, mx) in list(td.items())[:3]:
                run.violation(f"roundtrip-tensor:{pe}:{dt}:{k}",
                              {"clause": "loading a snapshot restores every tensor the forward pass reads, bit for bit",
                               "tensor": k, "dtypes": [d1, d2], "max_abs_diff": mx, "positional_encoding": pe,
                               "model_dtype": str(dt), "step": step, "in_state_dict": k in st.model.state_dict()})
            fa, fb = forward_out(m, st.model), forward_out(m, fresh.state.model)
            if fa is not None and fb is not None:
                fd = tensor_diffs(m, fa, fb)
                for k, (d1, d2, mx) in list(fd.items())[:2]:
                    run.violation(f"roundtrip-forward:{pe}:{dt}:{k}",
                                  {"clause": "the restored model computes what the saved one computed",
                                   "output": k, "max_abs_diff": mx, "tokens": FIXED_TOKENS, "positional_encoding": pe,
                                   "model_dtype": str(dt), "differing_tensors": sorted(td)[:5]})
        meta = {"dtype": str(dt), "step": step, "saved": a, "loaded": b, "error": err, "positional_encoding": pe,
                "files": sorted(os.listdir(os.path.join(run_dir, "latest"))) if os.path.exists(os.path.join(run_dir, "latest")) else None}
        cs.add(f"({core.czlist([a[c] for c in comps])}, {core.czlist([b[c] for c in comps])})", meta)
        # the run_async way: the fresh model is float32 whatever was saved; values must still be exact
        if dt is not torch.float32 and err is None:
            fresh32 = new_run(m, run_dir, pe=pe)
            fresh32.load_or_init_model()
            same = all(torch.equal(v.float(), fresh32.state.model.state_dict()[k].float())
                       for k, v in st.model.state_dict().items())
            if not same:
                run.violation(f"roundtrip-upcast:{i}", {"clause": "loading restores the saved parameter values", "case": meta})
        shutil.rmtree(run_dir, ignore_errors=True)
    return cs, n, dist


def dt_coq(m, d):
    return {m.torch.float32: "F32", m.torch.float16: "F16", m.torch.bfloat16: "BF16", m.torch.float64: "F64"}[d]


def mode_cases(run, world):
    """real serve_mode / forward / train_mode.  Compared bit for bit: EVERY tensor of named_parameters() and
    named_buffers() (non-persistent buffers included - they are outside state_dict() and so outside train_params)
    and the output of a forward pass on a fixed token batch, before vs after."""
    m = world.m
    torch = m.torch
    cs = core.Cases(ID, "mode", HEADER, "mode_case", "mode_case_ok", shard=50)
    combos = [(pe, serve, None) for pe in ("sin", "learned", "none")
              for serve in (None, torch.bfloat16, torch.float16)]
    combos += [("sin", torch.float32, torch.float32), ("sin", torch.bfloat16, torch.float32), ("sin", torch.float64, None)]
    reps = 1 if run.quick else 6
    n = 0
    for pe, serve, train in combos:
        for r in range(reps):
            tr = new_run(m, None, serve=serve, train=train, pe=pe)
            model = tr.state.model
            with torch.no_grad():
                g = torch.Generator().manual_seed(run.rng.randint(0, 2 ** 31))
                for p in model.parameters():
                    p.copy_(torch.randn(p.shape, generator=g) * 0.3)
            if (r + n) % 2:       # after a real optimiser step, as train_step leaves it
                for p in model.parameters():
                    p.grad = torch.randn(p.shape, generator=g) * 0.1
                tr.state.opt.step()
                tr.state.opt.zero_grad()
            sd_keys = set(model.state_dict())
            ts = all_tensors(model)
            keys = list(ts)
            in_sd = [k in sd_keys for k in keys]
            saved = {k: ts[k].detach().clone() for k in keys}
            before = [digest(m, saved[k]) for k in keys]
            ptrs = [ts[k].data_ptr() for k in keys]
            distinct = len(set(ptrs)) == len(ptrs)
            out_before = forward_out(m, model)
            tr.serve_mode()
            live = all_tensors(model)
            alias = [k in tr.train_params and tr.train_params[k].data_ptr() == live[k].data_ptr() for k in keys]
            served_dtype = {str(live[k].dtype) for k in keys if live[k].is_floating_point()}
            forward_out(m, model)       # serving: a forward pass in serving precision (may be unsupported on cpu)
            tr.train_mode()
            now = {k: v.detach() for k, v in all_tensors(model).items()}
            after = [digest(m, now[k]) if k in now else -1 for k in keys]
            out_after = forward_out(m, model)
            sname, tname = str(tr.config.serve_dtype), str(tr.config.train_dtype)
            td = tensor_diffs(m, saved, now)
            meta = {"positional_encoding": pe, "serve_dtype": sname, "train_dtype": tname,
                    "served_dtypes": sorted(served_dtype), "aliased": sum(alias), "tensors": len(keys),
                    "outside_state_dict": [k for k, f in zip(keys, in_sd) if not f],
                    "changed": {k: v for k, v in list(td.items())[:5]}, "distinct_storages": distinct}
            for k, (d1, d2, mx) in list(td.items())[:3]:
                run.violation(f"mode-tensor:{pe}:{sname}:{k}",
                              {"clause": "switching the model to serving precision and back restores the training "
                                         "parameters (every tensor the forward pass reads) bit for bit",
                               "tensor": k, "dtypes (before, after)": [d1, d2], "max_abs_diff": mx,
                               "in_state_dict": k in sd_keys, "positional_encoding": pe, "serve_dtype": sname,
                               "train_dtype": tname, "device": "cpu",
                               "model": "n_layer=1 d_model=8 d_head=4 n_ctx=12 PolicyValue head"})
            if out_before is not None and out_after is not None:
                fd = tensor_diffs(m, out_before, out_after)
                for k, (d1, d2, mx) in list(fd.items())[:2]:
                    run.violation(f"mode-forward:{pe}:{sname}:{k}",
                                  {"clause": "after serve_mode(); train_mode() the model computes what it computed before",
                                   "output": k, "max_abs_diff": mx, "tokens": FIXED_TOKENS, "positional_encoding": pe,
                                   "serve_dtype": sname, "train_dtype": tname, "differing_tensors": sorted(td)[:5]})
            cs.add(f"(true, {dt_coq(m, tr.config.serve_dtype)}, {dt_coq(m, tr.config.train_dtype)}, {core.czlist(before)}, "
                   f"{clist([cbool(x) for x in in_sd])}, {clist([cbool(x) for x in alias])}, {core.czlist(after)})", meta)
            if not distinct:
                run.oblige("assumption:one storage per tensor", False, str(meta))
            n += 1
    return cs, n


def window_cases(run, world):
    """the real TrainingRun.train_step (dedup, append, trim, train_mode, optimiser step, serve_mode) on synthetic
    batches; batch i carries the tag i in `values`"""
    m = world.m
    torch = m.torch
    from tak.model import encoding
    cs = core.Cases(ID, "window", HEADER, "(Z * list Z * list (list Z))%type", "window_case_ok", shard=50)
    caps = [1, 2, 3, 4] if run.quick else [1, 2, 3, 4, 5, 7, 9]
    steps_total = 0
    extra = []
    for cap in caps:
        for serve in (None, torch.bfloat16):
            tr = new_run(m, None, serve=serve, cap=cap)
            tr.state.model.init_weights()
            tr.serve_mode()
            k = cap + 3
            tags, bufs = [], []
            failed = False
            for i in range(1, k + 1):
                npos = 4
                pos = torch.zeros((npos, 6), dtype=torch.long)
                for r in range(npos):
                    pos[r] = torch.tensor([(i * 7 + r * 3 + c) % 200 for c in range(6)])
                batch = {"positions": pos, "mask": torch.ones((npos, 6), dtype=torch.bool),
                         "moves": torch.softmax(torch.zeros((npos, encoding.MAX_MOVE_ID)), -1),
                         "values": torch.full((npos,), float(i)) / 64.0,
                         "results": torch.zeros((npos,))}
                try:
                    tr.train_step(batch)
                except Exception as e:      # noqa
                    run.violation(f"window:cap={cap}:train_step-raises", {
                        "clause": "the replay window holds exactly the most recent replay_buffer_steps batches",
                        "replay_buffer_steps": cap, "serve_dtype": str(tr.config.serve_dtype), "training_step": i,
                        "exception": repr(e)[:300],
                        "buffer_lengths_before": [len(b) for b in bufs],
                        "expected_buffer": tags[-(cap - 1):] + [i] if cap > 1 else [i]})
                    failed = True
                    break
                tags.append(i)
                bufs.append([int(round(float(b["values"][0]) * 64)) for b in tr.state.replay_buffer])
                steps_total += 1
            if failed:
                continue
            extra.append({"cap": cap, "serve": str(tr.config.serve_dtype), "elapsed_step": tr.state.elapsed.step,
                          "final_buffer": bufs[-1]})
            if tr.state.elapsed.step != k:
                run.violation(f"elapsed-step:cap={cap}", {"clause": "progress counters", "expected": k,
                                                          "got": tr.state.elapsed.step})
            cs.add(f"({cz(cap)}, {core.czlist(tags)}, {clist([core.czlist(b) for b in bufs])})",
                   {"cap": cap, "serve_dtype": str(tr.config.serve_dtype), "buffers": bufs})
    return cs, steps_total, extra


def synthetic_batch(m, i, npos=4):
    torch = m.torch
    from tak.model import encoding
    pos = torch.zeros((npos, 6), dtype=torch.long)
    for r in range(npos):
        pos[r] = torch.tensor([(i * 7 + r * 3 + c) % 200 for c in range(6)])
    return {"positions": pos, "mask": torch.ones((npos, 6), dtype=torch.bool),
            "moves": torch.softmax(torch.zeros((npos, encoding.MAX_MOVE_ID)), -1),
            "values": torch.full((npos,), float(i)) / 64.0, "results": torch.zeros((npos,))}


def training_state_probe(run, world):
    """the composition the training loop performs: train_step (ends with serve_mode) -> after_step hook saves ->
    a fresh run resumes.  Deterministic: fixed seed, fixed tiny model, two real training steps.  What must come
    back is the TRAINING state: the master copy TrainingRun.train_params, the optimiser, the buffer, the counters."""
    m = world.m
    torch = m.torch
    out = []
    for serve in (None, torch.bfloat16):
        torch.manual_seed(19)
        run_dir = world.fresh_dir()
        tr = new_run(m, run_dir, serve=serve, cap=2)
        tr.load_or_init_model()
        tr.serve_mode()
        hook = m.saving.SavingHook(freq=1)
        hook.before_run(tr.state, tr.config)
        for i in (1, 2):
            tr.train_step(synthetic_batch(m, i))
            hook.after_step(tr.state)
        master = {k: v.detach().clone() for k, v in tr.train_params.items()}
        want = {"COpt": digest(m, tr.state.opt.state_dict()), "CReplay": digest(m, tr.state.replay_buffer),
                "CElapsed": digest(m, tr.state.elapsed)}
        fresh = new_run(m, run_dir, serve=serve, cap=2)
        try:
            fresh.load_or_init_model()
        except Exception as e:      # noqa
            run.violation(f"snapshot-loses:resume-raises:serve={tr.config.serve_dtype}",
                          {"clause": "a completed save resumes", "exception": repr(e)[:300],
                           "config": {"device": "cpu", "serve_dtype": str(tr.config.serve_dtype), "seed": 19,
                                      "training_steps": 2}})
            shutil.rmtree(run_dir, ignore_errors=True)
            continue
        got = {"COpt": digest(m, fresh.state.opt.state_dict()), "CReplay": digest(m, fresh.state.replay_buffer),
               "CElapsed": digest(m, fresh.state.elapsed)}
        sd = fresh.state.model.state_dict()
        diff = {k: float((sd[k].double() - master[k].double()).abs().max()) for k in master
                if not torch.equal(sd[k].to(master[k].dtype), master[k])}
        same_dtype = tr.config.serve_dtype == tr.config.train_dtype
        info = {"config": {"device": "cpu", "serve_dtype": str(tr.config.serve_dtype), "train_dtype": str(tr.config.train_dtype),
                           "model": "n_layer=1 d_model=8 d_head=4 n_ctx=12 PolicyValue head", "seed": 19,
                           "training_steps": 2, "replay_buffer_steps": 2},
                "resumed_step": getattr(fresh.state.elapsed, "step", None),
                "keys_differing_from_master_copy": len(diff), "keys": len(master),
                "max_abs_diff": max(diff.values()) if diff else 0.0,
                "worst_keys": sorted(diff, key=diff.get, reverse=True)[:4]}
        out.append(info)
        for c in want:
            if want[c] != got[c]:
                run.violation(f"snapshot-loses:{c}:serve={info['config']['serve_dtype']}",
                              {"clause": "saving and loading restores optimiser state, replay buffer and progress "
                                         "counters exactly (after real training steps)", "component": c, **info})
        if diff and same_dtype:
            run.violation("snapshot-loses:master-copy:serve=train",
                          {"clause": "saving and loading restores the training parameters exactly", **info})
        elif diff:
            run.violation("serve-precision-snapshot",
                          {"clause": "training state survives a snapshot: the hooks run after train_step's closing "
                                     "serve_mode(), so model.pt holds the serving-precision weights; the full-precision "
                                     "master copy (TrainingRun.train_params) is in no snapshot and is lost on resume",
                           **info})
        shutil.rmtree(run_dir, ignore_errors=True)
    return out


def continuation_probe(run, world):
    """a resumed run continues like an uninterrupted one: k real train_steps, after_step save, a fresh process-like
    state built in run_async's order (AdamW constructed BEFORE load_or_init_model), serve_mode, m more train_steps -
    against k+m uninterrupted steps.  Deterministic: the global RNG (torch.randperm in ReplayBufferDataset) is seeded
    before every step with a function of the step number in both branches; serve_dtype = train_dtype (cpu default)."""
    m = world.m
    torch = m.torch
    out = []

    def steps(tr, lo, hi, hook=None):
        for i in range(lo, hi):
            torch.manual_seed(7000 + i)
            tr.train_step(synthetic_batch(m, i + 1))
            if hook is not None:
                hook.after_step(tr.state)

    def start(run_dir):
        torch.manual_seed(23)
        tr = new_run(m, run_dir, cap=3)
        tr.load_or_init_model()
        tr.serve_mode()
        return tr

    def snapshot_of(tr):
        return {"parameters": digest(m, {k: v for k, v in all_tensors(tr.state.model).items()}),
                "optimiser": digest(m, tr.state.opt.state_dict()),
                "replay_buffer": digest(m, tr.state.replay_buffer),
                "counters": digest(m, tr.state.elapsed)}

    for k, mm in ((2, 2), (1, 3)) if run.quick else ((2, 2), (1, 3), (3, 1), (2, 4), (4, 2)):
        ref = start(None)
        steps(ref, 0, k + mm)
        want = snapshot_of(ref)
        run_dir = world.fresh_dir()
        a = start(run_dir)
        hook = m.saving.SavingHook(freq=k)
        hook.before_run(a.state, a.config)
        steps(a, 0, k, hook)
        b = new_run(m, run_dir, cap=3)              # optimiser constructed before loading, as run_async does
        info = {"steps_before_save": k, "steps_after_resume": mm, "device": "cpu", "serve_dtype": str(b.config.serve_dtype),
                "seed": 23, "replay_buffer_steps": 3}
        try:
            b.load_or_init_model()
        except Exception as e:      # noqa
            run.violation(f"resume-diverges:load-raises:k={k}", {"clause": "a completed save resumes", "exception": repr(e)[:300], **info})
            continue
        mp = {id(p) for p in b.state.model.parameters()}
        orphans = sum(1 for g in b.state.opt.param_groups for p in g["params"] if id(p) not in mp)
        total = sum(len(g["params"]) for g in b.state.opt.param_groups)
        info["optimiser_params_not_model_parameters"] = f"{orphans} of {total}"
        if orphans:
            run.violation("resume-diverges:optimizer-params-orphaned",
                          {"clause": "the resumed run trains: every tensor in opt.param_groups IS a parameter of the "
                                     "model after load_or_init_model (the optimiser is constructed before loading)", **info})
        b.serve_mode()
        try:
            steps(b, k, k + mm)
        except Exception as e:      # noqa
            run.violation(f"resume-diverges:train_step-raises:k={k}:m={mm}", {"clause": "the resumed run trains", "exception": repr(e)[:300], **info})
            continue
        got = snapshot_of(b)
        info["diverging"] = [c for c in want if want[c] != got[c]]
        out.append(info)
        for c in info["diverging"]:
            run.violation(f"resume-diverges:{c}",
                          {"clause": "training state survives a snapshot: k steps, save, resume, m steps = k+m uninterrupted "
                                     "steps, bit for bit", "component": c, **info})
        shutil.rmtree(run_dir, ignore_errors=True)
    return out


# ----------------------------------------------------------------------------
def name_broken_lemma(run):
    """`make` reports file:line; say WHICH tie lemma / theorem no longer checks"""
    where = run.extra.get("broken_at", "")
    mm = re.match(r"(proofs/Snapshot(?:Tie|Proofs)\.v):(\d+)", where)
    if not mm:
        return
    name = None
    for n, line in enumerate((core.COQ / mm.group(1)).read_text().splitlines(), 1):
        m2 = re.match(r"\s*(?:Theorem|Lemma|Example)\s+([\w']+)", line)
        if m2 and n <= int(mm.group(2)):
            name = m2.group(1)
    if name:
        run.extra["broken_lemma"] = name
        run.oblige(f"tie:{name} ({where})", False, "this lemma of the development no longer checks against the "
                   "regenerated gen/SaveIR.v / gen/TrainIR.v")


def correspondence(run):
    import contextlib
    name_broken_lemma(run)
    with contextlib.redirect_stdout(io.StringIO()):      # the hook prints "Saving snapshot to ..."
        _correspondence(run)
    # ./check skips its "something broke" step when a known finding was seen in the run; a broken translation /
    # proof / shard must still end in a VIOLATION line (the oracle above ran on every crash index and found nothing)
    broken = [o for o in run.obligations if not o[1]]
    if broken and not run.violations and run.known:
        run.violation("broken:" + broken[0][0],
                      {"broken_obligations": [{"name": o[0], "detail": o[2][-3000:]} for o in broken],
                       "note": "a theorem, tie or correspondence no longer checks; the property's oracle, run on every "
                               "crash index of the sampled histories, found no concrete failing input"},
                      found_input=False)


def _correspondence(run):
    m = impl()
    try:
        _, prog, reads = save_ir.translate(core.REPO)
    except Exception:
        prog, reads = [], [("model.pt", "CModel"), ("opt.pt", "COpt"), ("replay_buffer.pt", "CReplay"),
                           ("elapsed.yaml", "CElapsed")]
    comp_of = {}

    def walk(sts):
        for s in sts:
            if s[0] == "SWrite":
                comp_of[s[2]] = s[3]
            elif s[0] in ("SIfNotIsDir", "SIfNotPublished"):
                walk(s[-1])
    walk(prog)
    for fn, c in (("model.pt", "CModel"), ("config.yaml", "CConfig"), ("opt.pt", "COpt"),
                  ("replay_buffer.pt", "CReplay"), ("elapsed.yaml", "CElapsed")):
        comp_of.setdefault(fn, c)
    READ_ORDER[0] = [c for _, c in reads]
    base = tempfile.mkdtemp(prefix="verif_c19_")
    try:
        world = World(m, base)
        cs, ts, bs, st, samples = crash_cases(run, world, comp_of)
        if not prog:
            # no translation -> the model has no program to run; only the oracle above speaks
            run.oblige("correspondence:crash+trace skipped: gen/SaveIR.v is a stub (translation failed)", False)
            cs.terms, cs.metas, ts.terms, ts.metas = [], [], [], []
        failing, shard_fail, nsh = cs.run()
        run.oblige(f"correspondence:crash ({nsh} shards)", not shard_fail, str(shard_fail)[:1500])
        run.count(st["runs"], st["Resumed"] + st["Broken"],
                  "every crash index 0..N of each history (N = number of primitive operations; a write counts twice) on the "
                  "real SavingHook + a fresh TrainingRun.load_or_init_model; outcome, loaded (step,version) per component and "
                  "the directory listing compared with resume/loaded/exec of the model; two-process histories (die at k1, "
                  "resume, re-reach the step with other weights, die at k2); non-trivial = not Scratch",
                  samples, {k: v for k, v in st.items()}, label="crash")
        for meta in failing[:10]:
            idx = cs.metas.index(meta)
            run.violation(f"crash-model:{meta['label']}:k={'/'.join(str(r['crash_after_ops']) for r in meta['runs'])}",
                          {"clause": "model and implementation disagree on a crash prefix", "input": meta,
                           "model_view": cs.model_view(cs.terms[idx])})
        failing, shard_fail, nsh = ts.run()
        run.oblige(f"correspondence:trace ({nsh} shards)", not shard_fail, str(shard_fail)[:1500])
        run.count(len(ts), len(ts), "the file-system calls the real save issued on each history (uncrashed) = hist_ops of the "
                  "generated program, operation by operation, with paths and written contents", [], label="trace")
        for meta in failing[:5]:
            idx = ts.metas.index(meta)
            run.violation(f"trace:{meta['label']}", {"clause": "operation sequence of a save", "input": meta,
                                                     "model_view": ts.model_view(ts.terms[idx])})
        if not prog:
            bs.terms, bs.metas = [], []
        failing, shard_fail, nsh = bs.run()
        run.oblige(f"correspondence:branch ({nsh} shards)", not shard_fail, str(shard_fail)[:1500])
        run.count(len(bs), len(bs), "which branch of load_or_init_model ran (load_state / load_snapshot(load_model) / "
                  "init_weights, observed by wrapping the three) for config.run_dir x config.load_model (saved initial model "
                  "with and without opt.pt) x run_dir/latest present = choose_branch of the regenerated branch structure",
                  [bs.metas[1]] if len(bs.metas) > 1 else [], label="branch")
        for meta in failing[:4]:
            run.violation(f"branch:{meta['label']}:load_model={bool(meta['load_model'])}:latest={meta.get('latest_exists')}",
                          {"clause": "which snapshot a start resumes from", "input": meta,
                           "model_view": bs.model_view(bs.terms[bs.metas.index(meta)])})
        rs, n, dist = roundtrip_cases(run, world)
        failing, shard_fail, nsh = rs.run()
        run.oblige(f"correspondence:roundtrip ({nsh} shards)", not shard_fail, str(shard_fail)[:1500])
        run.count(n, n, "save through the real hook, load_or_init_model into a fresh run of the same dtype: sha256 of "
                  "model.state_dict(), opt.state_dict(), replay_buffer, elapsed (dtype, shape, raw bytes, key order) equal",
                  [rs.metas[0]] if rs.metas else [], dist, label="roundtrip")
        for meta in failing[:5]:
            run.violation(f"roundtrip:{meta['dtype']}:{meta['step']}",
                          {"clause": "saving and loading restores model parameters, optimiser state, replay buffer and "
                                     "progress counters exactly", "input": meta})
        ms, n = mode_cases(run, world)
        failing, shard_fail, nsh = ms.run()
        run.oblige(f"correspondence:mode ({nsh} shards)", not shard_fail, str(shard_fail)[:1500])
        run.count(n, n, "real serve_mode / forward pass / train_mode on cpu: per-key digests before = after, and "
                  "train_params[k].data_ptr() == live data_ptr compared with the model's aliasing prediction; every tensor of "
                  "named_parameters() and named_buffers() (non-persistent included) and the output of a forward pass on a "
                  "fixed token batch compared bit for bit; positional encodings sin/learned/none x serve_dtype float32 "
                  "(forced by Config on cpu), bfloat16, float16 (+ float64) set explicitly",
                  [ms.metas[1]] if len(ms.metas) > 1 else [], label="mode")
        for meta in failing[:5]:
            run.violation(f"mode:{meta['serve_dtype']}:{meta['train_dtype']}",
                          {"clause": "switching to serving precision and back restores the training parameters bit for bit "
                                     "(or the aliasing differs from the model)", "input": meta})
        ws, n, extra = window_cases(run, world)
        failing, shard_fail, nsh = ws.run()
        run.oblige(f"correspondence:window ({nsh} shards)", not shard_fail, str(shard_fail)[:1500])
        run.count(n, n, "real TrainingRun.train_step calls; the tags of state.replay_buffer after every step = window_run",
                  extra[:2], label="window")
        for meta in failing[:5]:
            run.violation(f"window:cap={meta['cap']}", {"clause": "the replay window holds exactly the most recent "
                                                        "replay_buffer_steps batches", "input": meta})
        cont = continuation_probe(run, world)
        run.extra["continuation_probe"] = cont
        run.count(len(cont), len(cont), "k train_steps, save, fresh state (AdamW built before load_or_init_model), m train_steps "
                  "vs k+m uninterrupted: parameters+buffers, optimiser state, replay buffer, counters bit for bit; "
                  "opt.param_groups tensors are the model's parameters (identity)", cont[:2], label="continuation")
        probe = training_state_probe(run, world)
        run.extra["training_state_probe"] = probe
        run.count(len(probe), len(probe), "train_step x2 -> after_step save -> resume in a fresh run, serve_dtype float32 "
                  "(cpu default) and bfloat16 (explicit): master copy, optimiser, buffer, counters compared", probe[:2],
                  label="probe")
    finally:
        shutil.rmtree(base, ignore_errors=True)


def search(run, broken):
    """a proof / tie / translation broke and the correspondence (which already runs the property's own oracle on every
    crash index) found nothing"""
    return False


def replay(run, rp):
    import contextlib
    with contextlib.redirect_stdout(io.StringIO()):
        return _replay(run, rp)


def _replay(run, rp):
    m = impl()
    base = tempfile.mkdtemp(prefix="verif_c19_")
    try:
        world = World(m, base)
        hist = rp.get("history") or (rp.get("input") or {}).get("runs")
        if not hist:
            return {"violates": False, "note": "nothing to replay in this file (no history)"}
        runs = [([tuple(e) for e in r["events"]], r["crash_after_ops"]) for r in hist]
        spelling = rp.get("run_dir_spelling") or (rp.get("input") or {}).get("run_dir_spelling") or "abs"
        run_dir, info = execute(world, runs, spelling)
        res, _ = resume_real(world, run_dir)
        prev = None
        for (ev, k), inf in zip(runs[:-1], info[:-1]):
            for (_, s, v) in ev[:inf["done"]]:
                prev = (s, v)
        # for multi-process replays the previous run's outcome is recomputed by resuming after it
        if len(runs) > 1:
            d2, _ = execute(world, runs[:-1], spelling)
            r1, _ = resume_real(world, d2)
            prev = None
            if r1[0] == "Resumed":
                vals = set(r1[2].values())
                prev = vals.pop() if len(vals) == 1 else None
        ok, allowed, got = oracle(prev, runs[-1][0], info[-1]["done"], info[-1]["crashed"], res)
        return {"violates": not ok, "allowed": allowed, "observed": got, "impl_resume": res[:2], "run_dir_spelling": spelling,
                "listing": sorted(os.listdir(run_dir))}
    finally:
        shutil.rmtree(base, ignore_errors=True)
