"""C07 - move ids are a bijection with the move universe of each board size."""
import random

from .. import core, takio
from ..core import cz, clist, copt

ID = "C07"
THEOREMS = ["C07_table_is_universe", "C07_table_nodup", "C07_bijection", "C07_ids_fit_head", "C07_counts_tie",
            "C07_source_table_is_model", "C07_source_all_slides_is_model"]
MODEL_TARGETS = ["model/Tak.vo", "model/Harness.vo", "model/Lit.vo", "model/PySem.vo"]
TRUSTED_BASE = ["python dict/list semantics behind MOVES_TO_ID / MOVES_BY_SIZE (validated exhaustively by the correspondence)"]
ASSUMPTIONS = ["head width is read from a constructed tak.model.heads.PolicyValue and compared with MAX_MOVE_ID"]

HEADER = "From Coq Require Import ZArith List Bool.\nFrom TV Require Import model.Tak model.Lit.\nImport ListNotations."


def _cases_tables(run):
    import tak
    from tak.model import encoding
    cs = core.Cases(ID, "table", HEADER, "Z * list mv * list Z",
                    "fun c => let '(n, ms, ids) := c in let t := table n in "
                    "list_eqb mv_eqb t ms && list_eqb (opt_eqb Z.eqb) (map (fun m => index_of m t 0) ms) (map Some ids)",
                    show="fun c => let '(n, ms, ids) := c in (zlen (table n), first_diff mv_eqb (table n) ms 0)", shard=1)
    total = nontrivial = 0
    dist = {}
    for n in range(len(encoding.MOVES_BY_SIZE)):
        ms = [encoding.decode_move(n, i) for i in range(encoding.n_moves_for_size(n))]
        ids = [encoding.encode_move(n, m) for m in ms]
        cs.add(f"({n}, {clist([takio.c_move(m) for m in ms])}, {core.czlist(ids)})",
               {"kind": "table", "size": n, "n_moves": len(ms)})
        total += len(ms)
        nontrivial += sum(1 for m in ms if m.type.is_slide())
        dist[f"size{n}"] = len(ms)
    return cs, total, nontrivial, dist


def _illformed_moves(rng, n, k):
    import tak
    out = []
    types = list(tak.MoveType)
    for _ in range(k):
        t = rng.choice(types)
        x, y = rng.randint(-2, n + 1), rng.randint(-2, n + 1)
        if t.is_slide():
            sl = tuple(rng.choice([-1, 0, 1, 1, 2, 3, n, n + 1]) for _ in range(rng.randint(0, n + 1)))
            if rng.random() < 0.1:
                sl = None
        else:
            sl = None if rng.random() < 0.8 else (1,)
        out.append(tak.Move(x, y, t, sl))
    return out


def _cases_encode(run):
    import tak
    from tak.model import encoding
    cs = core.Cases(ID, "encode", HEADER, "Z * list (mv * option Z)",
                    "fun c => let '(n, l) := c in let t := table n in "
                    "forallb (fun mi => opt_eqb Z.eqb (index_of (fst mi) t 0) (snd mi)) l",
                    show="fun c => let '(n, l) := c in let t := table n in map (fun mi => index_of (fst mi) t 0) l", shard=1)
    k = 300 if run.quick else 3000
    tot = nz = 0
    samples = []
    for n in range(3, 7):
        ms = _illformed_moves(run.rng, n, k)
        items = []
        for m in ms:
            try:
                i = encoding.encode_move(n, m)
            except KeyError:
                i = None
            items.append(f"({takio.c_move(m)}, {copt(None if i is None else cz(i))})")
            tot += 1
            nz += i is None
        cs.add(f"({n}, {clist(items)})", {"kind": "encode-illformed", "size": n, "moves": [takio.j_move(m) for m in ms[:50]]})
        samples.append({"size": n, "move": takio.j_move(ms[0])})
    return cs, tot, nz, samples


def _alias_probe(run):
    """history family: a caller that mutates the list returned by all_moves_for_size must not disturb the id tables
    (the tables are the one fixed bijection of the size; the correspondence above has just compared them with the model)"""
    from tak import moves
    from tak.model import encoding
    n_ops = bad = 0
    for n in range(3, 7):
        count = encoding.n_moves_for_size(n)
        before = [encoding.decode_move(n, i) for i in range(count)]
        lst = moves.all_moves_for_size(n)
        saved = list(lst)
        try:
            lst.reverse()
            dropped = lst.pop()
            n_ops += 2
            after_n = encoding.n_moves_for_size(n)
            after = [encoding.decode_move(n, i) for i in range(min(after_n, count))]
            again = list(moves.all_moves_for_size(n))
            problems = []
            if after_n != count:
                problems.append(f"n_moves_for_size({n}) changed {count} -> {after_n}")
            first = next((i for i, (a, b) in enumerate(zip(before, after)) if a != b), None)
            if first is not None:
                problems.append(f"decode_move({n}, {first}) changed from {before[first]} to {after[first]}")
            rt = next((i for i, m in enumerate(after) if encoding.encode_move(n, m) != i), None)
            if rt is not None:
                problems.append(f"encode_move({n}, decode_move({n}, {rt})) = {encoding.encode_move(n, after[rt])} != {rt}")
            if again != saved:
                problems.append("a second call of all_moves_for_size returns a different list after the caller's mutation")
        finally:
            lst[:] = saved
        if problems:
            bad += 1
            run.violation(f"alias-size{n}", {"clause": "ids correspond one-to-one with the well-formed moves of the size; encode and decode are mutual inverses",
                                            "history": [f"l = tak.moves.all_moves_for_size({n})", "l.reverse()", "l.pop()",
                                                        "then query encoding.n_moves_for_size / decode_move / encode_move"],
                                            "dropped": takio.j_move(dropped), "problems": problems})
    run.count(n_ops, n_ops, "history: the caller mutates (reverse, pop) the list returned by all_moves_for_size(n), n = 3..6, then every id "
              "is decoded and re-encoded again and compared with the tables seen before the mutation", [{"sizes": [3, 4, 5, 6]}],
              {"violating_sizes": bad}, label="alias-probe")


def correspondence(run):
    core.setup_impl()
    import tak
    from tak.model import encoding
    # exhaustive: every id and every move of every size the table is built for
    cs, total, nontrivial, dist = _cases_tables(run)
    failing, shard_fail, nshards = cs.run()
    run.oblige(f"correspondence:table ({nshards} shards)", not shard_fail, str(shard_fail)[:1500])
    run.count(total, nontrivial, "every id of every size 0..6: decode_move(id) compared with the model's table entry and "
              "encode_move(decode_move(id)) with the model's index (exhaustive); non-trivial = slide entries",
              [{"size": 5, "id": 766, "move": takio.j_move(encoding.decode_move(5, 766))}], dist, label="table")
    run.extra["exhaustive"] = True
    for meta in failing:
        n = meta["size"]
        # locate the first differing id by re-running the model's view
        view = cs.model_view(cs.terms[cs.metas.index(meta)])
        run.violation(f"table-size{n}", {"clause": "ids correspond one-to-one with the well-formed moves of the size",
                                        "input": meta, "model_view": view,
                                        "impl_first_moves": [takio.j_move(encoding.decode_move(n, i)) for i in range(min(8, encoding.n_moves_for_size(n)))]})
    cs2, tot, nz, samples = _cases_encode(run)
    failing2, shard_fail2, nshards2 = cs2.run()
    run.oblige(f"correspondence:encode-illformed ({nshards2} shards)", not shard_fail2, str(shard_fail2)[:1500])
    run.count(tot, nz, "random moves incl. off-board squares, zero/negative/too-long drops: encode_move raises KeyError "
              "iff the model's table does not contain the move; non-trivial = rejected ones", samples, label="encode-illformed")
    for meta in failing2:
        run.violation(f"encode-illformed-size{meta['size']}", {"clause": "encoding is defined exactly on the move universe", "input": meta,
                                                               "model_view": cs2.model_view(cs2.terms[cs2.metas.index(meta)])})
    _alias_probe(run)
    # head width
    try:
        import xformer
        from tak.model import heads
        cfg = xformer.Config(n_vocab=256, n_layer=1, d_model=8, d_head=4, output_head=heads.PolicyValue)
        head = heads.PolicyValue(cfg)
        width = head.move_proj.out_features
        ok = all(encoding.n_moves_for_size(s) <= width for s in range(3, 7)) and width == encoding.MAX_MOVE_ID
        run.oblige("tie:policy head out_features == MAX_MOVE_ID >= n_moves_for_size(3..6)", ok, f"width={width}")
        if not ok:
            bad = [s for s in range(3, 7) if encoding.n_moves_for_size(s) > width]
            run.violation("head-width", {"clause": "every size's id range fits within the policy head's output width",
                                         "head_out_features": width, "MAX_MOVE_ID": encoding.MAX_MOVE_ID,
                                         "sizes_not_fitting": bad,
                                         "n_moves": [encoding.n_moves_for_size(s) for s in range(7)]}, found_input=bool(bad))
    except Exception as e:  # noqa
        run.oblige("tie:policy head width", False, repr(e))


def search(run, broken):
    """a proof or tie broke but the correspondence agreed: test the property's own statement on the implementation"""
    core.setup_impl()
    import tak
    from tak.model import encoding
    for n in range(3, 7):
        ms = [encoding.decode_move(n, i) for i in range(encoding.n_moves_for_size(n))]
        if len(set(ms)) != len(ms):
            run.violation(f"dup-size{n}", {"clause": "one-to-one", "size": n})
            return True
        if encoding.n_moves_for_size(n) > encoding.MAX_MOVE_ID:
            run.violation(f"width-size{n}", {"clause": "fits head", "size": n})
            return True
    return False


def replay(run, rp):
    core.setup_impl()
    from tak.model import encoding
    inp = rp.get("input", {})
    n = inp.get("size", 3)
    ms = [encoding.decode_move(n, i) for i in range(encoding.n_moves_for_size(n))]
    cs, *_ = _cases_tables(run)
    failing, shard_fail, _ = cs.run()
    return {"violates": bool(failing or shard_fail), "failing": failing, "n_moves": len(ms)}


def pregen(run):
    """regenerate gen/GameGen.v (all_moves_for_size, ALL_SLIDES among others) from the tree under test"""
    from . import c01gen
    return c01gen.pregen(run)
