"""T06 - `encode` of python/tak/model/encoding.py is REGENERATED FROM THE SOURCE and proved equal to the hand-written
model (model/Encoding.v), for every position and both flag values; the main C06 theorems are transported to the
generated function (props/T06.v, proofs/EncodingGenEq.v).

`pregen` regenerates gen/GameGen.v (to_move / flip are used by encode) and gen/EncodingGen.v.  Correspondence: the
GENERATED encode, evaluated inside Coq, against the implementation on positions of c06's generators (playouts,
constructed boards with tall stacks, custom reserves) incl. out-of-domain reserves (50, 51, 255, -1, -50, -51, caps 2,
-1, -3 ...: IndexError or negative wrap).  PySem.v itself is validated against CPython by T01's correspondence; the two
operations added for this package (py_uncons, pair_eqb through py_dict_get with tuple keys) are validated here."""
import hashlib

from .. import core, takio
from ..core import cbool, clist, cz, czlist
from . import c01gen, c06gen



class _Lazy:
    """c06.py may import this module (to run its correspondence too): import c06 on first use"""

    def __getattr__(self, name):
        import importlib
        return getattr(importlib.import_module("harness.props.c06"), name)


c06 = _Lazy()

ID = "T06"
THEOREMS = ["T06_gen_encode_eq", "T06_gen_encode_outcomes", "T06_gen_vocabulary", "T06_py_getitem_is_py_index",
            "T06_gen_decode_encode", "T06_gen_reachable_encodes", "T06_gen_encode_injective",
            "T06_gen_encode_distinct", "T06_gen_encode_swap", "T06_gen_tokens_byte",
            "T06_gen_decode_agrees", "T06_gen_decode_ok_iff", "T06_gen_decode_outcomes", "T06_gen_decode_go",
            "T06_gen_round_trip"]
MODEL_TARGETS = ["model/Tak.vo", "model/Road.vo", "model/PySem.vo", "model/Harness.vo", "model/Lit.vo",
                 "model/Encoding.vo", "gen/GameGen.vo", "gen/EncodingGen.vo"]
TRUSTED_BASE = [
    "model/PySem.v (Python semantics of indexing with negative wrap / IndexError, tuple indexing, dict lookup, "
    "`head, *rest = l`, range) - validated against CPython by T01's and this correspondence",
    "harness/py2coq.py: statements -> Gallina scheme, class-level constants as definitions evaluated in order; "
    "validated by running the generated encode against the implementation",
    "decode: a 1-d integer torch tensor is the list of its entries (t[i] = py_getitem incl. IndexError, .item() / "
    ".numpy() the identity); int(n ** (1 / 2)) is Z.sqrt for 0 <= n < 2^52 and Unmodelled outside; tuple(l) is modelled "
    "for two elements - validated by running the generated decode against the implementation (exception CLASSES compared)",
]
ASSUMPTIONS = [
    "gen_encode_eq has no domain guard; the transported lossless / injective clauses keep C06's guard `encodable`",
]
_STATE = {}


def pregen(run):
    e1 = c01gen.pregen(run)
    e2 = c06gen.pregen(run)
    _STATE["err"] = e1 or e2
    return _STATE["err"]


HEADER = """From Coq Require Import ZArith String List Bool.
From TV Require Import model.Tak model.Road model.PySem model.Lit.
From TV Require gen.GameGen gen.EncodingGen.
Import ListNotations.
Open Scope Z_scope.
Inductive eobs := EOk (l : list Z) | EIndexError | EOther.
Definition same (r : res (list Z)) (o : eobs) : bool :=
  match r, o with
  | Ok l, EOk l' => list_eqb Z.eqb l l'
  | Crash IndexError, EIndexError => true
  | _, _ => false
  end.
(* position, encode(p, True), encode(p, False) *)
Definition ecase := (position * eobs * eobs)%type.
Definition echk (c : ecase) : bool :=
  let '(p, a, b) := c in same (EncodingGen.encode p true) a && same (EncodingGen.encode p false) b.
Definition eview (c : ecase) := let '(p, a, b) := c in (EncodingGen.encode p true, EncodingGen.encode p false).
(* decode: a token list and what decode(torch.tensor(l)) did: a position, one of the four exception classes, or other *)
Inductive dobs := DOk (p : position) | DRaise (e : exn) | DOther.
Definition dsame (r : res position) (o : dobs) : bool :=
  match r, o with
  | Ok p, DOk q => position_eqb p q
  | Crash e, DRaise e' => exn_eqb e e'
  | _, _ => false
  end.
Definition dchk (c : list Z * dobs) : bool := dsame (EncodingGen.decode (fst c)) (snd c).
Definition dview (c : list Z * dobs) := EncodingGen.decode (fst c).
"""

SEM_HEADER = """From Coq Require Import ZArith String List Bool.
From TV Require Import model.Tak model.PySem model.Lit.
Import ListNotations.
Open Scope Z_scope.
(* `h, *t = l` observed: Some (h, t) or None = ValueError; d[(b, k)] on a dict with (bool, int) keys: Some v or None = KeyError *)
Inductive scase :=
| SUncons (l : list Z) (o : option (Z * list Z))
| SDict (d : list ((bool * Z) * Z)) (b : bool) (k : Z) (o : option Z).
Definition schk (c : scase) : bool :=
  match c with
  | SUncons l o => match py_uncons l, o with
                   | Ok (h, t), Some (h', t') => (h =? h') && list_eqb Z.eqb t t'
                   | Crash ValueError, None => true
                   | _, _ => false
                   end
  | SDict d b k o => match py_dict_get (pair_eqb Bool.eqb Z.eqb) d (b, k), o with
                     | Ok v, Some w => v =? w
                     | Crash KeyError, None => true
                     | _, _ => false
                     end
  end.
"""


def _eobs(o):
    if o[0] == "ok":
        return f"(EOk {czlist(o[1])})"
    return "EIndexError" if o[0] == "raise" else "EOther"


def sem_cases(run, n):
    rng = run.rng
    cs = core.Cases(ID, "pysem", SEM_HEADER, "scase", "schk", shard=400)
    for _ in range(n):
        if rng.random() < 0.5:
            l = [rng.randint(-9, 9) for _ in range(rng.randint(0, 5))]
            try:
                h, *t = l
                o = f"(Some ({cz(h)}, {czlist(t)}))"
            except ValueError:
                o = "None"
            cs.add(f"SUncons {czlist(l)} {o}", {"expr": f"h, *t = {l}"})
        else:
            keys = [(rng.random() < 0.5, rng.randint(0, 3)) for _ in range(rng.randint(0, 6))]
            d = {}
            items = []
            for k in keys:
                if k in d:
                    continue           # a dict literal with a repeated key is refused by the translator
                d[k] = rng.randint(0, 99)
                items.append(f"(({cbool(k[0])}, {cz(k[1])}), {cz(d[k])})")
            q = (rng.random() < 0.5, rng.randint(0, 3))
            try:
                o = f"(Some {cz(d[q])})"
            except KeyError:
                o = "None"
            cs.add(f"SDict {clist(items)} {cbool(q[0])} {cz(q[1])} {o}", {"expr": f"{d}[{q}]"})
    return cs


def enc_cases(run, triples, name="encode"):
    _, _, enc = c06._impl()
    cs = core.Cases(ID, name, HEADER, "ecase", "echk", show="eview", shard=120)
    stats = {"dist": {}, "nontrivial": 0, "samples": []}
    for p, kind in triples:
        a = c06.obs_encode(enc, p, True)
        b = c06.obs_encode(enc, p, False)
        cs.add(f"({takio.c_pos(p)}, {_eobs(a)}, {_eobs(b)})",
               {"position": takio.j_pos(p), "kind": kind, "impl_true": c06.j_obs(a), "impl_false": c06.j_obs(b)})
        k = kind.split("+")[0] + ("" if a[0] == "ok" else ":" + a[1])
        stats["dist"][k] = stats["dist"].get(k, 0) + 1
        if any(len(sq) > 1 for sq in p.board) or a[0] != "ok" or not c06.in_domain(p):
            stats["nontrivial"] += 1
        if len(stats["samples"]) < 3 and kind.startswith("out-of-domain"):
            stats["samples"].append({"tps": takio.j_pos(p)["tps"], "stones": takio.j_pos(p)["stones"], "impl": c06.j_obs(a)})
    return cs, stats


def _dobs(o):
    if o[0] == "ok":
        return f"(DOk {takio.c_pos(o[1])})"
    return f"(DRaise {o[1]})" if o[0] == "raise" else "DOther"


def dec_cases(run, streams, name="decode"):
    _, torch, enc = c06._impl()
    cs = core.Cases(ID, name, HEADER, "list Z * dobs", "dchk", show="dview", shard=150)
    dist = {}
    for toks, kind in streams:
        o = c06.obs_decode(torch, enc, toks, dtype=torch.int64 if any(t > 255 or t < 0 for t in toks) else None)
        k = "ok" if o[0] == "ok" else o[1]
        dist[k] = dist.get(k, 0) + 1
        cs.add(f"({czlist(toks)}, {_dobs(o)})", {"tokens": list(toks), "kind": kind, "impl": c06.j_obs(o)})
    return cs, dist


def correspondence(run):
    err = _STATE.get("err", "unset")
    if err == "unset":
        err = pregen(run)
    cs = sem_cases(run, 800 if run.quick else 4000)
    failing, shard_fail, nshards = cs.run()
    run.oblige(f"correspondence:pysem-additions ({nshards} shards)", not shard_fail, str(shard_fail)[:1500])
    run.count(len(cs), len(set(cs.terms)), "PySem.v additions vs CPython: `h, *t = l` (ValueError on the empty list), "
              "d[(bool, int)] on dict literals with tuple keys (KeyError)", [m for m in cs.metas[:2]], label="pysem")
    for meta in failing[:6]:
        run.violation("pysem:" + hashlib.sha256(repr(meta).encode()).hexdigest()[:12],
                      {"clause": "model/PySem.v disagrees with CPython", "input": meta})
    if err:
        run.extra["differential_skipped"] = "the translation failed; gen/EncodingGen.v is a stub"
        return
    pool = c06.positions(run, *((160, 80, 120) if run.quick else (1200, 600, 800)))
    cs, st = enc_cases(run, pool)
    failing, shard_fail, nshards = cs.run()
    run.oblige(f"correspondence:generated-encode-vs-implementation ({nshards} shards)", not shard_fail, str(shard_fail)[:1500])
    run.count(2 * len(cs), st["nontrivial"],
              "EncodingGen.encode (the translated source, evaluated in Coq) vs encoding.encode with and without the "
              "sentinel on c06's positions: playouts of sizes 3-6, constructed boards (stacks to height 40), "
              "out-of-domain reserves / capstones (IndexError or negative wrap), boards that are not size^2; "
              "non-trivial = a stack of height >= 2, an exception, or out of domain", st["samples"], st["dist"], label="encode")
    # decode: the encodings of the in-domain positions (with and without sentinel) and malformed streams
    _, _, enc = c06._impl()
    good = []
    for p, kind in pool:
        for sflag in (True, False):
            o = c06.obs_encode(enc, p, sflag)
            if o[0] == "ok":
                good.append(o[1])
    streams = [(g, "encoding") for g in good[:400 if run.quick else 3000]]
    streams += [(t, "malformed") for t in c06.malformed_streams(run.rng, enc, good, 500 if run.quick else 4000)]
    streams += [([], "fixed"), ([255], "fixed"), ([9], "fixed"), ([255, 9, 203, 253, 203, 253], "fixed"),
                ([9, 203, 253, 203, 253] + [0] * 81, "fixed"), ([9, 203, 253, 203, 253] + [0] * 100, "fixed")]
    cd, ddist = dec_cases(run, streams)
    dfail, dshard, dn = cd.run()
    run.oblige(f"correspondence:generated-decode-vs-implementation ({dn} shards)", not dshard, str(dshard)[:1500])
    run.count(len(cd), len({tuple(m["tokens"]) for m in cd.metas}),
              "EncodingGen.decode (the translated source, evaluated in Coq) vs encoding.decode(torch.tensor(l)): same "
              "position, or the same exception CLASS (IndexError / AssertionError / KeyError / AttributeError); "
              "encodings of c06's positions and c06's malformed streams (mutated encodings, random headers, bodies of "
              "0..100 squares, a buried-flat token first), 9x9 and 10x10 boards (IndexError from DEFAULT_PIECES)",
              [{"tokens": m["tokens"][:12], "impl": m["impl"] if not isinstance(m["impl"], dict) or "exception" in m["impl"] else "position"}
               for m in cd.metas[-4:-1]], ddist, label="decode")
    for meta in dfail[:4]:
        run.violation("decode:" + hashlib.sha256(repr(meta["tokens"]).encode()).hexdigest()[:12], {
            "clause": "the decode translated from the source, evaluated in Coq, reproduces what the implementation does",
            "input": {"tokens": meta["tokens"]}, "impl": meta["impl"], "generator": meta["kind"],
            "generated_function_view": cd.model_view(cd.terms[cd.metas.index(meta)])})
    for meta in failing[:6]:
        term = cs.terms[cs.metas.index(meta)]
        run.violation("encode:" + c06.pos_key(takio.mk_pos(meta["position"])), {
            "clause": "the encode translated from the source, evaluated in Coq, reproduces what the implementation does",
            "input": meta["position"], "impl_include_sentinel": meta["impl_true"], "impl_no_sentinel": meta["impl_false"],
            "generated_function_view": cs.model_view(term), "generator": meta["kind"]})


def search(run, broken):
    """the proof broke and the generated encode still agrees with the implementation: the SOURCE changed.  Run C06's own
    clauses (round trip through the implementation's decode, injectivity, colour-swap law, byte range) on it."""
    tak, torch, enc = c06._impl()
    inj = {}
    for p, kind in c06.positions(run, 400, 200, 0):
        if not c06.in_domain(p):
            continue
        bad = c06.oracle_position(tak, torch, enc, p, inj)
        if bad:
            b = bad[0]
            extra = {}
            if isinstance(b, tuple):
                b, other = b
                extra = {"other_position": other}
            run.violation("position:" + c06.pos_key(p), dict({"clause": b, "input": takio.j_pos(p), "generator": kind,
                                                              "broken_obligations": [o[0] for o in broken]}, **extra))
            return True
    return False


def replay(run, rp):
    tak, torch, enc = c06._impl()
    inp = rp.get("input")
    if not (isinstance(inp, dict) and "board" in inp):
        return {"violates": False, "note": "replay file carries no position", "stored": inp or rp.get("broken_obligations")}
    p = takio.mk_pos(inp)
    bad = c06.oracle_position(tak, torch, enc, p) if c06.in_domain(p) else []
    out = {"oracle": [b if not isinstance(b, tuple) else b[0] for b in bad]}
    other = rp.get("other_position")
    if other is not None:
        q = takio.mk_pos(other)
        for s in (True, False):
            try:
                if enc.encode(p, s) == enc.encode(q, s) and c06.triple(p) != c06.triple(q):
                    out["oracle"].append("two different (board, side, reserves) triples encode alike")
            except Exception:  # noqa
                pass
    err = pregen(run)
    viol = bool(out["oracle"])
    if not err:
        with core.BuildLock():
            core.coq_make(MODEL_TARGETS)
        cs, _ = enc_cases(run, [(p, "replay")], name="replay")
        failing, shard_fail, _ = cs.run()
        out["generated_encode_agrees_with_impl"] = not (failing or shard_fail)
        if failing:
            out["generated_function_view"] = cs.model_view(cs.terms[0])
        viol = viol or bool(failing or shard_fail)
    else:
        out["translation"] = err
    out["violates"] = viol
    return out
