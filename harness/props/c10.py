"""C10 - the regularised-policy solver returns the distribution it is specified to.

Three ties between coq/model/Solver.v and the two implementations:
  G  regenerated constants + scraped bracket expressions / exit tests (gen/SolverSrc.v, proofs/TieSolver.v)
  D  (a) native tak_ext.solve_policy against the binary32 mirror `native32`, BIT FOR BIT
     (b) solve_policy_python against the rational model `pyQ` (iteration count, alpha within 1e-12),
         on inputs where no decision of the run is within float32 rounding of its threshold (tie guard)
  O  (c) oracle-only sweep of both solvers over the regime of the property's quantifier:
         the property's own statement evaluated with exact rational arithmetic.  A failure of (c) is a
         violation of the property and the input is the replay.
"""
import hashlib
import math
import os
import re
import struct
import sys
import warnings
from fractions import Fraction as Fr

from .. import core
from ..core import cz, clist, czlist

ID = "C10"
THEOREMS = [
    "C10_f_strictly_decreasing", "C10_bracket", "C10_bracket_K1", "C10_bisection_keeps_bracket",
    "C10_width_k", "C10_python_terminates_partial", "C10_python_output_form_partial", "C10_python_output_sum_partial",
    "C10_native_if_returns_partial", "C10_constants_tie", "C10_source_shape_tie",
    # float-level theorems about the binary32 mirror itself (Flocq; Reals axioms, see TRUSTED_BASE)
    "C10_native32_alpha_ge_qmax", "C10_native32_weights_nonneg_or_inf", "C10_native32_fallback_finite",
    "C10_native32_returns_finite_partial",
]
MODEL_TARGETS = ["model/Solver.vo", "model/LambdaF64.vo", "model/Harness.vo"]
TRUSTED_BASE = [
    "the four C10_native32_* theorems go through Flocq 4.1.0 (IEEE754.BinarySingleNaN, B2R) and Coq's Reals: Print "
    "Assumptions lists ClassicalDedekindReals.sig_forall_dec, ClassicalDedekindReals.sig_not_dec, "
    "FunctionalExtensionality.functional_extensionality_dep, Classical_Prop.classic (standard library axioms); the "
    "eleven exact-arithmetic / tie theorems are closed under the global context",
    "Coq stdlib Floats.SpecFloat (SFadd/SFsub/SFmul/SFdiv/SFcompare at (24,128) and (53,1024)) is IEEE-754 round-to-nearest-even: "
    "validated bit for bit against the compiled tak.cpp by correspondence (a)",
    "g++ -O2 on x86-64 evaluates float expressions in binary32 without contraction/excess precision; torch CPU elementwise "
    "mul/sub/div on float32 tensors are correctly rounded (validated by (a))",
    "torch casts a Python float operand of a float32 tensor op to float32 before the op (probed at run time: obligation `probe:`)",
    "sys.settrace is used to read iters/alpha of solve_policy_python at its return (no source hook)",
    "the oracle's exact rational evaluation of f (python fractions) and its float64 interval for alpha",
]
ASSUMPTIONS = [
    "theorems are about exact rational arithmetic (instance QA); float32 exit `sum == last_sum`, overflow and cancellation are "
    "covered only by the bit-exact mirror and the oracle sweep (PARTIAL by design)",
    "oracle tolerances: single-alpha relative slack 2^-21 on alpha-q_i; eps = 1e-3 + (K+8)*2^-23; res = 1e-6 (Python) / 2 ulp32(alpha) (native)",
]

K_MAX = 4572
HEADER = ("From Coq Require Import ZArith QArith List Bool.\n"
          "From TV Require Import model.Solver.\nImport ListNotations.")

warnings.filterwarnings("ignore", message=".*__array_wrap__.*")


# --------------------------------------------------------------------------
# floats <-> bits
# --------------------------------------------------------------------------
def f32(x):
    return struct.unpack("<f", struct.pack("<f", x))[0]


def bits32(x):
    return struct.unpack("<I", struct.pack("<f", x))[0]


def from_bits32(b):
    return struct.unpack("<f", struct.pack("<I", b))[0]


def bits64(x):
    return struct.unpack("<Q", struct.pack("<d", x))[0]


def canon_bits32(x):
    """bit pattern with every NaN mapped to the quiet NaN the model prints"""
    return 0x7FC00000 if x != x else bits32(x)


def ulp32(x):
    x = abs(f32(x))
    if x == 0 or math.isinf(x) or x != x:
        return 2.0 ** -149
    e = math.frexp(x)[1] - 1
    return 2.0 ** max(e - 23, -149)


# --------------------------------------------------------------------------
# G: scrape the two sources (fail closed)
# --------------------------------------------------------------------------
def _norm(s):
    return re.sub(r"\s+", " ", s).strip()


def _strip_cpp_comments(s):
    s = re.sub(r"/\*.*?\*/", " ", s, flags=re.S)
    return re.sub(r"//[^\n]*", " ", s)


def scrape():
    """returns (dict name -> text, list of names that did not match)"""
    out, missing = {}, []

    def put(name, m, grp=1):
        if m:
            out[name] = _norm(m.group(grp))
        else:
            out[name] = "?"
            missing.append(name)

    cpp = _strip_cpp_comments((core.REPO / "python/ext/tak.cpp").read_text())
    m = re.search(r"torch::Tensor\s+solve_policy\s*\((.*?)\)\s*\{(.*?)\n\}", cpp, re.S)
    body = m.group(2) if m else ""
    if not m:
        missing.append("cpp:solve_policy body")
    put("cpp_lo_expr", re.search(r"alpha_min\s*=\s*max\(\s*alpha_min\s*,(.+?)\)\s*;", body, re.S))
    put("cpp_hi_expr", re.search(r"alpha_max\s*=\s*max\(\s*alpha_max\s*,(.+?)\)\s*;", body, re.S))
    put("cpp_lo_init", re.search(r"float\s+alpha_min\s*=(.+?);", body, re.S))
    put("cpp_hi_init", re.search(r"float\s+alpha_max\s*=(.+?);", body, re.S))
    put("cpp_last_init", re.search(r"float\s+last_sum\s*=(.+?);", body, re.S))
    put("cpp_error", re.search(r"float\s+error\s*=(.+?);", body, re.S))
    put("cpp_fallback", re.search(r"if\s*\(\s*!\s*std::isfinite\(sum\)\s*\)\s*\{(.+?)\}", body, re.S))
    out["cpp_ifs"] = [_norm(c) for c in re.findall(r"\bif\s*\(((?:[^()]|\([^()]*\))*)\)\s*\{", body)]

    py = (core.REPO / "python/tak/mcts.py").read_text()
    m = re.search(r"^def solve_policy_python\((.*?)\):\n(.*?)(?=^\S)", py, re.S | re.M)
    pbody = re.sub(r"#[^\n]*", "", m.group(2)) if m else ""
    if not m:
        missing.append("py:solve_policy_python body")
    put("py_lo_expr", re.search(r"^\s*alpha_min\s*=(.+)$", pbody, re.M))
    put("py_hi_expr", re.search(r"^\s*alpha_max\s*=(.+)$", pbody, re.M))
    out["py_ifs"] = [_norm(c) for c in re.findall(r"^\s*if\s+(.+?):\s*$", pbody, re.M)]
    return out, missing


def pregen(run):
    """regenerate coq/gen/SolverSrc.v (the scraped shape of both solvers) - compared in proofs/TieSolver.v"""
    sc, missing = scrape()
    lines = ["(* GENERATED by harness/props/c10.py (pregen) from python/ext/tak.cpp and python/tak/mcts.py of the",
             "   repository under test: whitespace-normalised, comment-stripped source fragments as code points. Do not edit. *)",
             "From Coq Require Import ZArith List.", "Import ListNotations.", "Open Scope Z_scope."]
    for k in sorted(sc):
        v = sc[k]
        if isinstance(v, list):
            lines.append(f"Definition {k} : list (list Z) := {clist([core.cstr(x) for x in v])}.")
        else:
            lines.append(f"Definition {k} : list Z := {core.cstr(v)}.")
    core.write_if_changed(core.COQ / "gen" / "SolverSrc.v", "\n".join(lines) + "\n")
    run.oblige("translate:C10 scrape of solve_policy / solve_policy_python (bracket expressions, exit tests)",
               not missing, "fragments not found: " + ", ".join(missing))


# --------------------------------------------------------------------------
# implementation runners
# --------------------------------------------------------------------------
def _impl():
    core.setup_impl(ext=True, shims=True)
    import numpy as np
    import torch
    import tak_ext
    from tak import mcts
    torch.set_num_threads(1)          # tiny tensors; avoids oversubscription next to the coqc shards
    return np, torch, tak_ext, mcts


def run_native(p, q, lam):
    """-> ('ok', [float]) | ('raise', message)"""
    np, torch, tak_ext, mcts = _impl()
    try:
        out = tak_ext.solve_policy(torch.tensor(p, dtype=torch.float32), torch.tensor(q, dtype=torch.float32), lam)
    except RuntimeError as e:
        return ("raise", str(e)[:80])
    return ("ok", [float(x) for x in out.tolist()])


def run_python(p, q, lam, trace=False):
    """-> ('ok', [float], rec) | ('raise', message, rec); rec = locals of solve_policy_python at its return when trace"""
    np, torch, tak_ext, mcts = _impl()
    rec = {}
    code = mcts.solve_policy_python.__code__

    def tr(frame, event, arg):
        if frame.f_code is code:
            def loc(frame, event, arg):
                if event == "return":
                    for k in ("iters", "alpha", "alpha_min", "alpha_max"):
                        rec[k] = frame.f_locals.get(k)
                return loc
            return loc
        return None

    if trace:
        sys.settrace(tr)
    try:
        try:
            out = mcts.solve_policy_python(torch.tensor(p, dtype=torch.float32), torch.tensor(q, dtype=torch.float32), lam)
        except (AssertionError, RuntimeError, ZeroDivisionError, ValueError) as e:
            return ("raise", type(e).__name__ + ": " + str(e)[:60], rec)
    finally:
        if trace:
            sys.settrace(None)
    return ("ok", [float(x) for x in out.tolist()], rec)


def probe_torch_semantics(run):
    """the float32/float64 split pyQ and the tie guard rely on, re-measured on the installed torch"""
    np, torch, tak_ext, mcts = _impl()
    q = torch.tensor([1.0])
    a = (1 + 2.0 ** -30) - q                       # 0 iff alpha is cast to float32 before the subtraction
    lam = 0.1
    b = (lam * torch.tensor([1 / 3], dtype=torch.float32)).item()
    want = float(np.float32(lam) * np.float32(1 / 3))
    d = torch.tensor(np.float32(1e-3))
    c = bool(np.abs(d) <= 1e-3)                    # True iff the threshold is compared in float32
    ok = (a.item() == 0.0) and (b == want) and c and a.dtype == torch.float32
    run.oblige("probe: torch casts Python-float operands to float32 (alpha - q, lambda * pi, |1-sigma| <= eps)", ok,
               f"alpha-q={a.item()!r} lam*pi={b!r} want={want!r} cmp32={c}")


# --------------------------------------------------------------------------
# input generation: the regime of the property's quantifier
# --------------------------------------------------------------------------
def gen_input(rng, kmax=K_MAX, kdist="log"):
    """priors uniform / peaked to the 1e-6 cutoff / Dirichlet / few-large; q = a few visited values + the rest equal
    (incl. exactly +1/-1); lambda = C*sqrt(N)/(N+K), C in [0.5,8], N in [1,1e5]"""
    import numpy as np
    if kdist == "log":
        K = min(kmax, max(1, int(round(math.exp(rng.uniform(0, math.log(kmax + 0.5)))))))
    else:
        K = rng.randint(1, kmax)
    if rng.random() < 0.06:
        K = rng.choice([1, 2, 3, kmax])
    shape = rng.choice(["uniform", "peaked", "peaked", "dirichlet", "dirichlet", "fewlarge"])
    nrng = np.random.default_rng(rng.getrandbits(48))
    if shape == "uniform":
        p = np.ones(K)
    elif shape == "peaked":
        p = np.full(K, 1e-6 * rng.choice([1.0, 1.0, 1.5, 10.0]))
        p[rng.randrange(K)] = 1.0
    elif shape == "dirichlet":
        p = nrng.dirichlet(np.full(K, rng.choice([0.03, 0.1, 0.3, 1.0, 5.0])))
        p = np.maximum(p, 1.000001e-6)
    else:
        p = np.full(K, 1e-6 * rng.choice([1.0, 3.0, 30.0]))
        for _ in range(rng.randint(1, min(K, 6))):
            p[rng.randrange(K)] = rng.uniform(0.01, 1.0)
    p = (p / p.sum()).astype(np.float32)
    p = (p / p.sum(dtype=np.float32)).astype(np.float32)          # what mcts does: float32 renormalisation
    specials = [-1.0, 1.0, 0.0, 1.0, -1.0]
    base = rng.choice(specials) if rng.random() < 0.5 else rng.uniform(-1, 1)
    q = np.full(K, base, dtype=np.float32)
    N = max(1, int(round(10 ** rng.uniform(0, 5))))
    nvis = rng.randint(0, min(K, N, rng.choice([1, 2, 4, 8, 64])))
    idx = rng.sample(range(K), nvis) if nvis else []
    if shape in ("peaked", "fewlarge") and nvis and rng.random() < 0.5:
        idx[0] = int(np.argmax(p))                                 # the heavy child is the visited one
    for i in idx:
        sims = rng.randint(1, max(1, min(N, 1000)))
        r = rng.random()
        if r < 0.3:
            v = rng.choice([-1.0, 1.0])
        elif r < 0.5:
            v = rng.randint(-sims, sims) / sims                    # game results: rational means
        else:
            v = rng.uniform(-1, 1)
        q[i] = np.float32(v)
    C = rng.choice([0.5, 1.0, 4.0, 8.0]) if rng.random() < 0.3 else rng.uniform(0.5, 8.0)
    lam = C * math.sqrt(N) / (N + K)
    meta = {"K": K, "shape": shape, "N": N, "C": C, "nvis": len(idx), "base": float(base)}
    return [float(x) for x in p], [float(x) for x in q], float(lam), meta


def input_key(p, q, lam):
    h = hashlib.sha256()
    h.update(struct.pack("<d", lam))
    h.update(struct.pack(f"<{len(p)}f", *p))
    h.update(struct.pack(f"<{len(q)}f", *q))
    return h.hexdigest()[:16]


def input_json(p, q, lam, meta=None):
    d = {"lambda_hex": float(lam).hex(), "lambda": lam, "K": len(p),
         "pi_bits": [bits32(x) for x in p], "q_bits": [bits32(x) for x in q]}
    if len(p) <= 12:
        d["pi"] = list(p)
        d["q"] = list(q)
    if meta:
        d["meta"] = meta
    return d


def input_from_json(d):
    return ([from_bits32(b) for b in d["pi_bits"]], [from_bits32(b) for b in d["q_bits"]], float.fromhex(d["lambda_hex"]))


# --------------------------------------------------------------------------
# (c) the oracle: the property's statement, exact arithmetic
# --------------------------------------------------------------------------
class ExactF:
    """f(x) = lam32 * sum_i p_i / (x - q_i) evaluated exactly (terms grouped by distinct q)"""

    def __init__(self, p, q, lam):
        import numpy as np
        self.lam = Fr(f32(lam))
        pa = np.asarray(p, dtype=np.float64)
        qa = np.asarray(q, dtype=np.float64)
        scaled = pa * 2.0 ** 60                       # exact: float32 values, |p| <= 2
        self.groups = []
        if np.all(np.isfinite(scaled)) and np.all(np.abs(scaled) < 2.0 ** 62) and np.all(scaled == np.floor(scaled)):
            si = scaled.astype(np.int64)
            for v in np.unique(qa):
                self.groups.append((Fr(float(v)), Fr(int(si[qa == v].sum()), 2 ** 60)))
        else:                                         # out-of-regime priors (replays of odd inputs): slow path
            acc = {}
            for a, b in zip(p, q):
                acc[b] = acc.get(b, 0) + Fr(a)
            self.groups = [(Fr(k), v) for k, v in sorted(acc.items())]
        self.qmax = max(g[0] for g in self.groups)

    def __call__(self, x):
        return self.lam * sum(P / (x - v) for v, P in self.groups)

    def slope(self, x):
        return float(self.lam * sum(P / ((x - v) * (x - v)) for v, P in self.groups))


def oracle_one(which, status, w, p, q, lam, F):
    """the contract of the property for one solver's output.  returns (verdict|None, info)"""
    import numpy as np
    K = len(p)
    if status != "ok":
        return "raises", {"error": w}
    wa = np.asarray(w, dtype=np.float64)
    if len(w) != K:
        return "wrong-length", {"len": len(w)}
    if not np.all(np.isfinite(wa)):
        bad = [int(i) for i in np.nonzero(~np.isfinite(wa))[0][:5]]
        return "not-finite", {"indices": bad, "values": [str(w[i]) for i in bad]}
    if np.any(wa < 0):
        bad = [int(i) for i in np.nonzero(wa < 0)[0][:5]]
        return "negative", {"indices": bad, "values": [w[i] for i in bad]}
    lam32 = f32(lam)
    pa = np.asarray(p, dtype=np.float64)
    qa = np.asarray(q, dtype=np.float64)
    c = lam32 * pa                                   # float64, relative error 2^-53
    pos = wa > 0
    if not np.all(pos):                              # a zero weight needs alpha = inf
        return "zero-weight", {"indices": [int(i) for i in np.nonzero(~pos)[0][:5]]}
    d = c / wa                                       # alpha - q_i, up to float32 rounding of three operations
    slack = 2.0 ** -21
    lo_i = qa + d * (1 - slack)
    hi_i = qa + d * (1 + slack)
    a_lo, a_hi = float(lo_i.max()), float(hi_i.min())
    qmax = float(qa.max())
    if not (a_lo <= a_hi):
        i, j = int(lo_i.argmax()), int(hi_i.argmin())
        return "no-single-alpha", {"i": i, "alpha_from_i": float(qa[i] + d[i]), "j": j, "alpha_from_j": float(qa[j] + d[j])}
    if not (a_hi > qmax):
        return "alpha-not-above-max-q", {"alpha_hi": a_hi, "max_q": qmax}
    a_lo = max(a_lo, qmax)
    amid = 0.5 * (a_lo + a_hi)
    res = 1e-6 if which == "python" else 2 * ulp32(amid)
    eps = Fr(1, 1000) + Fr(K + 8, 2 ** 23)
    xl = Fr(a_lo) * (1 - Fr(1, 2 ** 50)) - Fr(res) if a_lo > 0 else Fr(a_lo) * (1 + Fr(1, 2 ** 50)) - Fr(res)
    xh = Fr(a_hi) * (1 + Fr(1, 2 ** 50)) + Fr(res) if a_hi > 0 else Fr(a_hi) * (1 - Fr(1, 2 ** 50)) + Fr(res)
    info = {"alpha": amid, "res": res, "sum": float(wa.sum())}
    if xl > F.qmax:
        fl = F(xl)
        if fl < 1 - eps:
            info.update({"f(alpha-res)": float(fl), "eps": float(eps)})
            return "sum-too-small", info
    fh = F(xh)
    if fh > 1 + eps:
        info.update({"f(alpha+res)": float(fh), "eps": float(eps)})
        return "sum-too-large", info
    return None, info


def oracle(p, q, lam, native=None, python=None):
    """run both solvers (unless outputs are given) and evaluate the property's statement.
    returns list of (solver, verdict, info); empty = the contract holds"""
    import numpy as np
    F = ExactF(p, q, lam)
    if native is None:
        native = run_native(p, q, lam)
    if python is None:
        python = run_python(p, q, lam)
    bad = []
    infos = {}
    for which, r in (("native", native), ("python", python)):
        v, info = oracle_one(which, r[0], r[1], p, q, lam, F)
        infos[which] = info
        if v:
            bad.append((which, v, info))
    if not bad:
        an, ap = infos["native"]["alpha"], infos["python"]["alpha"]
        res = max(infos["native"]["res"], infos["python"]["res"])
        slope = F.slope(Fr(min(an, ap)))
        if slope * res < 1e-3:
            diff = float(np.max(np.abs(np.asarray(native[1]) - np.asarray(python[1]))))
            if diff > 1e-2:
                bad.append(("both", "solvers-disagree", {"max_abs_diff": diff, "slope": slope,
                                                         "alpha_native": an, "alpha_python": ap}))
            infos["well_conditioned"] = True
    return bad, infos, native, python


def _report(run, p, q, lam, meta, bad, native, python, where):
    which, verdict, info = bad[0]
    key = f"oracle:{verdict}:{which}:{input_key(p, q, lam)}"
    done = run.extra.setdefault("reported_keys", [])
    if key in done or len(done) >= 12:          # one replay per input, at most a dozen per run
        return
    done.append(key)
    rp = {"clause": {"raises": "the solver terminates (returns without raising)",
                     "not-finite": "the weights are finite", "negative": "the weights are non-negative",
                     "zero-weight": "weights have the form multiplier*prior/(alpha-q) for a finite alpha",
                     "no-single-alpha": "one alpha reproduces all weights",
                     "alpha-not-above-max-q": "alpha lies above every q",
                     "sum-too-small": "the total is one within tolerance + resolution in alpha",
                     "sum-too-large": "the total is one within tolerance + resolution in alpha",
                     "solvers-disagree": "both solvers agree closely where the problem is well conditioned",
                     "wrong-length": "one weight per action"}.get(verdict, verdict),
          "solver": which, "verdict": verdict, "detail": info, "found_by": where,
          "input": input_json(p, q, lam, meta),
          "native_output": _out_json(native), "python_output": _out_json(python),
          "all_failures": [{"solver": a, "verdict": b} for a, b, _ in bad]}
    run.violation(key, rp)


def _out_json(r):
    if r is None:
        return None
    if r[0] != "ok":
        return {"raised": r[1]}
    w = r[1]
    return {"weights_head": [repr(x) for x in w[:12]], "sum": repr(float(sum(w))), "n": len(w),
            "nonfinite": [i for i, x in enumerate(w) if not math.isfinite(x)][:8]}


def sweep(run, n, where, kmax=K_MAX, budget_s=None):
    """(c): oracle over n generated inputs.  returns stats"""
    import time
    t0 = time.time()
    st = {"n": 0, "violations": 0, "well_conditioned": 0, "shapes": {}, "Kbins": {}, "distinct": set(),
          "nontrivial": 0, "samples": []}
    for i in range(n):
        if budget_s and time.time() - t0 > budget_s:
            st["stopped_on_budget"] = True
            break
        p, q, lam, meta = gen_input(run.rng, kmax)
        bad, infos, native, python = oracle(p, q, lam)
        st["n"] += 1
        key = input_key(p, q, lam)
        st["distinct"].add(key)
        st["shapes"][meta["shape"]] = st["shapes"].get(meta["shape"], 0) + 1
        kb = "K=1" if meta["K"] == 1 else f"K<={10 ** math.ceil(math.log10(meta['K']))}"
        st["Kbins"][kb] = st["Kbins"].get(kb, 0) + 1
        if meta["K"] >= 2:
            st["nontrivial"] += 1
        if infos.get("well_conditioned"):
            st["well_conditioned"] += 1
        if len(st["samples"]) < 3 and meta["K"] <= 6:
            st["samples"].append({"input": input_json(p, q, lam, meta), "native": _out_json(native),
                                  "python": _out_json(python)})
        if bad:
            st["violations"] += 1
            if st["violations"] <= 5:
                _report(run, p, q, lam, meta, bad, native, python, where)
    st["distinct"] = len(st["distinct"])
    return st


# --------------------------------------------------------------------------
# (a) native vs the binary32 mirror
# --------------------------------------------------------------------------
def _case_native(p, q, lam, r):
    if r[0] == "ok":
        o = "OWeights " + czlist([canon_bits32(x) for x in r[1]])
    else:
        o = "OOutOfIters"
    return f"({bits32(f32(lam))}, {czlist([bits32(x) for x in p])}, {czlist([bits32(x) for x in q])}, {o})"


NATIVE_CHECK = ("fun c => let '(lam, pi, q, o) := c in match native32_bits lam pi q, o with "
                "| OWeights x, OWeights y => (Z.of_nat (length x) =? Z.of_nat (length y)) && forallb (fun ab => fst ab =? snd ab) (combine x y) "
                "| OOutOfIters, OOutOfIters => true | _, _ => false end")
NATIVE_SHOW = "fun c => let '(lam, pi, q, o) := c in (native32_trace lam pi q, native32_bits lam pi q)"


def corpus_inputs():
    """hand-picked inputs run first: the F3 input of DESIGN.md section 7, K=1, q at the extremes"""
    out = []
    p = [1 - 8e-6] + [1e-6] * 8
    out.append((p, [-1.0, 0.96, 1.0] + [-1.0] * 6, 0.0277, {"name": "F3"}))
    out.append(([1.0], [0.5], 0.3, {"name": "K1"}))
    out.append(([1.0], [1.0], 4.0, {"name": "K1-q1"}))
    out.append(([1 - 1e-6, 1e-6], [-1.0, 1.0], 0.0277, {"name": "tiny-prior-at-q=1"}))
    out.append(([0.5, 0.5], [1.0, 1.0], 8 / 3, {"name": "equal-q"}))
    out.append(([0.25] * 4, [-1.0, -1.0, 1.0, 1.0], 0.5 * math.sqrt(1e5) / (1e5 + 4), {"name": "small-lambda"}))
    return [([f32(x) for x in a], [f32(x) for x in b], float(l), m) for a, b, l, m in out]


def corr_native(run):
    n = 400 if run.quick else 5000
    kcap = 135 if run.quick else 1200
    cs = core.Cases(ID, "native", HEADER, "Z * list Z * list Z * outcome", NATIVE_CHECK, show=NATIVE_SHOW,
                    shard=max(1, n // (core.NPROC * (1 if run.quick else 8))))
    inputs = corpus_inputs()
    while len(inputs) < n:
        # thorough: 10% of the cases take K up to 1200 and 1% up to 4572 (about 0.6 ms per element and ~100 MB
        # of coqc memory per K=4572 case: the literals)
        kmax = 135
        if not run.quick:
            r = run.rng.random()
            kmax = K_MAX if r < 0.01 else (kcap if r < 0.11 else 135)
        inputs.append(gen_input(run.rng, kmax))
    seen, dist, samples = set(), {"inf_or_raise": 0, "Kmax": 0}, []
    for p, q, lam, meta in inputs:
        r = run_native(p, q, lam)
        cs.add(_case_native(p, q, lam, r), {"input": input_json(p, q, lam, meta), "native": _out_json(r)})
        seen.add(input_key(p, q, lam))
        dist["Kmax"] = max(dist["Kmax"], len(p))
        dist[meta.get("shape", "corpus")] = dist.get(meta.get("shape", "corpus"), 0) + 1
        if r[0] != "ok" or any(not math.isfinite(x) for x in r[1]):
            dist["inf_or_raise"] += 1
        if len(samples) < 2 and len(p) <= 4:
            samples.append({"input": input_json(p, q, lam, meta), "native": _out_json(r)})
    failing, shard_fail, nshards = cs.run(timeout=1500)
    run.oblige(f"correspondence:native bit-exact ({nshards} shards)", not shard_fail, str(shard_fail)[:1500])
    run.count(len(cs), sum(1 for i in inputs if len(i[0]) >= 2),
              "tak_ext.solve_policy vs the binary32 mirror native32: every output weight's bit pattern (or the "
              "runtime_error outcome) equal; distinct by input hash; non-trivial = K >= 2",
              samples, dist, label="native-bit-exact")
    for meta in failing[:5]:
        p, q, lam = input_from_json(meta["input"])
        view = cs.model_view(cs.terms[cs.metas.index(meta)])
        bad, infos, native, python = oracle(p, q, lam)
        if bad:
            _report(run, p, q, lam, meta["input"].get("meta"), bad, native, python, "correspondence (a) disagreement fed to the oracle")
        else:
            run.violation("corr-native:" + input_key(p, q, lam),
                          {"clause": "native solver = binary32 mirror, bit for bit (the mirror is what the theorems' algorithm "
                                     "is tied to); the oracle accepts this output, so no violation of the property's "
                                     "statement is exhibited by this input",
                           "input": meta["input"], "native_output": meta["native"], "model_view": view,
                           "oracle": "contract holds on this input"}, found_input=False)
    return len(failing)


# --------------------------------------------------------------------------
# (b) Python solver vs pyQ, with the tie guard
# --------------------------------------------------------------------------
def tie_guard(p, q, lam):
    """replays the bisection in exact arithmetic from the float32 bracket ends and returns the smallest margin
    (in units of the admissible float32 error) by which a decision of the run clears its threshold; a run is
    compared only if every decision is robust (margin > 1)"""
    import numpy as np
    lam32 = np.float32(lam)
    pa = np.asarray(p, dtype=np.float32)
    qa = np.asarray(q, dtype=np.float32)
    lo = Fr(float((qa + lam32 * pa).max()))
    hi = Fr(float((qa + lam32).max()))
    F = ExactF(p, q, lam)
    K = len(p)
    rel = Fr(K + 8, 2 ** 23)
    eps, tol = Fr(1, 1000), Fr(1, 10 ** 6)
    alpha = (lo + hi) / 2
    for it in range(1, 33):
        a32 = Fr(f32(float(alpha)))
        if not (alpha > F.qmax and a32 > F.qmax):
            return False, "alpha rounds onto max q"
        s1, s2 = F(alpha), F(a32)
        smin, smax = min(s1, s2) * (1 - rel), max(s1, s2) * (1 + rel)
        g = Fr(1, 10 ** 9)
        for t in (1 - eps, Fr(1), 1 + eps):
            if smin - g <= t <= smax + g:
                return False, f"sigma within float32 rounding of {float(t)} at iteration {it}"
        w = hi - lo
        if abs(w - tol) <= Fr(1, 10 ** 12):
            return False, "bracket width within 1e-12 of 1e-6"
        if abs(1 - s1) <= eps or w <= tol:
            return True, it
        if s1 > 1:
            lo = alpha
        else:
            hi = alpha
        alpha = (lo + hi) / 2
    return True, 33


def corr_python(run):
    n = 400 if run.quick else 3000
    cs = core.Cases(ID, "python", HEADER, "Z * list Z * list Z * Z * Z",
                    "fun c => let '(lam, pi, q, it, a) := c in pyQ_agrees lam pi q it a",
                    show="fun c => let '(lam, pi, q, it, a) := c in pyQ_trace lam pi q",
                    shard=max(1, n // (core.NPROC * (1 if run.quick else 4))))
    skipped, reasons, raised = 0, {}, 0
    dist, samples, seen = {"bracket_exit": 0, "iters": {}}, [], set()
    inputs = [i for i in corpus_inputs()]
    tries = 0
    while len(cs) < n and tries < 4 * n:
        tries += 1
        p, q, lam, meta = inputs.pop(0) if inputs else gen_input(run.rng, 24, kdist="uniform")
        ok, why = tie_guard(p, q, lam)
        if not ok:
            skipped += 1
            k = re.sub(r"[0-9.]+$", "", str(why)).strip()
            reasons[k] = reasons.get(k, 0) + 1
            continue
        r = run_python(p, q, lam, trace=True)
        rec = r[2]
        if r[0] != "ok" or rec.get("iters") is None:
            raised += 1
            bad, infos, native, python = oracle(p, q, lam, python=r[:2]) if raised <= 5 else (None, None, None, None)
            if bad:
                _report(run, p, q, lam, meta, bad, native, python, "correspondence (b): solve_policy_python raised")
            continue
        it, alpha = int(rec["iters"]), float(rec["alpha"])
        cs.add(f"({bits32(f32(lam))}, {czlist([bits32(x) for x in p])}, {czlist([bits32(x) for x in q])}, {it}, {bits64(alpha)})",
               {"input": input_json(p, q, lam, meta), "python": {"iters": it, "alpha": alpha.hex(),
                                                                 "alpha_min": rec.get("alpha_min"), "alpha_max": rec.get("alpha_max")}})
        seen.add(input_key(p, q, lam))
        dist["iters"][str(it)] = dist["iters"].get(str(it), 0) + 1
        if rec["alpha_max"] - rec["alpha_min"] <= 1e-6:
            dist["bracket_exit"] += 1
        if len(samples) < 2 and len(p) <= 4:
            samples.append({"input": input_json(p, q, lam, meta), "python": {"iters": it, "alpha": alpha}})
    failing, shard_fail, nshards = cs.run(timeout=1500)
    run.oblige(f"correspondence:python vs pyQ ({nshards} shards)", not shard_fail, str(shard_fail)[:1500])
    dist["tie_guard_skipped"] = skipped
    dist["tie_guard_reasons"] = reasons
    dist["raised"] = raised
    run.extra["tie_guard_skipped"] = skipped
    run.count(len(cs), len(seen),
              "solve_policy_python (iters and alpha read at its return) vs the rational model pyQ started from the same "
              "float32 bracket ends: equal iteration count, |alpha - alpha_model| <= 1e-12; inputs where some decision is "
              f"within float32 rounding of its threshold are skipped (skipped: {skipped}); K <= 24",
              samples, dist, label="python-vs-Q")
    for meta in failing[:5]:
        p, q, lam = input_from_json(meta["input"])
        view = cs.model_view(cs.terms[cs.metas.index(meta)])
        bad, infos, native, python = oracle(p, q, lam)
        if bad:
            _report(run, p, q, lam, meta["input"].get("meta"), bad, native, python, "correspondence (b) disagreement fed to the oracle")
        else:
            run.violation("corr-python:" + input_key(p, q, lam),
                          {"clause": "solve_policy_python follows the bisection of the model (iteration count, alpha); the oracle "
                                     "accepts this output, so no violation of the property's statement is exhibited by this input",
                           "input": meta["input"], "python_trace": meta["python"], "model_view": view,
                           "oracle": "contract holds on this input"}, found_input=False)
    return len(failing)


# --------------------------------------------------------------------------
# entry points
# --------------------------------------------------------------------------
def correspondence(run):
    import time
    t = [time.time()]
    phase = {}

    def lap(name):
        t.append(time.time())
        phase[name] = round(t[-1] - t[-2], 1)

    _impl()
    probe_torch_semantics(run)
    # corpus through the oracle first
    for p, q, lam, meta in corpus_inputs():
        bad, infos, native, python = oracle(p, q, lam)
        if bad:
            _report(run, p, q, lam, meta, bad, native, python, "corpus")
    lap("impl+corpus")
    corr_native(run)
    lap("native-bit-exact")
    corr_python(run)
    lap("python-vs-Q")
    n = 5000 if run.quick else 200000
    st = sweep(run, n, "oracle sweep (c)", budget_s=40 if run.quick else 500)
    lap("oracle-sweep")
    run.extra["phase_s"] = phase
    run.extra["oracle_sweep"] = {k: v for k, v in st.items() if k != "samples"}
    run.oblige("oracle sweep (c): both solvers meet the contract on every generated input of the regime",
               st["violations"] == 0, f"{st['violations']} of {st['n']} inputs violate the contract")
    run.count(st["n"], st["nontrivial"],
              "both solvers on generated inputs of the property's regime (K 1..4572 log-uniform, priors uniform/peaked/"
              "Dirichlet/few-large, q = visited values + rest equal incl. +-1, lambda = C sqrt(N)/(N+K)): returns, finite, "
              ">= 0, one alpha reproduces all weights, f(alpha-res) >= 1-eps, f(alpha+res) <= 1+eps in exact rationals, "
              f"solvers within 1e-2 where |f'| res < 1e-3 (well-conditioned: {st['well_conditioned']}); non-trivial = K >= 2",
              st["samples"], {"shapes": st["shapes"], "K": st["Kbins"]}, label="oracle-sweep")


def search(run, broken):
    """a proof / tie / shard broke without a concrete disagreement: the property's own statement over the regime"""
    _impl()
    for p, q, lam, meta in corpus_inputs():
        bad, infos, native, python = oracle(p, q, lam)
        if bad:
            _report(run, p, q, lam, meta, bad, native, python, "search: corpus")
            return True
    st = sweep(run, 3000 if run.quick else 30000, "search after a broken obligation", budget_s=60 if run.quick else 400)
    run.extra["search_sweep"] = {k: v for k, v in st.items() if k != "samples"}
    return st["violations"] > 0


def replay(run, rp):
    _impl()
    if "input" not in rp or "pi_bits" not in rp.get("input", {}):
        # a replay that only names a broken obligation: re-run the corpus through the oracle
        bads = []
        for p, q, lam, meta in corpus_inputs():
            bad, infos, native, python = oracle(p, q, lam)
            bads += [{"input": meta, "solver": a, "verdict": b} for a, b, _ in bad]
        return {"violates": bool(bads), "failures": bads,
                "note": "this replay names a broken obligation, not an input; the corpus was re-run through the oracle",
                "broken_obligations": [o.get("name") for o in rp.get("broken_obligations", [])]}
    p, q, lam = input_from_json(rp["input"])
    bad, infos, native, python = oracle(p, q, lam)
    return {"violates": bool(bad), "failures": [{"solver": a, "verdict": b, "detail": c} for a, b, c in bad],
            "native_output": _out_json(native), "python_output": _out_json(python),
            "oracle_info": {k: v for k, v in infos.items() if isinstance(v, dict)}}
