"""T14 - ptn.format_move is REGENERATED FROM THE SOURCE and proved equal to the hand-written model (model/Ptn.v) on the
domain the model covers: props/T14.v, proofs/PtnGenEq.v.

Correspondence: (a) the PySem additions (chr incl. its ValueError, str() of a list that mixes strings and ints,
dict.get with a default, dict(generator) with last-entry-wins) against CPython inside Coq; (b) the GENERATED format_move
evaluated in Coq against ptn.format_move on the whole move universe of sizes 3-8 (sampled in the quick tier) and on
c14's wild moves (coordinates -40..40, arbitrary drops, slides without a tuple): the same text or the same exception
class."""
import hashlib

from .. import core, takio
from ..core import cbool, clist, copt, cstr, cz, czlist
from . import c01gen, c14gen


class _Lazy:
    """c14.py may import this module (to run its correspondence too): import c14 on first use"""

    def __getattr__(self, name):
        import importlib
        return getattr(importlib.import_module("harness.props.c14"), name)


c14 = _Lazy()

ID = "T14"
THEOREMS = ["T14_gen_format_move_eq", "T14_wf_move8_domain", "T14_gen_format_move_crashes", "T14_gen_parse_format_move"]
MODEL_TARGETS = ["model/Tak.vo", "model/Road.vo", "model/PySem.vo", "model/Harness.vo", "model/Lit.vo", "model/Ptn.vo",
                 "gen/GameGen.vo", "gen/PtnGen.vo"]
TRUSTED_BASE = [
    "model/PySem.v: chr (ValueError outside range(0x110000)), ord of a literal character, d.get(k, default), "
    "dict(generator) with last-entry-wins lookup, a list of strings and ints with str() per element, str() of an int with "
    "the 4300-digit limit, join - validated against CPython inside Coq (here and in T13)",
    "parse_move / PTN.parse are regular-expression based and not translated: the parser of the transported round trip is "
    "the hand model's, tied by C14's correspondence",
]
ASSUMPTIONS = [
    "gen_format_move_eq holds on fm_domain: coordinates whose characters are code points, a slide carries a tuple whose "
    "sum has at most 4300 digits and (with more than one drop) whose digits are code points; every move of the universe "
    "of sizes 3..8 is in it (T14_wf_move8_domain)",
]
_STATE = {}


def pregen(run):
    e1 = c01gen.pregen(run)
    e2 = c14gen.pregen(run)
    _STATE["err"] = e1 or e2
    return _STATE["err"]


SEM_HEADER = """From Coq Require Import ZArith String List Bool.
From TV Require Import model.Tak model.PySem model.Lit.
Import ListNotations.
Open Scope Z_scope.
Definition zl_eqb := list_eqb Z.eqb.
Inductive scase :=
| SChr (i : Z) (o : option Z)                                 (* ord(chr(i)), None = ValueError *)
| SBits (bits : list pyval) (o : option (list Z))             (* "".join(map(str, bits)), ints below the str() limit *)
| SGet (d : list (Z * Z)) (k dflt r : Z)                      (* {..}.get(k, dflt), a dict literal without repeated keys *)
| SDictGen (prs : list (Z * Z)) (k : Z) (o : option Z).       (* dict((a, b) for ..)[k]: the last entry wins, None = KeyError *)
Definition schk (c : scase) : bool :=
  match c with
  | SChr i o => match py_chr i, o with Ok c, Some c' => c =? c' | Crash ValueError, None => true | _, _ => false end
  | SBits bits o => match (l <- py_mapM py_str_val bits ;; ret (py_join [] l)), o with
                    | Ok s, Some s' => zl_eqb s s' | _, _ => false end
  | SGet d k dflt r => py_dict_get_default Z.eqb d k dflt =? r
  | SDictGen prs k o => match py_dict_get_last Z.eqb prs k, o with
                        | Ok v, Some v' => v =? v' | Crash KeyError, None => true | _, _ => false end
  end.
"""
GEN_HEADER = """From Coq Require Import ZArith String List Bool.
From TV Require Import model.Tak model.PySem model.Lit.
From TV Require gen.GameGen gen.PtnGen.
Import ListNotations.
Open Scope Z_scope.
Inductive fobs := FOk (s : list Z) | FRaise (e : exn) | FOther.
Definition fsame (r : res (list Z)) (o : fobs) : bool :=
  match r, o with
  | Ok s, FOk s' => list_eqb Z.eqb s s'
  | Crash e, FRaise e' => exn_eqb e e'
  | _, _ => false
  end.
Definition fchk (l : list (mv * fobs)) : bool := forallb (fun c => fsame (PtnGen.format_move (fst c)) (snd c)) l.
Definition fview (l : list (mv * fobs)) :=
  map (fun c => (fst c, PtnGen.format_move (fst c))) (filter (fun c => negb (fsame (PtnGen.format_move (fst c)) (snd c))) l).
"""
EXN = {"ValueError", "TypeError", "KeyError", "IndexError", "AttributeError"}


def sem_cases(run, n):
    rng = run.rng
    cs = core.Cases(ID, "pysem", SEM_HEADER, "scase", "schk", shard=400)
    dist = {}
    for _ in range(n):
        k = rng.choice(["chr", "chr", "bits", "bits", "get", "dictgen"])
        dist[k] = dist.get(k, 0) + 1
        if k == "chr":
            i = rng.choice([rng.randint(-5, 130), rng.randint(0x10FFF0, 0x110010), rng.randint(-10 ** 6, 2 * 10 ** 6), 0, 0x10FFFF, 0x110000, -1])
            try:
                o = f"(Some {ord(chr(i))})"
            except ValueError:
                o = "None"
            cs.add(f"SChr {cz(i)} {o}", {"expr": f"chr({i})"})
        elif k == "bits":
            bits = []
            for _ in range(rng.randint(0, 6)):
                if rng.random() < 0.4:
                    bits.append(rng.choice([rng.randint(-30, 80), rng.randint(-10 ** 9, 10 ** 12), 0, 1, 10]))
                else:
                    bits.append("".join(rng.choice("aCS1h<>+-8") for _ in range(rng.randint(0, 3))))
            term = clist([f"(VInt {cz(b)})" if isinstance(b, int) else f"(VStr {cstr(b)})" for b in bits])
            cs.add(f"SBits {term} (Some {cstr(''.join(map(str, bits)))})", {"expr": f"''.join(map(str, {bits!r}))"})
        elif k == "get":
            keys = rng.sample(range(8), rng.randint(0, 5))
            d = {kk: rng.randint(0, 99) for kk in keys}
            q, dflt = rng.randint(0, 8), rng.randint(100, 200)
            cs.add(f"SGet {clist([f'({a}, {b})' for a, b in d.items()])} {q} {dflt} {d.get(q, dflt)}", {"expr": f"{d}.get({q}, {dflt})"})
        else:
            prs = [(rng.randint(0, 5), rng.randint(0, 99)) for _ in range(rng.randint(0, 7))]
            d = dict((a, b) for (a, b) in prs)
            q = rng.randint(0, 6)
            o = f"(Some {d[q]})" if q in d else "None"
            cs.add(f"SDictGen {clist([f'({a}, {b})' for a, b in prs])} {q} {o}", {"expr": f"dict({prs})[{q}]"})
    return cs, dist


def _fobs(ptn, m):
    try:
        s = ptn.format_move(m)
    except Exception as e:  # noqa
        n = type(e).__name__
        return (f"(FRaise {n})" if n in EXN else "FOther"), {"raises": n}
    if not isinstance(s, str):
        return "FOther", {"not_a_str": repr(s)[:80]}
    return f"(FOk {cstr(s)})", {"text": s}


def move_cases(run, moves, name="format", pack=300):
    from tak.ptn import ptn
    cs = core.Cases(ID, name, GEN_HEADER, "list (mv * fobs)", "fchk", show="fview", shard=6)
    dist = {"text": 0}
    for k in range(0, len(moves), pack):
        items, metas = [], []
        for origin, m in moves[k:k + pack]:
            t, j = _fobs(ptn, m)
            items.append(f"({takio.c_move(m)}, {t})")
            metas.append({"move": takio.j_move(m), "origin": origin, **j})
            key = "text" if "text" in j else j.get("raises", "other")
            dist[key] = dist.get(key, 0) + 1
        cs.add(clist(items), {"items": metas})
    return cs, dist


def _moves(run):
    import tak
    rng = run.rng
    universe = [("universe", m) for _, m in c14._all_moves()]
    if run.quick:
        rng.shuffle(universe)
        universe = universe[:3000]
    wild = [("wild", m) for _, m in c14._wild_moves(rng, 1500 if run.quick else 15000)]
    slides_t = [t for t in tak.MoveType if t.is_slide()]
    none = [("slide-without-tuple", tak.Move(rng.randint(0, 7), rng.randint(0, 7), rng.choice(slides_t), None)) for _ in range(20)]
    far = [("far", tak.Move(rng.choice([-98, -97, 0x110000 - 97, 0x110000 - 98, 10 ** 7, -10 ** 7]), rng.randint(0, 7))) for _ in range(12)]
    return universe + wild + none + far


def correspondence(run):
    core.setup_impl()
    err = _STATE.get("err", "unset")
    if err == "unset":
        err = pregen(run)
    cs, dist = sem_cases(run, 1200 if run.quick else 8000)
    failing, shard_fail, nshards = cs.run()
    run.oblige(f"correspondence:pysem-additions ({nshards} shards)", not shard_fail, str(shard_fail)[:1500])
    run.count(len(cs), len(set(cs.terms)), "PySem.v additions vs CPython: chr around both ends of range(0x110000), "
              "''.join(map(str, bits)) over lists mixing short strings and ints, dict.get with a default, "
              "dict(generator of pairs) lookups (last entry wins, KeyError)", [m for m in cs.metas[:3]], dist, label="pysem")
    for meta in failing[:6]:
        run.violation("pysem:" + hashlib.sha256(repr(meta).encode()).hexdigest()[:12],
                      {"clause": "model/PySem.v disagrees with CPython", "input": meta})
    if err:
        run.extra["differential_skipped"] = "the translation failed; gen/PtnGen.v is a stub"
        return
    moves = _moves(run)
    cm, mdist = move_cases(run, moves)
    failing, shard_fail, nshards = cm.run()
    run.oblige(f"correspondence:generated-format_move ({nshards} shards)", not shard_fail, str(shard_fail)[:1500])
    run.count(len(moves), len({repr(takio.j_move(m)) for _, m in moves}),
              "PtnGen.format_move m (the translated source, evaluated in Coq) = ptn.format_move(m): the same text or the same "
              "exception class; the move universe of sizes 3-8 (quick: 3000 sampled of 21 690; thorough: all), c14's wild "
              "moves (x, y in -40..40, drops -40..40, up to 10 drops, placements carrying a tuple), slides without a tuple "
              "(TypeError), coordinates whose character is outside range(0x110000) (ValueError)",
              [{"move": takio.j_move(m), "origin": o} for o, m in moves[:1] + moves[-2:]], mdist, label="format")
    if failing:        # pinpoint: the moves of the failing packs one by one
        suspects = [(it["origin"], takio.mk_move(it["move"])) for meta in failing for it in meta["items"]][:90]
        c1, _ = move_cases(run, suspects, name="pinpoint", pack=1)
        f1, _, _ = c1.run()
        for meta in f1[:4]:
            it = meta["items"][0]
            run.violation("format:" + hashlib.sha256(repr(it["move"]).encode()).hexdigest()[:12], {
                "clause": "the format_move translated from the source, evaluated in Coq, reproduces the implementation",
                "input": {"move": it["move"]}, "impl": {k: v for k, v in it.items() if k not in ("move", "origin")},
                "generator": it["origin"], "generated_view": c1.model_view(c1.terms[c1.metas.index(meta)])})


def search(run, broken):
    """the proof broke and the generated function still agrees with the implementation: the SOURCE changed.  The
    reference writer of c14 (from the PTN notation, independent of ptn.py) on the move universe and on wild moves whose
    text is defined."""
    core.setup_impl()
    from tak.ptn import ptn
    for n, m in c14._all_moves():
        want = c14.ref_format(m.x, m.y, m.type.value, m.slides)
        try:
            got = ptn.format_move(m)
        except Exception as e:  # noqa
            got = "<" + type(e).__name__ + ">"
        if got != want:
            run.violation("oracle:" + hashlib.sha256(repr(takio.j_move(m)).encode()).hexdigest()[:12], {
                "clause": "format_move writes the PTN text of the move (reference writer)", "input": {"move": takio.j_move(m)},
                "impl": got, "reference": want, "size": n, "broken_obligations": [o[0] for o in broken]})
            return True
    return False


def replay(run, rp):
    core.setup_impl()
    from tak.ptn import ptn
    inp = rp.get("input") or {}
    if "move" not in inp:
        return {"violates": False, "note": "replay file carries no move", "stored": rp.get("broken_obligations")}
    m = takio.mk_move(inp["move"])
    out = {}
    viol = False
    try:
        got = ptn.format_move(m)
    except Exception as e:  # noqa
        got = "<" + type(e).__name__ + ">"
    out["impl"] = got
    if 0 <= m.x < 8 and 0 <= m.y < 8 and (not m.type.is_slide() or (m.slides and all(1 <= d <= 8 for d in m.slides))):
        out["reference"] = c14.ref_format(m.x, m.y, m.type.value, m.slides)
        viol = got != out["reference"]
    err = pregen(run)
    if not err:
        with core.BuildLock():
            core.coq_make(MODEL_TARGETS)
        cs, _ = move_cases(run, [("replay", m)], name="replay")
        failing, shard_fail, _ = cs.run()
        out["generated_agrees_with_impl"] = not (failing or shard_fail)
        viol = viol or bool(failing or shard_fail)
    else:
        out["translation"] = err
    out["violates"] = viol
    return out
