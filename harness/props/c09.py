"""C09 - search output is the regularised policy of the tree statistics; moves are legal (PARTIAL: see props/C09.v).

Re-uses the recorded searches of C08 (harness/props/c08.py) with two more recorders installed from the harness
side: tak_ext.solve_policy is wrapped to log the exact (pi, q, lambda) of every call and the tensor it returned,
Node.policy_probs is wrapped to log the statistics of the node at call time and what was reported.
  * Coq: the model replays the same streams and, before every simulation, computes policy_inputs at every
    expanded node of the descent; q must be within one float32 ulp (2^-23 relative) of the exact rational,
    the multiplier BIT FOR BIT: the binary64 pattern of the lambda_n passed to the solver and the binary32 pattern the
    native solver receives must be model/LambdaF64.v's mirror of c*sqrt(N)/(N+K) (lambda_agrees; the old test
    lambda^2 (N+K)^2 ~ C^2 N within 1e-12 is kept as a sanity check only); the move select_root_move returned must
    be the model's child move and accepted by the model's rules.
  * the REAL MCTS.get_move on openings, middle games and flats-exhausted-but-capstone-left positions, with an ordinary
    budget and with a budget that allows no simulation (the clock of tak.mcts replaced): a call that raises returns no
    move; a returned move must be legal (Position.move on a private copy, and the model's Tak.move).
  * Python oracle (exact fractions): the reported tensor is finite, non-negative, of the form
    lambda*pi_i/(alpha - q_i) for ONE alpha > max q, for the q / lambda / prior the property prescribes; before
    any visit it is the prior; the solver's preconditions (q in [-1,1], prior a positive distribution) hold.
How close the sum is to 1 is the solver's business (C10); only a gross deviation (> 5e-2) is reported here."""
import math
import os
import time
from collections import Counter
from fractions import Fraction

from .. import core, takio
from ..core import cz, clist, copt
from . import c08

ID = "C09"
THEOREMS = [
    "C09_q_in_range_partial", "C09_prior_is_distribution_partial", "C09_expanded_is_visited_partial",
    "C09_lambda_sq_pos_partial", "C09_policy_before_visit", "C09_policy_after_visit_partial",
    "C09_select_root_move_legal", "C09_select_root_move_accepted",
    "C09_policy_meets_solver_contract_partial", "C09_multiplier_in_range_partial",
            "C09_source_gen_policy_probs_unvisited", "C09_source_gen_policy_probs_eq", "C09_source_multiplier_is_lambda64", "C09_source_gen_policy_probs_terminal", "C09_source_gen_policy_call_preconditions",
            "C09_source_select_root_move_legal", "C09_source_get_move_legal"]
MODEL_TARGETS = c08.MODEL_TARGETS + ["model/Solver.vo", "model/LambdaF64.vo"]
TRUSTED_BASE = c08.TRUSTED_BASE + [
    "wrappers around tak_ext.solve_policy and Node.policy_probs installed for the duration of a search",
    "the solver's own accuracy, termination and float behaviour: C10 (not proved here)",
]
ASSUMPTIONS = c08.ASSUMPTIONS + [
    "evaluations are in [-1,1] (all generated evaluators; the transformer's tanh head)",
    "PARTIAL: 'to the accuracy the solver guarantees' rests on C10",
]

HEADER = c08.HEADER + "\nFrom TV Require Import model.Solver model.LambdaF64."
CTYPE = "(Z * Z) * (Z * Z) * ((Z * Z) * Z) * position * list phase * list eval * option (ocall * Z * mv)"
CHECK = ("fun c => let '(co, mx, (cc, cb), p0, phs, evs, fin) := c in "
         "check_calls lambda_agrees (fq co) (fq mx) (fq cc) cb p0 phs evs fin")
CHECK_LOOSE = ("fun c => let '(co, mx, (cc, cb), p0, phs, evs, fin) := c in "
               "check_calls (fun _ _ _ _ _ => true) (fq co) (fq mx) (fq cc) cb p0 phs evs fin")
SHOW = ("fun c => let '(co, mx, (cc, cb), p0, phs, evs, fin) := c in "
        "show_calls lambda_agrees (fq co) (fq mx) (fq cc) cb p0 phs evs")

ALPHA_TOL = 2e-5      # spread allowed between the alphas recovered from the individual weights, per unit of (alpha - q_i)
SUM_GROSS = 5e-2


def f32(x):
    return c08.f32(x)


def expected_inputs(stats, prior, C):
    """the inputs the property prescribes, from the statistics frozen at call time"""
    N, K = stats["N"], len(stats["kids"])
    q = []
    for sims, value in stats["kids"]:
        if sims > 0:
            q.append(f32(-value / sims))          # float64 quotient, then float32: what torch.tensor([...]) does
        else:
            q.append(f32(stats["v_zero"]))
    lam = C * math.sqrt(N) / (N + K)
    return q, lam, [float(x) for x in prior.tolist()]


def policy_oracle(entry):
    """problems of one policy_probs call (empty list = the reported distribution is what C09 says)"""
    import torch
    stats, out, prior, C = entry["stats"], entry["out"], entry["prior"], entry["c"]
    probs = []
    if stats is None:
        return probs
    N, K = stats["N"], len(stats["kids"])
    if N == 0:
        if out is not prior:
            probs.append({"clause": "before any visit the reported policy is the prior"})
        return probs
    if out is None or not isinstance(out, torch.Tensor) or out.shape != (K,):
        return [{"clause": "the reported policy has one weight per child", "got": repr(out)[:100]}]
    w = [float(x) for x in out.tolist()]
    if not all(math.isfinite(x) for x in w):
        return [{"clause": "the reported policy is finite", "weights": w[:20]}]
    if any(x < 0 for x in w):
        return [{"clause": "the reported policy is non-negative", "weights": w[:20]}]
    q, lam, pi = expected_inputs(stats, prior, C)
    # the solver's preconditions (theorems C09_q_in_range, C09_prior_is_distribution)
    if any(not (-1 <= x <= 1) for x in q):
        probs.append({"clause": "q is in [-1,1]", "q": q[:20]})
    if any(x <= 0 for x in pi) or abs(sum(Fraction(x) for x in pi) - 1) > Fraction(1, 10000):
        probs.append({"clause": "the prior handed to the solver is a positive distribution", "prior": pi[:20]})
    lam32 = Fraction(f32(lam))
    qf = [Fraction(x) for x in q]
    alphas = []
    for i in range(K):
        if w[i] > 0:
            alphas.append((qf[i] + lam32 * Fraction(pi[i]) / Fraction(w[i]), i))
    if not alphas:
        return probs + [{"clause": "the reported policy is lambda*pi/(alpha-q) for one alpha", "weights": w[:20]}]
    srt = sorted(a for a, _ in alphas)
    ref = srt[len(srt) // 2]
    worst = max((abs(a - ref) / (1 + abs(ref - qf[i])), i) for a, i in alphas)
    entry["alpha_spread"] = float(worst[0])
    # C10's "single alpha" oracle: the intervals q_i + (lambda32*pi_i/w_i)(1 +- 2^-21) have a common point above max q
    r21 = Fraction(1, 2 ** 21)
    d = [(lam32 * Fraction(pi[i]) / Fraction(w[i]), i) for i in range(K) if w[i] > 0]
    a_lo = max(qf[i] + di * (1 - r21) for di, i in d)
    a_hi = min(qf[i] + di * (1 + r21) for di, i in d)
    single_alpha = a_lo <= a_hi and a_hi > max(qf)
    if (not single_alpha and (worst[0] > ALPHA_TOL or ref <= max(qf))) or len(alphas) < K:
        probs.append({"clause": "the reported policy is lambda*pi_i/(alpha - q_i) for one alpha > max q, with q = minus the "
                                "mean value of a visited child / the node's own evaluation for an unvisited one, "
                                "lambda = C*sqrt(N)/(N+K)",
                      "N": N, "K": K, "C": C, "expected_q": q[:30], "expected_lambda": lam, "prior": pi[:30],
                      "reported": w[:30], "alpha_recovered_from_each_weight": [float(a) for a, _ in alphas][:30]})
    s = sum(Fraction(x) for x in w)
    entry["sum_dev"] = float(abs(s - 1))
    if abs(s - 1) > SUM_GROSS:
        # how close the sum is to 1 is the solver's business: exactly C10's statement, not more.  With res = 2 ulp32(alpha):
        # f(a_hi + res) <= 1 + eps, and f(a_lo - res) >= 1 - eps unless a_lo - res <= max q (the root lies within the
        # float resolution above the best q: "the unavoidable effect of its resolution"), eps = 1e-3 + (K+8) 2^-23
        import numpy as np
        amid = float((a_lo + a_hi) / 2) if single_alpha else float(ref)
        res = 2 * Fraction(float(np.spacing(np.float32(abs(amid) if amid else 1e-30))))
        eps = Fraction(1, 1000) + Fraction(K + 8, 2 ** 23)
        lo_a, hi_a = (a_lo, a_hi) if single_alpha else (srt[0], srt[-1])

        def f(a):
            return sum(lam32 * Fraction(pi[i]) / (a - qf[i]) for i in range(K))
        collapsed = lo_a - res <= max(qf)
        entry["collapsed"] = bool(collapsed)
        ok_hi = f(hi_a + res) <= 1 + eps
        ok_lo = collapsed or f(lo_a - res) >= 1 - eps
        if not (ok_hi and ok_lo):
            probs.append({"clause": "the reported policy sums to 1 to the accuracy the solver guarantees (C10: f(alpha + res) <= "
                                    "1 + eps, f(alpha - res) >= 1 - eps unless alpha - res <= max q)", "sum": float(s),
                          "N": N, "K": K, "expected_q": q[:30], "prior": pi[:30], "reported": w[:30]})
    try:        # what descend / select_root_move do with it
        torch.multinomial(out, 1)
    except RuntimeError as e:
        probs.append({"clause": "torch.multinomial accepts the reported policy (a move can be sampled)", "error": str(e)[:120],
                      "reported": w[:30]})
    call = entry["call"]
    if call is not None and call["pi_obj"] is not prior and not torch.equal(call["pi"], prior):
        probs.append({"clause": "the prior handed to the solver is the node's child priors"})
    return probs


def select_oracle(trace):
    import tak
    sel, tree = trace["select"], trace["tree"]
    if sel is None:
        return []
    m = sel["move"]
    out = []
    try:        # judged on a private copy of the position as it was before the search
        child = c08.rebuild(trace["tree_expected"]).move(m)
    except tak.IllegalMove:
        return [{"clause": "the move returned for a position is a legal move of that position", "move": takio.j_move(m),
                 "position": c08.j_snap(trace["tree_expected"])}]
    idx = sel["choices"][-1] if sel["choices"] else None
    if idx is None or tree.children[idx].move != m or c08.snap(tree.children[idx].position) != c08.snap(child):
        out.append({"clause": "the move returned is the sampled child's move", "move": takio.j_move(m), "sampled": idx})
    return out


def after_phase(trace, engine, root, tree, abs_path, j):
    """ask for the policy AGAIN, outside the search: on the first root, on the tree just searched and on a few
    expanded inner nodes, with C, 2C and C/2 (tree_probs for the configured C, Node.policy_probs for the others).
    The wrappers log every call with the node's statistics frozen at that moment; the oracle and the Coq replay then
    demand the formula for the CURRENT statistics and the C of the query."""
    rec = trace["rec"]
    C = trace["spec"]["C"]
    targets = [([], root)]
    if tree is not root:
        targets.append((abs_path, tree))
        targets += [([i], c) for i, c in enumerate(root.children or []) if c.children and [i] != abs_path[:1]][:1]
    targets += [(abs_path + [i], c) for i, c in enumerate(tree.children or []) if c.children][:2]
    cs = [C, 2 * C, C / 2]
    cs = cs[j % 3:] + cs[:j % 3]
    queries = []
    for path, node in targets:
        if not node.children:
            continue
        for cq in cs:
            k0 = len(rec.all_calls)
            if cq == C:
                engine.tree_probs(node)
            else:
                node.policy_probs(cq)
            call = rec.all_calls[-1] if len(rec.all_calls) > k0 else None
            rec.policy_log[-1]["query"] = {"phase": j, "node_path": list(path), "C": cq}
            queries.append({"path": list(path), "C": cq, "call": call})
    rec.phases[-1]["queries"] = queries
    rec.choices, rec.calls = [], []


def case_term(trace):
    spec = trace["spec"]
    mix = spec["noise"]["mix"] if spec.get("noise") else 0.25
    phs = clist([c08.c_phase(p, True) for p in trace["rec"].phases])
    sel = trace["select"]
    fin = None
    if sel is not None and len(sel["calls"]) == 1 and len(sel["choices"]) == 1:
        fin = f"({c08.c_call(sel['calls'][0])}, {cz(sel['choices'][0])}, {takio.c_move(sel['move'])})"
    return (f"({c08.c_fme(f32(spec['cutoff']))}, {c08.c_fme(mix)}, ({c08.c_fme(spec['C'])}, {c08.f64_bits(spec['C'])}), "
            f"{takio.c_pos(c08.rebuild(trace['root_snap']))}, {phs}, {c08.c_evals(trace)}, {copt(fin)})")


def examine(trace):
    """(problems, number of policy calls, stats)"""
    problems = []
    st = Counter()
    for entry in trace["rec"].policy_log:
        st["policy_calls"] += 1
        if entry["call"] is not None:
            st["solver_calls"] += 1
        pr = policy_oracle(entry)
        if entry["stats"] and any(s > 0 for s, _ in entry["stats"]["kids"]) and any(s == 0 for s, _ in entry["stats"]["kids"]):
            st["calls_with_visited_and_unvisited_children"] += 1
        if entry.get("query"):
            st["queries_after_the_search"] += 1
        if entry.get("collapsed"):
            st["calls_in_the_bisection_collapse_regime"] += 1
        if pr and len(problems) < 4:
            for p in pr:
                p["node_visits"] = entry["stats"]["N"] if entry["stats"] else None
                if entry.get("query"):
                    p["asked_again_after_phase"] = entry["query"]["phase"]
                    p["node_path_from_first_root"] = entry["query"]["node_path"]
                    p["C_of_the_query"] = entry["query"]["C"]
                    p["solver_was_called"] = entry["call"] is not None
                    p["statistics_at_the_time"] = {"N": entry["stats"]["N"], "v_zero": entry["stats"]["v_zero"],
                                                   "children_visits_value": entry["stats"]["kids"][:40]}
            problems.extend(pr)
    problems.extend(select_oracle(trace))
    st["max_alpha_spread_e9"] = int(1e9 * max([e.get("alpha_spread", 0.0) for e in trace["rec"].policy_log] or [0]))
    st["max_sum_dev_e6"] = int(1e6 * max([e.get("sum_dev", 0.0) for e in trace["rec"].policy_log] or [0]))
    return problems, st


def volumes(run):
    if run.quick:
        return dict(count=40, sizes=[3, 4], max_budget=40, transformer=1, smash=(3, 0), reuse=8)
    return dict(count=400, sizes=[3, 4, 3, 4, 5, 3, 4, 6], max_budget=160, transformer=4, reuse=80)


def reuse_specs(rng, k, sizes=(3, 4)):
    """search the root, continue BELOW one of its children with a larger limit (twice), asking for the root's policy
    after every step: the root's own visit count no longer changes, its children's statistics do"""
    specs = []
    for j in range(k):
        size = sizes[j % len(sizes)]
        b = rng.randint(8, 30)
        specs.append({"size": size, "opening": c08.random_opening(rng, size, rng.choice([0, 1, 2, 4])),
                      "eval": {"kind": ["random", "drift", "dense" if size == 3 else "random", "pm1"][j % 4],
                               "seed": rng.randrange(1 << 30), "len": "max", "dyadic": True},
                      "sampler": {"mode": ["torch", "uniform", "skew"][j % 3], "seed": rng.randrange(1 << 30)},
                      "noise": None, "C": rng.choice([4.0, 1.5, 8.0]), "cutoff": 1e-6,
                      "phases": [{"path": [], "limit": b}, {"path": [rng.randrange(1000)], "limit": b + rng.randint(0, 10)},
                                 {"path": [], "limit": 2 * b + 5}],
                      "tag": "root-asked-again-after-search-below-a-child"})
    return specs


# positions with a road in one for the side to move (the winning move is what the scripted network is blind to)
EXTREME_POS = ["1,1,x/2,2,x/x3 1 3", "1,1,1,x/2,2,2,x/x4/x4 1 4", "1,1,1,1,x/2,2,2,2,x/x5/x5/x5 1 5"]


def extreme_specs(rng, quick):
    """the bisection-collapse regime through the real code path: cutoff_prob = 1e-12, a network that gives the winning
    move a prior of 1e-9 .. 1e-12 (uniform elsewhere) and values that make that child the best one (q = +1: visited and won,
    or unvisited under a root evaluated +1) while the others sit at q = -1; several visit counts on one tree (the policy
    is asked for during every descent, after every phase with C, 2C, C/2, and by select_root_move)"""
    specs = []
    tps_list = EXTREME_POS[:2] + [c08.swap_colours(EXTREME_POS[0])] + EXTREME_POS[2:] + [c08.swap_colours(EXTREME_POS[1])]
    count = 9 if quick else 60
    for j in range(count):
        start = c08.tps_start(tps_list[j % len(tps_list)])
        budgets = [(8, 30, 90), (12, 40, 120), (5, 25, 200 if not quick else 100)][j % 3]
        if start["size"] == 5:
            budgets = (6, 20, 45)
        specs.append({"size": start["size"], "opening": [], "start": start,
                      "eval": {"kind": "blind_win", "seed": rng.randrange(1 << 30), "len": "max", "dyadic": True,
                               "tiny": [1e-9, 1e-10, 1e-12, 3e-11][j % 4], "root_value": [1.0, 0.5, 1.0, -0.5, 0.75][j % 5],      # never 0: see notes/C09.md (best q = 0)
                               "root_ply": start["ply"]},
                      "sampler": {"mode": ["uniform", "torch", "skew", "uniform"][j % 4], "seed": rng.randrange(1 << 30)},
                      "noise": None, "C": [4.0, 0.5, 1.5, 8.0][j % 4], "cutoff": 1e-12,
                      "phases": [{"path": [], "limit": b} for b in budgets], "tag": "extreme-policy"})
    return specs


def all_specs(run):
    v = dict(volumes(run))
    reuse = v.pop("reuse")
    return c08.gen_specs(run, **v) + reuse_specs(run.rng, reuse) + extreme_specs(run.rng, run.quick)


def one_search(spec):
    """worker: recorded searches of one spec + the oracle + the Coq case; picklable result"""
    import torch
    torch.set_num_threads(1)
    trace = c08.do_search(spec, record_solver=True, select=True, after_phase=after_phase)
    c08_problems, c08_stats = c08.audit(trace)
    problems, st = examine(trace)
    if os.environ.get("VERIF_COQ_ONLY") and not trace["crash"]:
        problems = []           # self-test of the Coq tie
    if trace["crash"] and not problems:
        problems = [{"clause": "the search completes", "crash": trace["crash"]}]
    out = {"spec": spec, "key": c08.spec_key(spec), "problems": problems[:6], "c08_problems": c08_problems[:3],
           "stats": dict(st), "hypothesis_not_met": c08_stats["hypothesis_not_met"], "term": None,
           "root_position": c08.j_snap(trace["root_snap"]),
           "impl_tree": c08.tree_summary(trace["tree"], 1) if trace.get("tree") is not None else None, "sample": None}
    if (not problems and not trace["crash"] and c08.representable(trace) and not c08_stats["inexact_noise_mix"]
            and not c08_stats["hypothesis_not_met"]):
        out["term"] = case_term(trace)
    if trace["rec"].all_calls:
        c = trace["rec"].all_calls[-1]
        out["sample"] = {"spec": spec, "last_solver_call": {"q": c["q"].tolist()[:12], "lambda": c["lam"],
                                                            "pi": c["pi"].tolist()[:12], "out": c["out"].tolist()[:12]}}
    return out


def report(run, res, model_view):
    spec, problems = res["spec"], res["problems"]
    clause = problems[0]["clause"] if problems else \
        "the solver inputs recorded on the implementation are not the model's policy_inputs on the same history"
    run.violation(f"policy-{c08.spec_key(spec)}", {
        "clause": clause, "spec": spec, "root_position": res["root_position"],
        "oracle_problems": problems, "c08_auditor_problems": res["c08_problems"],
        "impl_tree": res["impl_tree"], "model_view": model_view,
        "how_to_replay": "./check C09 --replay <this file>: re-runs the recorded searches of the spec and re-applies the oracle",
    })


# --------------------------------------------------------------------------
# the REAL MCTS.get_move, also when the budget allows no simulation at all
# --------------------------------------------------------------------------
GETMOVE_CTYPE = "position * mv"
GETMOVE_CHECK = "fun c => match Tak.move (fst c) (snd c) with Some _ => true | None => false end"

# flats exhausted, a capstone left, game not over (the mover can only place the capstone or slide)
FLATS_EXHAUSTED = [
    ("x3/x,1,2/2,1,x 1 3", ((0, 1), (0, 1)), "Config(size=3, pieces=2, capstones=1) after two flats each"),
    ("x5/x5/x5/x,2,x3/" + "1" * 21 + ",x4 1 12", None, "5x5, default counts: all 21 white flats in one stack, capstone in hand"),
    ("x6/x6/x6/x6/x,2,x4/" + "1" * 30 + ",x5 1 17", None, "6x6, default counts: all 30 white flats in one stack, capstone in hand"),
]


def get_move_positions(rng, thorough):
    """(what, structural start description): openings, middle games, flats-exhausted-but-capstone-left, both colours"""
    out = []
    for size in (3, 5, 6):
        out.append((f"opening {size}x{size}", c08.start_from_snap(c08.snap(c08.start_position(size, [])))))
    out.append(("opening Config(size=3, pieces=2, capstones=1)", c08.tps_start("x3/x3/x3 1 1", ((2, 1), (2, 1)))))
    for size, plies in ((5, 7), (5, 12), (6, 9)) + (((4, 8), (5, 20), (6, 16)) if thorough else ()):
        ids = c08.random_opening(rng, size, plies)
        out.append((f"middle game {size}x{size} after {len(ids)} plies",
                    c08.start_from_snap(c08.snap(c08.start_position(size, ids)))))
    for tps, reserves, what in FLATS_EXHAUSTED:
        out.append((what, c08.tps_start(tps, reserves)))
        r2 = (reserves[1], reserves[0]) if reserves else None
        out.append((what + " (colours exchanged)", c08.tps_start(c08.swap_colours(tps), r2)))
    return out


def run_get_move(start, mode, seed, budget):
    """call the real MCTS.get_move; returns ("raised", class name) or ("move", Move)"""
    import types
    import torch
    from tak import mcts
    pos = takio.mk_pos(start)
    ev = c08.Evaluator({"kind": "uniform", "seed": seed, "len": "max", "dyadic": True, "cutoff": 1e-6}, start["size"])
    torch.manual_seed(seed)
    if mode == "extreme-policy":
        ev = c08.Evaluator({"kind": "blind_win", "seed": seed, "len": "max", "dyadic": True, "cutoff": 1e-12, "tiny": 1e-10,
                            "root_value": 1.0, "root_ply": start["ply"]}, start["size"])
        cfg = mcts.Config(time_limit=0, simulation_limit=20 * budget, cutoff_prob=1e-12, C=0.5)
        real_time = None
    elif mode == "zero-simulations":
        cfg = mcts.Config(time_limit=1e-9, simulation_limit=0)
        clock = {"t": 1000.0}

        def monotonic():
            clock["t"] += 1.0          # every look at the clock is a second later: the deadline has always passed
            return clock["t"]
        real_time = mcts.time
        mcts.time = types.SimpleNamespace(monotonic=monotonic)
    else:
        cfg = mcts.Config(time_limit=0, simulation_limit=budget)
        real_time = None
    try:
        m = mcts.MCTS(cfg, ev).get_move(pos)
        return "move", m
    except Exception as e:  # noqa   (no move returned: not a violation of "the move returned is legal")
        return "raised", type(e).__name__
    finally:
        if real_time is not None:
            mcts.time = real_time


def get_move_family(run):
    import tak
    rng = run.rng
    cs = core.Cases(ID, "getmove", c08.HEADER, GETMOVE_CTYPE, GETMOVE_CHECK, shard=40)
    dist, samples, n = Counter(), [], 0
    reps = 2 if run.quick else 12
    positions = [(w, st, ("ordinary-budget", "zero-simulations")) for w, st in get_move_positions(rng, not run.quick)]
    positions += [("road in one, the network blind to it (prior 1e-10, cutoff 1e-12)", c08.tps_start(t), ("extreme-policy",))
                  for t in EXTREME_POS[:2] + [c08.swap_colours(EXTREME_POS[0])]]
    for what, start, modes in positions:
        sn = c08.snap(takio.mk_pos(start))
        if c08.outcome(sn) is not None:
            continue
        for mode in modes:
            for r in range(reps):
                seed, budget = rng.randrange(1 << 30), rng.randint(2, 10)
                kind, val = run_get_move(start, mode, seed, budget)
                n += 1
                if kind == "raised":
                    dist[f"{mode}:raised {val}"] += 1
                    if mode == "extreme-policy":       # a search with a positive budget on a live position must return a move
                        run.violation(f"get_move-{c08.code_chk(c08.snap_code(sn))}-{mode}",
                                      {"clause": "the reported distribution is finite and non-negative / a move is returned: the real "
                                                 "MCTS.get_move raised during a search with a positive simulation budget",
                                       "raised": val, "what": what, "mode": mode, "seed": seed, "budget": budget, "start": start,
                                       "position": c08.j_snap(sn), "config": {"cutoff_prob": 1e-12, "C": 0.5, "simulation_limit": 20 * budget},
                                       "network": "uniform priors, 1e-10 on the winning move; value +1 everywhere"})
                    continue
                dist[f"{mode}:returned a move"] += 1
                m = val
                meta = {"what": what, "mode": mode, "seed": seed, "budget": budget, "position": c08.j_snap(sn),
                        "start": start, "move": takio.j_move(m)}
                try:
                    c08.rebuild(sn).move(m)            # on a private copy of the position
                except tak.IllegalMove as e:
                    run.violation(f"get_move-{c08.code_chk(c08.snap_code(sn))}-{mode}",
                                  dict(meta, clause="the move returned for a position is always a legal move of that position: "
                                                    "MCTS.get_move returned a move that Position.move refuses",
                                       refused_with=str(e)[:100], reserves_white_black=start["stones"]))
                    continue
                cs.add(f"({takio.c_pos(c08.rebuild(sn))}, {takio.c_move(m)})", meta)
                if len(samples) < 2:
                    samples.append({k: meta[k] for k in ("what", "mode", "move")})
    failing, shard_fail, nshards = cs.run()
    run.oblige(f"correspondence:get_move ({nshards} shards, {len(cs)} returned moves judged by the model's Tak.move)",
               not shard_fail, str(shard_fail)[:1000])
    for meta in failing[:5]:
        run.violation(f"get_move-model-{c08.code_chk(c08.snap_code(c08.snap(takio.mk_pos(meta['start']))))}-{meta['mode']}",
                      dict(meta, clause="the move returned for a position is always a legal move of that position: "
                                        "the model's rules (Tak.move) refuse the move MCTS.get_move returned"))
    run.count(n, len(cs), "one evaluation = one call of the real MCTS.get_move (ordinary budget, and a budget whose deadline has "
              "passed before the first simulation: time_limit=1e-9, simulation_limit=0, the clock of tak.mcts replaced); a "
              "call that raises returns no move (recorded, not judged); a returned move must be accepted by Position.move on "
              "a private copy and by the model's Tak.move; non-trivial = a move was returned", samples, dict(dist),
              label="get_move")


def correspondence(run):
    core.setup_impl(ext=True, shims=True)
    import torch
    torch.set_num_threads(1)
    c08.tie_cutoff(run)
    get_move_family(run)
    specs = all_specs(run)
    cs = core.Cases(ID, "calls", HEADER, CTYPE, CHECK, show=SHOW, shard=(2 if run.quick else 4))
    dist, total = Counter(), Counter()
    samples, seen = [], set()
    ncalls = nontrivial = 0
    spread_max = sum_max = 0
    t0 = time.time()
    for res in c08.pmap(one_search, specs):
        spec, st, key = res["spec"], Counter(res["stats"]), res["key"]
        if res["hypothesis_not_met"]:
            dist["skipped:no-legal-move-reaches-the-cutoff"] += 1
            continue
        spread_max = max(spread_max, st.pop("max_alpha_spread_e9", 0))
        sum_max = max(sum_max, st.pop("max_sum_dev_e6", 0))
        total.update(st)
        ncalls += st["policy_calls"]
        if key not in seen:
            nontrivial += st["calls_with_visited_and_unvisited_children"]
        seen.add(key)
        dist[f"size{spec['size']}"] += 1
        dist[f"eval:{spec['eval']['kind']}"] += 1
        if res["problems"]:
            dist["searches_violating"] += 1
            if dist["searches_violating"] <= c08.MAX_REPORTS:
                report(run, res, None)
            continue
        if res["term"] is None:
            dist["skipped:not-representable-or-inexact-noise-mix"] += 1
            continue
        cs.add(res["term"], {"spec": spec, "key": key})
        if len(samples) < 3 and res["sample"]:
            samples.append(res["sample"])
    run.extra["impl_wall_s"] = round(time.time() - t0, 1)
    failing, shard_fail, nshards = cs.run()
    run.oblige(f"correspondence:calls ({nshards} shards, {len(cs)} histories)", not shard_fail, str(shard_fail)[:1500])
    # a disagreement that disappears when only the multiplier's bits are ignored (the 1e-12 test on lambda^2 still
    # holds) is a different rounding of the same multiplier, e.g. a re-associated formula: the bit-for-bit tie is
    # broken, the property is not - reported as a broken obligation, not as a violating input
    rounding_only = []
    if failing:
        loose = core.Cases(ID, "loose", HEADER, CTYPE, CHECK_LOOSE, shard=2)
        for meta in failing:
            loose.add(cs.terms[cs.metas.index(meta)], meta)
        still, loose_fail, _ = loose.run()
        if not loose_fail:
            still_keys = {m["key"] for m in still}
            rounding_only = [m for m in failing if m["key"] not in still_keys]
            failing = [m for m in failing if m["key"] in still_keys]
    run.oblige("tie:multiplier bit for bit - every recorded lambda_n (binary64) and the float the solver receives "
               "(binary32) equal model/LambdaF64.v's c*sqrt(N)/(N+K)", not rounding_only,
               f"{len(rounding_only)} histories differ in rounding only (lambda^2 (N+K)^2 = C^2 N still holds within "
               f"1e-12), e.g. spec {rounding_only[0]['spec'] if rounding_only else None}")
    dist["histories_with_multiplier_rounded_differently"] = len(rounding_only)
    dist["searches_disagreeing_with_model"] = len(failing)
    for meta in failing[:c08.MAX_REPORTS]:
        res = one_search(meta["spec"])
        report(run, res, cs.model_view(cs.terms[cs.metas.index(meta)]))
    dist.update(total)
    dist["max_alpha_spread_e9"] = spread_max
    dist["max_abs_sum_minus_1_e6"] = sum_max
    run.count(ncalls, nontrivial,
              "one evaluation = one call of Node.policy_probs (descents and the final select_root_move) checked by the "
              "fraction oracle; its solver inputs are compared with the model's policy_inputs inside Coq; non-trivial = "
              "the node has both visited and unvisited children", samples, dict(dist), label="policy")


def search(run, broken):
    core.setup_impl(ext=True, shims=True)
    for res in c08.pmap(one_search, c08.gen_specs(run, count=40, sizes=[3, 4], max_budget=40, transformer=0)):
        if res["problems"] and not res["hypothesis_not_met"]:
            report(run, res, None)
            return True
    return False


def replay(run, rp):
    core.setup_impl(ext=True, shims=True)
    if "mode" in rp and "start" in rp:          # a get_move call
        import tak
        kind, val = run_get_move(rp["start"], rp["mode"], rp["seed"], rp["budget"])
        if kind == "raised":
            return {"violates": rp["mode"] == "extreme-policy", "get_move": "raised " + val + " (no move returned)"}
        try:
            c08.rebuild(c08.snap(takio.mk_pos(rp["start"]))).move(val)
            return {"violates": False, "get_move": takio.j_move(val), "accepted": True}
        except tak.IllegalMove as e:
            return {"violates": True, "get_move": takio.j_move(val), "refused_with": str(e)[:100]}
    spec = rp["spec"]
    trace = c08.do_search(spec, record_solver=True, select=True, after_phase=after_phase)
    problems, st = examine(trace)
    out = {"oracle_problems": problems[:6], "stats": dict(st)}
    disagrees = None
    if not problems and not trace["crash"] and c08.representable(trace):
        cs = core.Cases(ID, "replay", HEADER, CTYPE, CHECK, show=SHOW, shard=1)
        cs.add(case_term(trace), {"spec": spec})
        failing, shard_fail, _ = cs.run()
        disagrees = bool(failing or shard_fail)
        if disagrees:
            out["model_view"] = cs.model_view(cs.terms[0])
    out["model_disagrees"] = disagrees
    out["violates"] = bool(problems) or bool(disagrees)
    return out


# ---- translator tie (T): the C09_source_* theorems quantify over Node.policy_probs REGENERATED FROM THE SOURCE
# (gen/MctsGen.v); the validation of the semantics library and of the generated functions runs in C08's check (t08).
from . import t08 as _t08  # noqa: E402

MODEL_TARGETS = sorted(set(list(MODEL_TARGETS) + list(_t08.MODEL_TARGETS)))


def pregen(run):
    return _t08.pregen(run)
