"""T12 - trainer.dedup_batch and self_play.encode_games are REGENERATED FROM THE SOURCE (gen/BatchGen.v, written by
harness/torch2coq.py against model/TorchLite.v and model/PySem.v) and proved equal to the hand-written model
(model/Batch.v); the C12 theorems are transported (props/T12.v, proofs/BatchGenEq.v).

Correspondence:
(a) model/TorchLite.v against the real torch / CPython (the residual trusted base): random small dyadic tensors, every
    operation of the library evaluated by torch and compared inside Coq (value, or exception class; floats within
    1 ulp32, non-finite against `NonFin`; inputs on which TorchLite answers `Crash Unmodelled` take no position and are
    counted as skipped);
(b) the GENERATED functions against the implementation: BatchGen.dedup_batch on c12's batches, BatchGen.encode_games
    (oracles: model/SelfPlay.v's logits / results, the observed encoding table) on c12's transcript lists.
search: the translation or an equality proof broke -> c12's oracle of the property statement on the implementation."""
import hashlib
from fractions import Fraction

from .. import core
from ..core import cbool, clist, cz, czlist
from . import c12gen


class _Lazy:
    def __getattr__(self, name):
        import importlib
        return getattr(importlib.import_module("harness.props.c12"), name)


c12 = _Lazy()

ID = "T12"
THEOREMS = ["T12_gen_dedup_eq", "T12_gen_dedup_never_crashes", "T12_gen_encode_games_eq", "T12_gen_dedup_keys",
            "T12_gen_dedup_mean", "T12_gen_dedup_nodup_id", "T12_gen_dedup_mask_positions", "T12_gen_rows_in_order"]
MODEL_TARGETS = ["model/Tak.vo", "model/PySem.vo", "model/SelfPlay.vo", "model/Batch.vo", "model/TorchLite.vo",
                 "model/Harness.vo", "model/Lit.vo", "gen/BatchGen.vo"]
TRUSTED_BASE = [
    "model/TorchLite.v: torch row indexing / row assignment / boolean-mask selection / in-place += and /= with the "
    "(N,1) broadcast / zeros, zeros_like / v[:n] / cat / tensor, and dicts as insertion-ordered association lists - "
    "validated against the real torch and CPython by this correspondence on every run; floats are exact rationals "
    "(dyadic data), a division is compared within 1 ulp32",
    "model/PySem.v (outcomes, list indexing and slicing) - validated by T01's correspondence",
    "harness/torch2coq.py: statements -> Gallina scheme (rebinding of locals, in-place tensor operations only on "
    "objects the function created and did not alias, evaluation order of the binds) - validated by running the "
    "generated functions against the implementation",
    "the callees of encode_games (Transcript.logits, Transcript.results, encoding.encode_batch) enter as oracles with "
    "the behaviour of model/SelfPlay.v / model/Batch.v (tied by C11 / C12 / the translation of self_play.py)",
]
ASSUMPTIONS = [
    "gen_dedup_eq is stated for well-shaped batches (rectangular tensors, positions and mask of one shape, the five "
    "keys of encode_games' dict in its order); outside, TorchLite answers IndexError / Unmodelled (Example gen_dedup_ragged)",
    "gen_encode_games_eq: non-empty list of transcripts with aligned per-ply lists whose logits exist",
]
_STATE = {}


def pregen(run):
    _STATE["err"] = c12gen.pregen(run)
    return _STATE["err"]


# ---------------------------------------------------------------------------------------------------------------
# literals
# ---------------------------------------------------------------------------------------------------------------
def cq(fr):
    fr = Fraction(fr)
    return f"(Qmake {cz(fr.numerator)} {fr.denominator})"


def cfl(x):
    import math
    x = float(x)
    if not math.isfinite(x):
        return "NonFin"
    return f"(Fin {cq(Fraction(x))})"


def ctensor(t):
    """torch tensor (rank <= 2, float / integer / bool) -> TorchLite literal"""
    import torch
    d = t.dim()
    if t.dtype == torch.bool:
        f, tag = cbool, "B"
    elif t.dtype.is_floating_point:
        f, tag = cfl, "F"
    else:
        f, tag = (lambda v: cz(int(v))), "I"
    if d == 0:
        if tag != "F":
            raise ValueError("0-d non-float")
        return f"(F0 {f(t.item())})"
    if d == 1:
        return f"({tag}1 {clist([f(v) for v in t.tolist()])})"
    if d == 2:
        return f"({tag}2 {clist([clist([f(v) for v in row]) for row in t.tolist()])})"
    raise ValueError("rank")


EXN = {"IndexError": "IndexError", "KeyError": "KeyError", "TypeError": "TypeError", "ValueError": "ValueError"}


def _outcome(f):
    """run f(); -> Coq literal of type obs"""
    import torch
    try:
        v = f()
    except Exception as e:  # noqa
        k = EXN.get(type(e).__name__)
        return f"(ORaise {k})" if k else "OOther"
    if isinstance(v, torch.Tensor):
        try:
            return f"(OT {ctensor(v)})"
        except ValueError:
            return "OOther"
    if isinstance(v, bool):
        return f"(OB {cbool(v)})"
    if isinstance(v, int):
        return f"(OZ {cz(v)})"
    if isinstance(v, list) and all(isinstance(x, int) for x in v):
        return f"(OL {czlist(v)})"
    return "OOther"


SEM_HEADER = """From Coq Require Import ZArith QArith Qabs String List Bool.
From TV Require Import model.Tak model.PySem model.TorchLite.
Import ListNotations.
Open Scope string_scope.
Definition close32 (o ex : Q) : bool := Qle_bool (Qabs (o - ex)) (Qabs ex * (1 # 8388608)).
Definition fl_same (o m : fl) : bool :=
  match o, m with Fin a, Fin b => close32 a b | NonFin, NonFin => true | _, _ => false end.
Fixpoint all2 {A B} (f : A -> B -> bool) (a : list A) (b : list B) : bool :=
  match a, b with [], [] => true | x :: a', y :: b' => f x y && all2 f a' b' | _, _ => false end.
Definition t_same (o m : tensor) : bool :=
  match o, m with
  | F0 a, F0 b => fl_same a b
  | F1 a, F1 b => all2 fl_same a b
  | F2 a, F2 b => all2 (all2 fl_same) a b
  | I1 a, I1 b => list_eqb Z.eqb a b
  | I2 a, I2 b => list_eqb (list_eqb Z.eqb) a b
  | B1 a, B1 b => list_eqb Bool.eqb a b
  | B2 a, B2 b => list_eqb (list_eqb Bool.eqb) a b
  | _, _ => false
  end.
Inductive obs := OT (t : tensor) | OZ (z : Z) | OB (b : bool) | OL (l : list Z) | ORaise (e : exn) | OOther.
(* TorchLite's answer against the observed one; Unmodelled takes no position *)
Definition agree_t (r : res tensor) (o : obs) : bool :=
  match r, o with
  | Crash Unmodelled, _ => true
  | Ok t, OT t' => t_same t' t
  | Crash e, ORaise e' => exn_eqb e e'
  | _, _ => false
  end.
Definition agree_z (r : res Z) (o : obs) : bool :=
  match r, o with
  | Crash Unmodelled, _ => true | Ok z, OZ z' => (z =? z')%Z | Crash e, ORaise e' => exn_eqb e e' | _, _ => false end.
Definition agree_l (r : res (list Z)) (o : obs) : bool :=
  match r, o with
  | Crash Unmodelled, _ => true | Ok l, OL l' => list_eqb Z.eqb l l' | Crash e, ORaise e' => exn_eqb e e' | _, _ => false end.
Definition unmodelled {A} (r : res A) : bool := match r with Crash Unmodelled => true | _ => false end.
(* dict scripts: a sequence of d[k] = v / reads, replayed on a Python dict *)
Inductive dop := DSet (k : string) (v : tensor) | DGet (k : string) (o : obs).
Fixpoint run_dops (d : tdict) (ops : list dop) : bool * tdict :=
  match ops with
  | [] => (true, d)
  | DSet k v :: r => run_dops (d_set d k v) r
  | DGet k o :: r => let '(b, d') := run_dops d r in (agree_t (d_get d k) o && b, d')
  end.
Inductive zop := ZSet (k : list Z) (v : Z) | ZGet (k : list Z) (o : obs) | ZIn (k : list Z) (b : bool).
Fixpoint run_zops (d : zdict) (ops : list zop) : bool * zdict :=
  match ops with
  | [] => (true, d)
  | ZSet k v :: r => run_zops (zd_set d k v) r
  | ZGet k o :: r => let '(b, d') := run_zops d r in (agree_z (zd_get d k) o && b, d')
  | ZIn k x :: r => let '(b, d') := run_zops d r in (Bool.eqb (zd_mem k d) x && b, d')
  end.
Inductive tcase :=
| CGetRow (t : tensor) (i : Z) (o : obs)
| CSetRow (t : tensor) (i : Z) (v : tensor) (o : obs)
| CIAdd (a b : tensor) (o : obs)
| CIAddInt (a : tensor) (n : Z) (o : obs)
| CMask (t m : tensor) (o : obs)
| CToList (t : tensor) (o : obs)
| CZerosLike (t : tensor) (o : obs)
| CZeros (n : Z) (o : obs)
| CShape0 (t : tensor) (o : obs)
| CNdim (t : tensor) (n : Z)
| CDivReshape (a c : tensor) (o : obs)        (* a /= c.reshape((-1,) + (1,) * (len(a.shape) - 1)) *)
| CSlice (t : tensor) (n : Z) (o : obs)
| CCat (l : list tensor) (o : obs)
| CTensor (l : list Q) (o : obs)
| CDict (ops : list dop) (keys : list string)
| CZDict (ops : list zop) (keys : list (list Z)).
Definition tchk (c : tcase) : bool :=
  match c with
  | CGetRow t i o => agree_t (t_getrow t i) o
  | CSetRow t i v o => agree_t (t_setrow t i v) o
  | CIAdd a b o => agree_t (t_iadd a b) o
  | CIAddInt a n o => agree_t (t_iadd a (t_of_int n)) o
  | CMask t m o => agree_t (t_mask_select t m) o
  | CToList t o => agree_l (t_tolist_int t) o
  | CZerosLike t o => agree_t (Ok (t_zeros_like t)) o
  | CZeros n o => agree_t (t_zeros n) o
  | CShape0 t o => agree_z (t_shape0 t) o
  | CNdim t n => (t_ndim t =? n)%Z
  | CDivReshape a c o =>
      agree_t (s <- t_reshape c ([(-1)%Z] ++ py_tuple_repeat [1%Z] (t_ndim a - 1)) ;; t_idiv a s) o
  | CSlice t n o => agree_t (t_slice_to t n) o
  | CCat l o => agree_t (t_cat l) o
  | CTensor l o => agree_t (Ok (t_tensor l)) o
  | CDict ops keys => let '(b, d) := run_dops [] ops in b && list_eqb String.eqb (d_keys d) keys
  | CZDict ops keys => let '(b, d) := run_zops [] ops in b && list_eqb (list_eqb Z.eqb) (map fst d) keys
  end.
Definition skipped (c : tcase) : bool :=
  match c with
  | CGetRow t i _ => unmodelled (t_getrow t i) | CSetRow t i v _ => unmodelled (t_setrow t i v)
  | CIAdd a b _ => unmodelled (t_iadd a b) | CMask t m _ => unmodelled (t_mask_select t m)
  | CToList t _ => unmodelled (t_tolist_int t) | CZeros n _ => unmodelled (t_zeros n)
  | CDivReshape a c _ => unmodelled (s <- t_reshape c ([(-1)%Z] ++ py_tuple_repeat [1%Z] (t_ndim a - 1)) ;; t_idiv a s)
  | CCat l _ => unmodelled (t_cat l)
  | _ => false
  end.
"""


def _dy(rng, den=16, lo=-32, hi=32):
    return rng.randint(lo, hi) / den


def _rand_tensor(rng, kind=None, dim=None, n=None, w=None):
    import torch
    kind = kind or rng.choice("FFFIB")
    dim = dim if dim is not None else rng.choice([1, 2, 2])
    n = n if n is not None else rng.randint(0, 4)
    w = w if w is not None else rng.randint(0, 4)
    shape = (n,) if dim == 1 else (n, w)
    cnt = n if dim == 1 else n * w
    if kind == "F":
        return torch.tensor([_dy(rng) for _ in range(cnt)], dtype=torch.float32).reshape(shape)
    if kind == "I":
        return torch.tensor([rng.choice([0, 1, 2, 9, 203, 255]) for _ in range(cnt)], dtype=torch.uint8).reshape(shape)
    return torch.tensor([rng.random() < 0.5 for _ in range(cnt)], dtype=torch.bool).reshape(shape)


def sem_cases(run, n):
    """random operations evaluated by torch / CPython; compared with TorchLite inside Coq"""
    import torch
    rng = run.rng
    cs = core.Cases(ID, "torchlite", SEM_HEADER, "tcase", "tchk", shard=max(60, n // max(1, core.NPROC)))
    cs_skip = core.Cases(ID, "skipped_torchlite", SEM_HEADER, "tcase", "fun c => negb (skipped c)", shard=100000)
    dist = {}

    def add(kind, term, meta=None):
        m = dict(meta or {}, op=kind, term=term[:600])
        cs.add(term, m)
        cs_skip.add(term, m)
        dist[kind] = dist.get(kind, 0) + 1

    ops = ["getrow", "setrow", "iadd", "iaddint", "mask", "tolist", "zeros_like", "zeros", "shape0", "ndim", "divreshape",
           "slice", "cat", "tensor", "dict", "zdict"]
    for _ in range(n):
        op = rng.choice(ops)
        if op == "getrow":
            t = _rand_tensor(rng, kind=rng.choice("FFIB"), dim=rng.choice([1, 2]) if rng.random() < 0.9 else 2)
            if t.dtype != torch.float32 and t.dim() == 1:
                t = _rand_tensor(rng, kind="F", dim=1)
            i = rng.randint(-t.shape[0] - 2, t.shape[0] + 1)
            add(op, f"(CGetRow {ctensor(t)} {cz(i)} {_outcome(lambda: t[i].clone())})")
        elif op == "setrow":
            t = _rand_tensor(rng, dim=rng.choice([1, 2]))
            if t.dim() == 1:
                t = _rand_tensor(rng, kind="F", dim=1)
                v = torch.tensor(_dy(rng), dtype=torch.float32)
            else:
                w = t.shape[1] if rng.random() < 0.85 else rng.randint(0, 4)
                v = _rand_tensor(rng, kind={torch.float32: "F", torch.uint8: "I", torch.bool: "B"}[t.dtype], dim=1, n=w)
            i = rng.randint(-t.shape[0] - 2, t.shape[0] + 1)

            def f(t=t, i=i, v=v):
                t2 = t.clone()
                t2[i] = v
                return t2
            add(op, f"(CSetRow {ctensor(t)} {cz(i)} {ctensor(v)} {_outcome(f)})")
        elif op == "iadd":
            if rng.random() < 0.4:
                a, b = torch.tensor(_dy(rng)), torch.tensor(_dy(rng))
            else:
                k = rng.randint(0, 4)
                a = _rand_tensor(rng, kind="F", dim=1, n=k)
                b = _rand_tensor(rng, kind="F", dim=1, n=k if rng.random() < 0.85 else rng.randint(0, 4))

            def f(a=a, b=b):
                a2 = a.clone()
                a2 += b
                return a2
            add(op, f"(CIAdd {ctensor(a)} {ctensor(b)} {_outcome(f)})")
        elif op == "iaddint":
            a, k = torch.tensor(_dy(rng)), rng.randint(-3, 3)

            def f(a=a, k=k):
                a2 = a.clone()
                a2 += k
                return a2
            add(op, f"(CIAddInt {ctensor(a)} {cz(k)} {_outcome(f)})")
        elif op == "mask":
            k = rng.randint(0, 5)
            t = _rand_tensor(rng, kind=rng.choice("IIFB"), dim=1, n=k)
            m = _rand_tensor(rng, kind="B", dim=1, n=k if rng.random() < 0.8 else rng.randint(0, 5))
            add(op, f"(CMask {ctensor(t)} {ctensor(m)} {_outcome(lambda: t[m])})")
        elif op == "tolist":
            t = _rand_tensor(rng, kind="I", dim=1)
            add(op, f"(CToList {ctensor(t)} {_outcome(lambda: t.tolist())})")
        elif op == "zeros_like":
            t = _rand_tensor(rng)
            add(op, f"(CZerosLike {ctensor(t)} {_outcome(lambda: torch.zeros_like(t))})")
        elif op == "zeros":
            k = rng.randint(0, 6)
            add(op, f"(CZeros {cz(k)} {_outcome(lambda: torch.zeros(k))})")
        elif op == "shape0":
            t = _rand_tensor(rng) if rng.random() < 0.9 else torch.tensor(_dy(rng))
            add(op, f"(CShape0 {ctensor(t)} {_outcome(lambda: t.shape[0])})")
        elif op == "ndim":
            t = _rand_tensor(rng) if rng.random() < 0.9 else torch.tensor(_dy(rng))
            add(op, f"(CNdim {ctensor(t)} {cz(len(t.shape))})")
        elif op == "divreshape":
            k = rng.randint(0, 4)
            a = _rand_tensor(rng, kind="F", dim=rng.choice([1, 2]), n=k)
            c = torch.tensor([float(rng.choice([0, 1, 1, 2, 3, 4, 5, 8])) for _ in range(k)], dtype=torch.float32)

            def f(a=a, c=c):
                a2 = a.clone()
                a2 /= c.reshape((-1,) + (1,) * (len(a2.shape) - 1))
                return a2
            add(op, f"(CDivReshape {ctensor(a)} {ctensor(c)} {_outcome(f)})")
        elif op == "slice":
            t = _rand_tensor(rng)
            k = rng.randint(-t.shape[0] - 2, t.shape[0] + 2)
            add(op, f"(CSlice {ctensor(t)} {cz(k)} {_outcome(lambda: t[:k].clone())})")
        elif op == "cat":
            w = rng.randint(1, 3)
            ts = [_rand_tensor(rng, kind="F", dim=2, n=rng.randint(0, 3), w=w if rng.random() < 0.9 else rng.randint(1, 3))
                  for _ in range(rng.randint(0, 3))]
            add(op, f"(CCat {clist([ctensor(t) for t in ts])} {_outcome(lambda: torch.cat(ts))})")
        elif op == "tensor":
            vals = [_dy(rng) for _ in range(rng.randint(0, 5))]
            f = (lambda: torch.tensor(vals, dtype=torch.float32)) if rng.random() < 0.5 else (lambda: torch.tensor(vals))
            if not vals:
                f = lambda: torch.tensor(vals, dtype=torch.float32)           # noqa: E731
            add(op, f"(CTensor {clist([cq(Fraction(v)) for v in vals])} {_outcome(f)})")
        elif op == "dict":
            d, items = {}, []
            names = ["positions", "mask", "moves", "x", "values"]
            for _ in range(rng.randint(1, 8)):
                k = rng.choice(names)
                if rng.random() < 0.6:
                    v = _rand_tensor(rng, n=rng.randint(0, 2), w=rng.randint(0, 2))
                    d[k] = v
                    items.append(f'(DSet "{k}" {ctensor(v)})')
                else:
                    items.append(f'(DGet "{k}" {_outcome(lambda: d[k])})')
            keys = "[" + "; ".join(f'"{k}"' for k in d) + "]"
            add(op, f"(CDict {clist(items)} {keys})")
        else:
            d, items = {}, []
            pool = [(), (1,), (1, 2), (1, 2, 0), (2,), (0,)]
            for _ in range(rng.randint(1, 9)):
                k = rng.choice(pool)
                r = rng.random()
                if r < 0.5:
                    v = rng.randint(0, 9)
                    d[k] = v
                    items.append(f"(ZSet {czlist(k)} {cz(v)})")
                elif r < 0.75:
                    items.append(f"(ZGet {czlist(k)} {_outcome(lambda: d[k])})")
                else:
                    items.append(f"(ZIn {czlist(k)} {cbool(k in d)})")
            add(op, f"(CZDict {clist(items)} {clist([czlist(k) for k in d])})")
    return cs, cs_skip, dist


# ---------------------------------------------------------------------------------------------------------------
# (b) the generated functions against the implementation
# ---------------------------------------------------------------------------------------------------------------
GEN_HEADER = """From Coq Require Import ZArith QArith Qabs String List Bool.
From TV Require Import model.Tak model.Lit model.PySem model.SelfPlay model.Batch model.TorchLite.
From TV Require gen.BatchGen.
Import ListNotations.
Open Scope string_scope.
Definition T := mkTr.
Definition R := mkRow.
Definition nq (q : Q) : fl := Fin (Qred q).
Definition to_dict (b : batch) : tdict :=
  [("positions", I2 (map r_tokens b)); ("mask", B2 (map r_mask b));
   ("moves", F2 (map (fun r => map nq (r_policy r)) b));
   ("values", F1 (map (fun r => nq (r_value r)) b)); ("results", F1 (map (fun r => nq (r_label r)) b))].
Definition close32 (o ex : Q) : bool := Qle_bool (Qabs (o - ex)) (Qabs ex * (1 # 8388608)).
Definition fl_close (o : Q) (m : fl) : bool := match m with Fin x => close32 o x | NonFin => false end.
Fixpoint all2 {A B} (f : A -> B -> bool) (a : list A) (b : list B) : bool :=
  match a, b with [], [] => true | x :: a', y :: b' => f x y && all2 f a' b' | _, _ => false end.
Fixpoint sparse_from (i : Z) (row : list fl) : list (Z * fl) :=
  match row with
  | [] => []
  | Fin x :: t => if Qeq_bool x 0 then sparse_from (i + 1)%Z t else (i, Fin x) :: sparse_from (i + 1)%Z t
  | NonFin :: t => (i, NonFin) :: sparse_from (i + 1)%Z t
  end.
(* observed batch, column by column: positions, mask, policy width, nonzero policy entries per row, values, results *)
Definition obatch := (list (list Z) * list (list bool) * Z * list (list (Z * Q)) * list Q * list Q)%type.
Definition row_sparse_ok (w : Z) (o : list (Z * Q)) (m : list fl) : bool :=
  (zlen m =? w)%Z && all2 (fun a b => (fst a =? fst b)%Z && fl_close (snd a) (snd b)) o (sparse_from 0%Z m).
Definition dict_matches (r : res tdict) (o : obatch) : bool :=
  let '(ps, ms, w, pol, vs, rs) := o in
  match r with
  | Ok [(k1, I2 p); (k2, B2 m); (k3, F2 mo); (k4, F1 v); (k5, F1 l)] =>
      list_eqb String.eqb [k1; k2; k3; k4; k5] ["positions"; "mask"; "moves"; "values"; "results"] &&
      list_eqb (list_eqb Z.eqb) p ps && list_eqb (list_eqb Bool.eqb) m ms &&
      all2 (row_sparse_ok w) pol mo && all2 fl_close vs v && all2 fl_close rs l
  | _ => false
  end.
Definition chk_dedup (c : batch * obatch) : bool := dict_matches (BatchGen.dedup_batch (to_dict (fst c))) (snd c).
Definition view_dedup (c : batch * obatch) := BatchGen.dedup_batch (to_dict (fst c)).
(* encode_games: the callees as oracles - model/SelfPlay.v's logits / results, the observed encoding table *)
Definition enc_of (tbl : list (position * list Z)) (p : position) : list Z :=
  match find (fun e => position_eqb (fst e) p) tbl with Some e => snd e | None => [] end.
Definition logits_oracle (tr : transcript) : res tensor :=
  match logits tr with Some rows => Ok (F2 (map (map nq) rows)) | None => Crash Unmodelled end.
Definition results_oracle (tr : transcript) : res (list Q) := Ok (map inject_Z (results tr)).
Definition encode_batch_oracle (enc : position -> list Z) (ps : list position) : res (tensor * tensor) :=
  let encs := map enc ps in
  Ok (I2 (map (pad_tokens (max_len encs)) encs), B2 (map (pad_mask (max_len encs)) encs)).
Definition chk_enc (c : list (position * list Z) * list transcript * obatch) : bool :=
  let '(tbl, logs, o) := c in
  dict_matches (BatchGen.encode_games logits_oracle results_oracle (encode_batch_oracle (enc_of tbl)) logs) o.
"""


def _c_obatch(rows, width):
    return (f"({clist([czlist(r['tokens']) for r in rows])}, {clist([clist([cbool(x) for x in r['mask']]) for r in rows])}, "
            f"{cz(width)}, {clist([clist([f'({cz(j)}, {cq(v)})' for (j, v) in r['policy']]) for r in rows])}, "
            f"{clist([cq(r['value']) for r in rows])}, {clist([cq(r['label']) for r in rows])})")


def correspondence(run):
    core.setup_impl(ext=True, shims=True)
    import torch
    torch.set_num_threads(1)
    rng = run.rng
    # (a) TorchLite against torch / CPython
    n_sem = 3000 if run.quick else 20000
    cs, cs_skip, dist = sem_cases(run, n_sem)
    failing, shard_fail, nshards = cs.run()
    run.oblige(f"correspondence:TorchLite.v against torch / CPython ({nshards} shards)", not shard_fail, str(shard_fail)[:1500])
    skipped, sf2, _ = cs_skip.run()
    dist["skipped (TorchLite answers Unmodelled: no position taken)"] = len(skipped)
    run.count(n_sem, n_sem - len(skipped),
              "TorchLite.v operation by operation against the real torch / CPython on random small dyadic tensors "
              "(value or exception class compared inside Coq); non-trivial = TorchLite takes a position (not Unmodelled)",
              [{"op": m["op"], "case": m["term"]} for m in cs.metas[:3]], dist, label="torchlite")
    for m in failing[:5]:
        run.violation("torchlite-" + m["op"], {"clause": "model/TorchLite.v disagrees with torch / CPython (trusted base wrong)",
                                                "case": m["term"], "op": m["op"]})
    if _STATE.get("err"):
        return                                  # nothing generated: the obligation `translate:` is already broken
    # (b) generated dedup_batch against the implementation
    n_d = 300 if run.quick else 3000
    csd = core.Cases(ID, "gen_dedup", GEN_HEADER, "batch * obatch", "chk_dedup", show="view_dedup", shard=max(20, n_d // 16))
    crashed = 0
    for _ in range(n_d):
        rows, style = c12._gen_batch(rng, True)
        try:
            out, _ok = c12._rows_of(c12._dedup_batch()(c12._tensor_batch(rows)))
        except Exception:  # noqa  (reported by C12 / the search)
            crashed += 1
            continue
        term = f"({clist([c12._c_row(r) for r in rows])}, {_c_obatch(out, len(rows[0]['dense']))})"
        csd.add(term, {"rows": len(rows), "style": style, "batch": [c12._j_row(r) for r in rows],
                       "impl_output": [c12._j_orow(r) for r in out]})
    failing, shard_fail, nshards = csd.run()
    run.oblige(f"correspondence:BatchGen.dedup_batch against the implementation ({nshards} shards)", not shard_fail,
               str(shard_fail)[:1500])
    run.count(len(csd), sum(1 for m in csd.metas if m["rows"] >= 2),
              "the GENERATED dedup_batch evaluated inside Coq against the real dedup_batch on c12's batches; "
              "non-trivial = at least two rows", [{"rows": m["rows"], "style": m["style"]} for m in csd.metas[:2]],
              {"implementation raised": crashed}, label="gen_dedup")
    for m in failing[:3]:
        run.violation("gen-dedup-differs", {
            "clause": "the function generated from the current source disagrees with the implementation "
                      "(translator / TorchLite wrong, not a property failure by itself)",
            "input": {"batch": m["batch"]}, "impl_output": m["impl_output"],
            "model_view": csd.model_view(csd.terms[csd.metas.index(m)])})
    # generated encode_games
    n_e = 60 if run.quick else 600
    cse = core.Cases(ID, "gen_encode", GEN_HEADER, "list (position * list Z) * list transcript * obatch", "chk_enc",
                     shard=max(4, n_e // 16))
    for _ in range(n_e):
        logs = c12._gen_logs(rng, True)
        if not logs:
            continue
        from tak import self_play
        try:
            rows, _ok = c12._rows_of(self_play.encode_games(logs))
        except Exception:  # noqa
            continue
        term = (f"({c12._enc_table(logs)}, {clist([c12._c_transcript(tr) for tr in logs])}, "
                f"{_c_obatch(rows, rows[0]['width'] if rows else 0)})")
        cse.add(term, {"games": len(logs), "rows": len(rows), "logs": [c12._j_transcript(tr) for tr in logs]})
    failing, shard_fail, nshards = cse.run()
    run.oblige(f"correspondence:BatchGen.encode_games against the implementation ({nshards} shards)", not shard_fail,
               str(shard_fail)[:1500])
    run.count(len(cse), sum(1 for m in cse.metas if m["rows"] >= 2),
              "the GENERATED encode_games (oracles: model logits / results, observed encoding table) against the real "
              "encode_games on c12's transcript lists", [{"games": m["games"], "rows": m["rows"]} for m in cse.metas[:2]],
              label="gen_encode")
    for m in failing[:3]:
        run.violation("gen-encode-differs", {
            "clause": "the generated encode_games disagrees with the implementation", "input": {"logs": m["logs"]}})


def search(run, broken):
    """the translation or an equality proof broke while the generated code still follows the implementation: the SOURCE
    changed.  c12's oracle of the property statement is run on the implementation."""
    return c12.search(run, broken)


def replay(run, rp):
    return c12.replay(run, rp)
